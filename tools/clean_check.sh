#!/bin/sh
# tools/clean_check.sh <jobs> "<seeds>" Cxx [Cyy...]: run checks against a scratch worktree of /repo's HEAD in private copies of
# /verif (so that /repo and /verif/lean may be busy with something else). Development tool.
jobs="$1"; seeds="$2"; shift 2
base=/tmp/frv-clean-$$
mkdir -p "$base"
git -C /repo worktree add --detach "$base/repo" HEAD -q || exit 2
n=0
for p in "$@"; do
  for s in $seeds; do
    (
      w="$base/$p-$s"; mkdir -p "$w"
      (cd /verif && tar cf - --exclude=.git --exclude=replays --exclude=seeded --exclude=.work . ) | (cd "$w" && tar xf -)
      res=$(cd "$w" && VERIF_SEED=$s VERIF_REPO="$base/repo" ./check "$p" $CHECK_ARGS 2>&1); rc=$?
      echo "$p seed=$s rc=$rc $(echo "$res" | grep -E '^VIOLATION' | head -1) :: $(echo "$res" | grep -E 'tier=' | cut -c1-230)"
      if [ $rc -ne 0 ]; then mkdir -p /tmp/frv-clean-fail; cp -r "$w/replays" "/tmp/frv-clean-fail/$p-$s" 2>/dev/null; echo "$res" | tail -20 > "/tmp/frv-clean-fail/$p-$s.log"; fi
      rm -rf "$w"
    ) &
    n=$((n+1))
    if [ $((n % jobs)) -eq 0 ]; then wait; fi
  done
done
wait
git -C /repo worktree remove --force "$base/repo"; rm -rf "$base"; git -C /repo worktree prune
