#!/bin/sh
# re-run every registered check (quick tier, seed 0) on the clean /repo so that the committed evidence files are
# the ones written on the unchanged tree
cd /verif || exit 2
[ -z "$(git -C /repo status --short)" ] || { echo "/repo is not clean"; exit 2; }
rc=0
for p in $(grep -v '^#' tools/registered.txt); do
  out=$(VERIF_SEED=${VERIF_SEED:-0} ./check "$p" --tier quick 2>&1); r=$?
  echo "$out" | grep "tier=" | cut -c1-200
  [ $r = 0 ] || { echo "  !! $p exit $r"; echo "$out" | grep -E "VIOLATION|broken" | head -5; rc=1; }
done
exit $rc
