#!/bin/sh
# tools/keep_wave.sh <out-dir> <Cxx> <first-index> [extra checks...]: confirm and store every m<k> of a sub-agent's output
out="$1"; pid="$2"; idx="$3"; shift 3
for d in "$out"/m*; do
  [ -f "$d/patch.diff" ] || continue
  echo "== $d -> $pid-m$idx"
  /verif/tools/keep_mutant.sh "$d" "$pid-m$idx" "$pid" "$@" 2>&1 | grep -E "^(confirm|REJECT|checks|patch)" | cut -c1-600
  idx=$((idx+1))
done
