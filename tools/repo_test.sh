#!/bin/sh
# run the pinned baseline suite on a tree (default /repo); exit 0 iff exactly the 444 baseline tests pass
cd "${1:-/repo}" || exit 2
out=$(env -u FLOW_RECORD_VERIF /venv/bin/python -m pytest -q -p no:cacheprovider --timeout=900 --continue-on-collection-errors 2>&1 | tail -1)
echo "$out"
case "$out" in *"7 failed, 444 passed"*) exit 0;; *) exit 1;; esac
