#!/usr/bin/env python3
"""seeded/*/meta.json -> seeded/RESULTS.md (one row per seeded change: where, what it needs, which check caught it, how)."""
import json
import os
import re

VERIF = os.path.dirname(os.path.dirname(os.path.abspath(__file__)))
S = os.path.join(VERIF, "seeded")


def short(t, n):
    t = re.sub(r"\s+", " ", str(t or "")).replace("|", "/")
    return t if len(t) <= n else t[: n - 1] + "…"


rows = []
for d in sorted(os.listdir(S)):
    mp = os.path.join(S, d, "meta.json")
    if not os.path.exists(mp):
        continue
    m = json.load(open(mp))
    res = m.get("checks_run_against_worktree_with_change") or m.get("checks_run_against_repo_with_change") or ""
    if "no-failing-input-found" in res:
        verdict = "caught (obligation broke; no failing input found)"
    elif "VIOLATION" in res:
        verdict = "caught, concrete replay"
    else:
        verdict = "MISSED"
    rows.append((d, m.get("property", ""), ", ".join(os.path.basename(f) for f in m.get("files", [])),
                 short(m.get("needs"), 170), verdict, short(m.get("what_the_check_reported", ""), 110)))
out = ["# Seeded changes and what the checks do with them",
       "",
       "Every change was produced by an independent sub-agent that saw only the property text and a scratch worktree; each",
       "keeps the 444 baseline tests green, and its demo passes on the unchanged tree and fails with the change (confirmed in",
       "a scratch worktree before it was kept). `outcome` is what `./check <property>` (quick tier, seed 0) does with the",
       "change applied. Regenerate with tools/gen_seeded_table.py; re-evaluate with tools/par_mutants.sh or",
       "tools/run_all_mutants.sh.",
       "",
       f"{len(rows)} changes, {sum(1 for r in rows if r[4].startswith('caught, concrete'))} caught with a concrete replay, "
       f"{sum(1 for r in rows if 'no failing input' in r[4])} caught without one, {sum(1 for r in rows if r[4] == 'MISSED')} missed.",
       "",
       "| id | property | file | needs, to manifest | outcome | reported failure |", "|---|---|---|---|---|---|"]
for r in rows:
    out.append("| " + " | ".join(r) + " |")
open(os.path.join(S, "RESULTS.md"), "w").write("\n".join(out) + "\n")
print(out[8])
