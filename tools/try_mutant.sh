#!/bin/sh
# tools/try_mutant.sh <patch.diff> <Cxx> [more checks...]: apply a seeded change to /repo, run the checks, undo it.
patch="$1"; shift
cd /verif || exit 2
git -C /repo apply "$patch" || { echo "patch does not apply"; exit 2; }
for p in "$@"; do
  out=$(./check "$p" 2>&1); rc=$?
  echo "$out" | grep -E "^VIOLATION|tier=" | sed "s/^/[$p rc=$rc] /" | cut -c1-260
done
git -C /repo checkout -- .
/venv/bin/python -m harness.extract >/dev/null 2>&1
