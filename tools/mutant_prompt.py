# tools/mutant_prompt.py <Cxx> <tag> <n> [extra hint]: prompt for an independent sub-agent that seeds property-breaking changes
# in its own scratch worktree /tmp/mut/<Cxx><tag>-wt (create it first: git -C /repo worktree add --detach ...). The agent gets only this text.
import json,sys
pid=sys.argv[1]; tag=sys.argv[2] if len(sys.argv)>2 else 'a'
n=int(sys.argv[3]) if len(sys.argv)>3 else 3
extra=sys.argv[4] if len(sys.argv)>4 else ''
p=[json.loads(l) for l in open('/verif/properties.jsonl') if json.loads(l)['id']==pid][0]
wt=f"/tmp/mut/{pid}{tag}-wt"; out=f"/tmp/mut/{pid}{tag}-out"
print(f"""You are helping to evaluate a verification effort for the Python library fox-it/flow.record by seeding realistic defects ("mutants").

Your own scratch git worktree of the library is at {wt} (a detached checkout; work ONLY there; never touch /repo or /verif, and do not read anything under /verif). Run Python as: cd {wt} && PYTHONPATH={wt} /venv/bin/python ...   (this makes `flow.record` import from your worktree). The existing test suite is run with:
  cd {wt} && PYTHONPATH={wt} /venv/bin/python -m pytest -q -p no:cacheprovider --timeout=900 --continue-on-collection-errors 2>&1 | tail -3
On the unchanged tree it ends with "7 failed, 444 passed" (the 7 failures are missing optional dependencies and are expected; they must stay exactly those 7 and the 444 must keep passing).

Here is a semantic property of flow.record that is supposed to hold (JSON):

{json.dumps(p, indent=1)}

Task: produce {n} DIFFERENT changes to the library source (under {wt}/flow/record/, not the tests) each of which BREAKS this property while still importing/compiling and while the existing test suite still gives exactly "7 failed, 444 passed". Each change should look like something a developer could plausibly commit (an optimisation, a refactor, a 'simplification', an off-by-one, a reordered check, a cached value, an early return, a changed default) — not sabotage that is obvious at a glance, and NOT something that ordinary use would expose at once. Prefer changes that need something specific to manifest: a particular multi-step sequence of operations, an unusual input or boundary value, a crash/fault at a particular point, a particular interleaving, or two cooperating sites that each look fine alone. The {n} changes should hit different mechanisms / code sites of the property (look at the anchors), and differ in what they need to manifest. {extra}

For each change k = 1..{n}, write into the directory {out}/m<k>/ (create it):
  - patch.diff : `git diff` of the change against the worktree HEAD (must apply with `git apply` to a clean checkout of the same commit). Only this one change in it.
  - demo.py : a small standalone program (uses only flow.record and the standard library; writes temp files only under tempfile.mkdtemp() and removes them) that exits 0 (prints PASS) on the unchanged library and exits 1 (prints FAIL and what went wrong) with the change applied. It must demonstrate a violation of the PROPERTY as stated, not merely a behaviour difference.
  - meta.json : {{"property": "{pid}", "summary": "<what the change does and where>", "needs": "<what specific input/sequence/fault is needed for it to manifest, and why ordinary use and the existing tests do not hit it>", "files": ["<changed files>"]}}

Procedure for each change: make the edit in the worktree; run the test suite (must be 7 failed, 444 passed); run demo.py (must FAIL); save `git diff > patch.diff`; then `git checkout -- .` to restore the clean tree and run demo.py again (must PASS) before starting the next change. At the end leave the worktree clean (`git status` empty; remove any files you created inside it).

Do not weaken or edit tests. Do not add new dependencies. Keep each patch small (typically 1-15 changed lines). When done, reply with a short list: for each m<k> one line with the file/function changed, what is needed to manifest, and the confirmed suite/demo results.""")
