#!/bin/sh
# tools/par_mutants.sh <jobs> <dir-with-mutants> [ids...]
#   Evaluates seeded changes IN PARALLEL without touching /repo: for each id a scratch worktree of /repo's HEAD with
#   <dir>/<id>/patch.diff applied and a private copy of /verif (with its Lean build) under /tmp/frv-par/<id>; runs
#   VERIF_REPO=<worktree> <copy>/check <Cxx> there and prints one line per id. Everything is removed afterwards.
#   (development tool; registered checks always run in /verif against /repo)
jobs="$1"; dir="$2"; shift 2
ids="$*"; [ -n "$ids" ] || ids=$(ls "$dir" | grep -E '^C[0-9]+-?[a-z]*-?m[0-9]+$|^m[0-9]+$' | sort)
mkdir -p /tmp/frv-par
one() {
  id="$1"; dir="$2"; p="$3"
  w=/tmp/frv-par/$id
  rm -rf "$w"; mkdir -p "$w"
  git -C /repo worktree add --detach "$w/repo" HEAD -q 2>/dev/null || { echo "$id: worktree failed"; return; }
  if ! git -C "$w/repo" apply "$dir/$id/patch.diff" 2>/dev/null; then echo "$id: patch does not apply"; git -C /repo worktree remove --force "$w/repo"; rm -rf "$w"; return; fi
  mkdir -p "$w/verif"
  (cd /verif && tar cf - --exclude=.git --exclude=replays --exclude=seeded --exclude=.work . ) | (cd "$w/verif" && tar xf -)
  res=$(cd "$w/verif" && VERIF_REPO="$w/repo" ./check "$p" 2>&1); rc=$?
  line=$(echo "$res" | grep -E "^VIOLATION" | head -1)
  summ=$(echo "$res" | grep -E "tier=" | head -1 | cut -c1-200)
  if [ -n "$line" ]; then
    rp=$(echo "$line" | sed 's/.*replay=\([^ ]*\).*/\1/')
    fail=$(/venv/bin/python -c "import json,sys; r=json.load(open('$w/verif/$rp')); print((r.get('failure') or ('broken: '+'; '.join(str(b.get('name'))[:80] for b in r.get('broken',[])[:2])))[:220])" 2>/dev/null)
  fi
  echo "$id [$p] rc=$rc ${line:-no VIOLATION line} :: ${fail} :: $summ"
  git -C /repo worktree remove --force "$w/repo" 2>/dev/null
  rm -rf "$w"
}
n=0
for id in $ids; do
  p=$(cat "$dir/$id/meta.json" | /venv/bin/python -c "import json,sys; print(json.load(sys.stdin)['property'])")
  one "$id" "$dir" "$p" &
  n=$((n+1))
  if [ $((n % jobs)) -eq 0 ]; then wait; fi
done
wait
git -C /repo worktree prune
