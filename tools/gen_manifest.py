#!/usr/bin/env python3
"""Writes MANIFEST.json from the table below (one place to keep the per-property claims current)."""
import json
import os

VERIF = os.path.dirname(os.path.dirname(os.path.abspath(__file__)))
BASELINE = ("cd /repo && env -u FLOW_RECORD_VERIF /venv/bin/python -m pytest -ra -q -p no:cacheprovider "
            "--timeout=900 --continue-on-collection-errors")

REGISTERED = os.path.join(VERIF, "tools", "registered.txt")


def load_claims():
    """A property is claimed when its id is listed in tools/registered.txt; the claim text lives in the module."""
    import importlib
    import sys
    sys.path.insert(0, VERIF)
    claims = {}
    ids = [l.strip() for l in open(REGISTERED) if l.strip() and not l.startswith("#")]
    for pid in ids:
        mod = importlib.import_module(f"harness.props.{pid}")
        claims[pid] = mod.CLAIM
    return claims


NOT_YET = "machinery for this property is not built yet in this revision (Lean model + correspondence in progress)"


def main():
    CLAIMS = load_claims()
    ids = [json.loads(l)["id"] for l in open(os.path.join(VERIF, "properties.jsonl"))]
    checks = []
    for pid in ids:
        if pid not in CLAIMS:
            continue
        c = CLAIMS[pid]
        checks.append({
            "property_id": pid,
            "quick_cmd": f"./check {pid} --tier quick",
            "thorough_cmd": f"./check {pid} --tier thorough",
            "evidence_file": f"evidence/{pid}.json",
            "replay_cmd_template": f"./check {pid} --replay {{path}}",
            "engine": "lean4-proof+correspondence",
            "level_claimed": {"category": "proof", "text": c["text"], "design_ref": f"DESIGN.md section {c['design']}"},
            "level_note": c["note"],
            "technique": c["technique"],
        })
    m = {
        "version": 1,
        "setup_cmd": "./check --setup",
        "hooks": {
            "guard": "FLOW_RECORD_VERIF",
            "enable": "no source hooks exist; checks export FLOW_RECORD_VERIF=1 for uniformity only",
            "baseline_off_cmd": BASELINE,
            "source_commits": [],
            "add_only": True,
        },
        "engines": [{
            "name": "lean4-proof+correspondence",
            "path": "check",
            "serves_properties": [c["property_id"] for c in checks],
            "kind_free_text": "Lean 4 theorems about an executable model (lean/), model regenerated in part from /repo "
                              "by harness/extract.py and tied to the implementation by a differential correspondence "
                              "harness (harness/engine.py, harness/props/*.py) that drives the real code in-process "
                              "and the compiled model driver (frdriver) on the same inputs",
        }],
        "checks": checks,
        "not_applicable": [{"property_id": pid, "reason": NOT_YET} for pid in ids if pid not in CLAIMS],
        "notes": "See DESIGN.md. exit 0 = held; exit 1 + VIOLATION line = violated or no longer shown to hold; exit 2 = "
                 "infrastructure failure.",
    }
    with open(os.path.join(VERIF, "MANIFEST.json"), "w") as f:
        json.dump(m, f, indent=1)
        f.write("\n")


if __name__ == "__main__":
    main()
