#!/bin/sh
# tools/try_wt.sh <patch-dir> <Cxx> [check args]: run one check of THIS /verif against a scratch worktree with the patch applied
# (sequential development aid; the worktree is removed afterwards; /repo is never touched)
d="$1"; p="$2"; shift 2
wt=/tmp/frv-try-$$
git -C /repo worktree add --detach "$wt" HEAD -q || exit 2
git -C "$wt" apply "$d/patch.diff" || { git -C /repo worktree remove --force "$wt"; exit 2; }
cd /verif && VERIF_REPO="$wt" ./check "$p" "$@"
rc=$?
git -C /repo worktree remove --force "$wt"; git -C /repo worktree prune
exit $rc
