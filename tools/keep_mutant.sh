#!/bin/sh
# tools/keep_mutant.sh <dir with patch.diff demo.py meta.json> <seeded-id> <Cxx> [more checks]
# Confirms the seeded change in a scratch worktree (suite unchanged, demo PASS clean / FAIL mutated), runs the checks
# against /repo with the change applied, undoes it, and stores everything under /verif/seeded/<seeded-id>/.
src="$1"; id="$2"; shift 2
wt=/tmp/frv-confirm-$$
git -C /repo worktree add --detach "$wt" HEAD -q || exit 2
clean=$(cd "$wt" && PYTHONPATH="$wt" /venv/bin/python "$src/demo.py" >/dev/null 2>&1; echo $?)
git -C "$wt" apply "$src/patch.diff" || { echo "patch does not apply"; git -C /repo worktree remove --force "$wt"; exit 2; }
suite=$(cd "$wt" && PYTHONPATH="$wt" env -u FLOW_RECORD_VERIF /venv/bin/python -m pytest -q -p no:cacheprovider --timeout=900 --continue-on-collection-errors 2>&1 | tail -1)
mut=$(cd "$wt" && PYTHONPATH="$wt" /venv/bin/python "$src/demo.py" >/dev/null 2>&1; echo $?)
git -C /repo worktree remove --force "$wt"
echo "confirm: demo clean exit=$clean, mutated exit=$mut, suite: $suite"
case "$suite" in *"7 failed, 444 passed"*) ;; *) echo "REJECT: suite changed"; exit 1;; esac
[ "$clean" = 0 ] && [ "$mut" != 0 ] || { echo "REJECT: demo does not discriminate"; exit 1; }
dst=/verif/seeded/$id
mkdir -p "$dst"
cp "$src/patch.diff" "$src/demo.py" "$dst/"
results=""
cd /verif
git -C /repo apply "$src/patch.diff"
for p in "$@"; do
  out=$(./check "$p" 2>&1); rc=$?
  line=$(echo "$out" | grep -E "^VIOLATION" | head -1)
  results="$results$p: exit $rc ${line:-no VIOLATION line}; "
done
git -C /repo checkout -- .
/venv/bin/python -m harness.extract >/dev/null 2>&1
echo "checks: $results"
/venv/bin/python - "$src/meta.json" "$dst/meta.json" "$suite" "$clean" "$mut" "$results" <<'PY'
import json, sys
src, dst, suite, clean, mut, results = sys.argv[1:7]
m = json.load(open(src))
m.update({"confirmed_in_scratch_worktree": {"suite_with_change": suite, "demo_exit_clean": int(clean), "demo_exit_with_change": int(mut)},
          "checks_run_against_repo_with_change": results.strip(),
          "how_to_rerun": "git -C /repo apply seeded/<id>/patch.diff && ./check <Cxx>; git -C /repo checkout -- ."})
json.dump(m, open(dst, "w"), indent=1)
PY
