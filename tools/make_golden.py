#!/venv/bin/python
"""Writes the frozen golden corpus under /verif/golden (run ONCE at the pinned revision; files are committed).
Each stream g<i>.records[.gz] has g<i>.json with the expected deep observations, packed-level records and hashes."""
import gzip
import io
import json
import os
import sys
import warnings

VERIF = os.path.dirname(os.path.dirname(os.path.abspath(__file__)))
sys.path.insert(0, VERIF)
sys.path.insert(0, "/repo")
from harness import values as V  # noqa: E402
from harness import wire as W  # noqa: E402
from harness.prng import Rng  # noqa: E402
from harness.props import C02  # noqa: E402

GOLDEN = os.path.join(VERIF, "golden")


def main():
    from flow.record import RecordStreamReader, RecordStreamWriter
    warnings.simplefilter("ignore")
    os.makedirs(GOLDEN, exist_ok=True)
    r = Rng(20260929)
    types = [t for t in V.SERIALISABLE if t not in ("net.ipaddress", "net.IPAddress")]
    for i in range(8):
        descs = [V.gen_descspec(r, types=types) for _ in range(3)]
        recs = []
        for _ in range(12):
            if r.chance(15):
                recs.append(["grouped", "grp/golden", [V.gen_record(r, descspec=r.choice(descs), types=types) for _ in range(2)]])
            else:
                recs.append(V.gen_record(r, descspec=r.choice(descs), types=types))
        recs = C02_fix(recs)
        objs = [V.build(s) for s in recs]
        buf = io.BytesIO()
        w = RecordStreamWriter(buf)
        for o in objs:
            w.write(o)
        w.flush()
        data = buf.getvalue()
        w.fp = None
        got = list(RecordStreamReader(io.BytesIO(data)))
        obs = [V.observe(o) for o in objs]
        assert obs == [V.observe(o) for o in got], f"stream {i} does not round-trip at the pinned revision"
        hashes = []
        for o in objs:
            W.all_descs(o, hashes)
        fn = f"g{i}.records" + (".gz" if i % 2 else "")
        with open(os.path.join(GOLDEN, fn), "wb") as f:
            f.write(gzip.compress(data, mtime=0) if fn.endswith(".gz") else data)
        json.dump({"stream_file": fn, "obs": obs, "rvs": [W.to_rv(o) for o in got], "hashes": hashes,
                   "specs": recs}, open(os.path.join(GOLDEN, f"g{i}.json"), "w"))
    # older-release shapes, assembled by the independent reference encoder
    r = Rng(7)
    for i, shape in enumerate(["extra", "unversioned", "name-only", "name-bytes"]):
        case = {"kind": "ref2impl", "desc": ["old/style", [["string", "a"], ["varint", "n"], ["datetime", "t"]]],
                "records": [{"vals": [V.S("x%d" % j), V.I(j * 1000 - 3), ["dt", [2015, 5, 5, 5, 5, 5, j], "utc", 0]],
                             "meta": {"_source": V.S("s"), "_classification": V.NONE,
                                      "_generated": ["dt", [2016, 1, 1, 0, 0, 0, 0], "utc", 0]},
                             "shape": shape, "extra": 2, "version": 1} for j in range(3)],
                "seed": 100 + i, "minimal": False, "rehdr": i == 0}
        data = C02.build_ref_stream(case)
        got = list(RecordStreamReader(io.BytesIO(data)))
        want = [V.observe(V.build(["rec", case["desc"], rec["vals"], rec["meta"]])) for rec in case["records"]]
        assert want == [V.observe(o) for o in got], f"old-style stream {shape} is not read as specified"
        name, fields = case["desc"]
        from harness import refcodec as RC
        hashes = [[V.enc_str(name), [[V.enc_str(t), V.enc_str(n)] for t, n in fields], RC.ident_hash(name, fields)]]
        fn = f"old{i}_{shape}.records"
        open(os.path.join(GOLDEN, fn), "wb").write(data)
        json.dump({"stream_file": fn, "obs": want, "rvs": [W.to_rv(o) for o in got], "hashes": hashes},
                  open(os.path.join(GOLDEN, f"old{i}_{shape}.json"), "w"))
    print("golden corpus written:", sorted(os.listdir(GOLDEN)))


def C02_fix(recs):
    from harness.props.C04 import shrink_big
    return shrink_big(recs)


if __name__ == "__main__":
    main()
