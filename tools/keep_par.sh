#!/bin/sh
# tools/keep_par.sh <jobs> <dir> : for every <dir>/<Cxx-...> holding patch.diff demo.py meta.json: confirm the seeded change in
# a scratch worktree (suite unchanged: "7 failed, 444 passed"; demo exit 0 clean / non-zero with the change), run the
# property's check against a worktree with the change (private copy of /verif), and store it under /verif/seeded/<id>/
# with what was observed. Nothing touches /repo's working tree.
jobs="$1"; dir="$2"
one() {
  src="$1"; id=$(basename "$src")
  p=$(/venv/bin/python -c "import json; print(json.load(open('$src/meta.json'))['property'])")
  w=/tmp/frv-keep/$id; rm -rf "$w"; mkdir -p "$w"
  git -C /repo worktree add --detach "$w/repo" HEAD -q || { echo "$id: worktree failed"; return; }
  clean=$(cd "$w/repo" && PYTHONPATH="$w/repo" /venv/bin/python "$src/demo.py" >/dev/null 2>&1; echo $?)
  git -C "$w/repo" apply "$src/patch.diff" || { echo "$id: patch does not apply"; git -C /repo worktree remove --force "$w/repo"; return; }
  suite=$(cd "$w/repo" && PYTHONPATH="$w/repo" env -u FLOW_RECORD_VERIF /venv/bin/python -m pytest -q -p no:cacheprovider --timeout=900 --continue-on-collection-errors 2>&1 | tail -1)
  mut=$(cd "$w/repo" && PYTHONPATH="$w/repo" /venv/bin/python "$src/demo.py" >/dev/null 2>&1; echo $?)
  rm -rf "$w/repo/.pytest_cache" "$w/repo/.benchmarks"
  mkdir -p "$w/verif"
  (cd /verif && tar cf - --exclude=.git --exclude=replays --exclude=seeded --exclude=.work . ) | (cd "$w/verif" && tar xf -)
  res=$(cd "$w/verif" && VERIF_REPO="$w/repo" ./check "$p" 2>&1); rc=$?
  line=$(echo "$res" | grep -E "^VIOLATION" | head -1)
  fail=""
  if [ -n "$line" ]; then
    rp=$(echo "$line" | sed 's/.*replay=\([^ ]*\).*/\1/')
    fail=$(/venv/bin/python -c "import json; r=json.load(open('$w/verif/$rp')); print((r.get('failure') or ('broken obligations: '+'; '.join(str(b.get('name'))[:80] for b in r.get('broken',[])[:2])))[:300])" 2>/dev/null)
  fi
  ok=1
  case "$suite" in *"7 failed, 444 passed"*) ;; *) ok=0;; esac
  [ "$clean" = 0 ] && [ "$mut" != 0 ] || ok=0
  echo "$id [$p] confirm: clean=$clean mutated=$mut suite='$suite' ok=$ok | check rc=$rc ${line:-no VIOLATION line} :: $fail"
  if [ $ok = 1 ]; then
    dst=/verif/seeded/$id; mkdir -p "$dst"; cp "$src/patch.diff" "$src/demo.py" "$dst/"
    /venv/bin/python - "$src/meta.json" "$dst/meta.json" "$suite" "$clean" "$mut" "$p: exit $rc ${line:-no VIOLATION line};" "$fail" <<'PY'
import json, sys
src, dst, suite, clean, mut, results, fail = sys.argv[1:8]
m = json.load(open(src))
m.update({"confirmed_in_scratch_worktree": {"suite_with_change": suite, "demo_exit_clean": int(clean), "demo_exit_with_change": int(mut)},
          "checks_run_against_worktree_with_change": results.strip(), "what_the_check_reported": fail,
          "how_to_rerun": "git -C /repo apply /verif/seeded/<id>/patch.diff && ./check <Cxx>; git -C /repo checkout -- .   (or tools/par_mutants.sh 1 /verif/seeded <id>)"})
json.dump(m, open(dst, "w"), indent=1)
PY
  fi
  git -C /repo worktree remove --force "$w/repo" 2>/dev/null; rm -rf "$w"
}
mkdir -p /tmp/frv-keep
n=0
for src in "$dir"/C*; do
  [ -f "$src/patch.diff" ] || continue
  one "$src" &
  n=$((n+1)); if [ $((n % jobs)) -eq 0 ]; then wait; fi
done
wait
git -C /repo worktree prune
