#!/bin/sh
# tools/run_all_mutants.sh [ids...]: apply every seeded change to /repo in turn, run the check of the property it breaks
# (quick tier), undo it, and record the outcome in seeded/<id>/meta.json and seeded/RESULTS.md.
cd /verif || exit 2
ids="$*"; [ -n "$ids" ] || ids=$(ls seeded | grep -E '^C[0-9]+-m[0-9]+$' | sort)
git -C /repo diff --quiet || { echo "/repo has local changes"; exit 2; }
out=seeded/RESULTS.md
[ -n "$*" ] || printf '| seeded change | property | outcome of ./check (quick) with the change applied |\n|---|---|---|\n' > $out
for id in $ids; do
  p=$(echo "$id" | cut -d- -f1)
  git -C /repo apply "/verif/seeded/$id/patch.diff" || { echo "$id: patch does not apply"; continue; }
  res=$(./check "$p" 2>&1); rc=$?
  git -C /repo checkout -- .
  line=$(echo "$res" | grep -E "^VIOLATION" | head -1)
  echo "$id rc=$rc ${line:-no VIOLATION line}"
  case "$line" in
    *no-failing-input-found) verdict="caught (broken obligation, no failing input found)";;
    VIOLATION*) verdict="caught with a concrete replay";;
    *) verdict="MISSED (exit $rc)";;
  esac
  [ -n "$*" ] || echo "| $id | $p | $verdict |" >> $out
  /venv/bin/python - "$id" "$rc" "$line" <<'PY'
import json, sys
id_, rc, line = sys.argv[1:4]
p = f"/verif/seeded/{id_}/meta.json"
m = json.load(open(p))
m["checks_run_against_repo_with_change"] = f"{id_.split('-')[0]}: exit {rc} {line or 'no VIOLATION line'};"
json.dump(m, open(p, "w"), indent=1)
PY
done
/venv/bin/python -m harness.extract >/dev/null 2>&1
