"""C19 — Avro export preserves supported values and never corrupts silently.

Correspondence (exact, against the Lean model through frdriver):
  schema  descriptor_to_schema / fastavro's stored writer schema / schema_to_descriptor (doc path, fallback path,
          doc-less path) == Avro.descriptorToSchema / fastavroNorm / schemaToDescriptor
  seq     AvroWriter over a sequence of records (boundary values, unmappable types/values, a second record type),
          the caller stopping or carrying on after a refusal: which writes raise, and what `fastavro.reader` finds in
          the file == Avro.write / fileRows
  jtype   avro_type_to_flow_type on generated JSON types == Avro.avroTypeToFlowType
Property oracle (real code only): see `oracle`.
"""
import ctypes
import datetime as _dtm
import os
import shutil
import struct
import sys
import tempfile
import types

from .. import values as V

ID = "C19"
CHECK_BUILT_DESCRIPTOR = True     # engine.oracle_of: declared records must carry their declared descriptor
CLAIM = dict(
    text="Kernel-checked: schema<->descriptor inverse for ALL descriptors over the mapped types (any number of fields incl. "
         "the zero-field descriptor, which is proved to fail the doc sniff and to be rebuilt from namespace/name), for the "
         "schema as written and as fastavro stores it; unmapped type => error and nothing is ever written; second record "
         "type => error, state unchanged; a record is appended iff fastavro accepts every value (32-bit / 64-bit / "
         "timestamp ranges, strict UTF-8), then exactly the stored values, else the file still reads the earlier rows; "
         "whole-sequence theorem under stop-at-first-refusal; the unrestricted sequence statement is refuted by a proved "
         "counterexample (a refused record's leading fields stay in the block buffer) replayed on the real code as a "
         "known finding; type tables/shape facts by decide/rfl over the regenerated tables. Tie: translator + seeded "
         "correspondence through AvroWriter/AvroReader and fastavro.reader + real-code oracle.",
    note="partial: fastavro's encoder/validator is the hypothesis AvroLaws (token level), json.loads/json.dumps the "
         "hypothesis JsonTextLaws.Inverse, single-precision rounding FloatLaws - exercised by the correspondence, not "
         "proved; descriptor name validity (no dot, no leading/trailing slash) is a hypothesis implied by the library's "
         "name regex.",
    technique="Lean 4 theorems over an executable adapter model + model/implementation correspondence",
    design="8/C19")
RULE = ("schema: names from a pool of flat/nested record names x 0-6 fields over AVRO_TYPE_MAP's domain (10% with an "
        "unmapped type); seq: 1-2 descriptors x 1-6 records with values from boundary pools (+-1 around 2^31, 2^32, 2^63, "
        "None, epoch/pre-1970/year 1/9999 timestamps with offsets, float specials, surrogate text) x policy stop|continue; "
        "jtype: random JSON type terms (names, logical objects, arrays, unions). Non-trivial = a boundary/None/refused "
        "value, a zero-field or nested-name descriptor, or a non-primitive JSON type; distinct by hash of the case.")
TRUSTED = ["fastavro 1.12 encoder/validator/reader (AvroLaws, token-level model; compared on every run)",
           "json.dumps/json.loads (JsonTextLaws.Inverse)", "IEEE double->single rounding (FloatLaws; ctypes.c_float here)"]
ASSUMPTIONS = ["Avro compression codec is deflate (snappy is not installed)",
               "descriptor names are valid record type names (no '.', no leading/trailing '/')"]
EXPLANATION = "all kinds are seeded samples; the unbounded claims are the Lean theorems"

MAPPED = ["boolean", "datetime", "filesize", "uint16", "uint32", "float", "string", "unix_file_mode", "varint", "wstring",
          "uri", "bytes"]
UNMAPPED = ["path", "net.ipaddress", "stringlist", "dictlist", "command", "dynamic", "net.ipnetwork", "string[]", "varint[]"]
INT32 = ("uint16", "uint32")
INT64 = ("varint", "filesize", "unix_file_mode")
NAMES = ["test/a", "a", "t/x", "filesystem/entry", "deep/er/name", "x1/y_2/z3", "Upper/Case", "test/b"]
# ("from", "class", "in": Python keywords - the library generates another constructor for such record types)
FNAMES = ["a", "b", "c", "value", "ts", "name", "data", "n", "x1", "long_field_name", "s", "bad", "from", "class", "in"]
EPOCH = _dtm.datetime(1970, 1, 1, tzinfo=_dtm.timezone.utc)
US = _dtm.timedelta(microseconds=1)


def EXHAUSTIVE(tier):
    return False


# ------------------------------------------------------------------ generation

def _gen_desc(r, allow_bad=True, allow_digest=True):
    n = r.choice([0, 1, 1, 2, 3, 4, 6])
    names = r.sample(FNAMES, n)
    fields = []
    for fn in names:
        w = r.below(100)
        if allow_bad and w < 4:
            t = r.choice(UNMAPPED)
        elif allow_digest and w < 6:
            t = "digest"
        else:
            t = r.choice(MAPPED)
        fields.append([t, fn])
    return [r.choice(NAMES), fields]


TS_SPECIALS = [(1970, 1, 1, 0, 0, 0, 0), (1970, 1, 1, 0, 0, 0, 1), (1970, 1, 1, 0, 0, 1, 0), (1970, 1, 1, 1, 11, 34, 967295),
               (1970, 1, 1, 1, 11, 34, 967296), (1969, 12, 31, 23, 59, 59, 999999), (1969, 12, 31, 22, 48, 25, 32704),
               (1, 1, 1, 0, 0, 0, 0), (9999, 12, 31, 23, 59, 59, 999999), (1901, 12, 13, 20, 45, 52, 0),
               (2038, 1, 19, 3, 14, 8, 0), (1600, 2, 29, 12, 0, 0, 5), (2262, 4, 11, 23, 47, 16, 854775)]


def _gen_val(r, t):
    if r.chance(12):
        return V.NONE
    if t == "boolean":
        return ["bool", r.below(2)]
    if t == "uint16":
        return V.I(r.choice([0, 1, 65535, 65534, 32768, r.randint(0, 65535)]))
    if t == "uint32":
        return V.I(r.choice([0, 1, 2 ** 31 - 1, 2 ** 31, 2 ** 31 + 1, 2 ** 32 - 1, 65536, r.randint(0, 2 ** 32 - 1),
                             r.randint(0, 2 ** 31 - 1)]))
    if t in INT64:
        lo = 0 if t == "unix_file_mode" and r.chance(50) else None
        v = r.choice([0, 1, -1, 2 ** 31 - 1, 2 ** 31, -2 ** 31, -2 ** 31 - 1, 2 ** 32, 2 ** 63 - 1, 2 ** 63, -2 ** 63,
                      -2 ** 63 - 1, 2 ** 64, 2 ** 62, -2 ** 62, r.randint(-2 ** 40, 2 ** 40), r.randint(-300, 300),
                      r.randint(-2 ** 63, 2 ** 63 - 1)])
        if lo is not None:
            v = abs(v)
        if t == "filesize" and abs(v) >= 2 ** 56 and not r.chance(30):
            v = v % (2 ** 56)        # repr() of huge filesizes raises (C20 finding); irrelevant here but keeps replays readable
        return V.I(v)
    if t == "float":
        return ["float", r.choice(V.FLOAT_BITS + ["47efffffe0000000", "47effffff0000000", "36a0000000000000",
                                                  "3690000000000000", "7e37e43c8800759c"])] if r.chance(60) \
            else ["float", r.bytes(8).hex()]
    if t in ("string", "wstring", "uri"):
        s = V.gen_text(r, escapes=r.chance(25))
        return V.S(s[:300])
    if t == "bytes":
        return V.B(r.bytes(r.choice([0, 1, 2, 31, 255, r.randint(0, 40)])))
    if t == "datetime":
        if r.chance(45):
            y, mo, d, h, mi, s, us = r.choice(TS_SPECIALS)
            tz = "utc"
            if (y, mo, d) not in ((1, 1, 1), (9999, 12, 31)) and r.chance(40):
                tz = ["fixed", r.choice([3600, -3600, 19800, -16200, 86399, -86399, 1, -1]), 0]
            return ["dt", [y, mo, d, h, mi, s, us], tz, 0]
        return V.gen_dt_spec(r, tzkinds=("utc", "fixed", "zone"))
    if t == "digest":
        return r.choice([V.NONE, ["digest", ["d41d8cd98f00b204e9800998ecf8427e", None, None]]])
    return V.gen_value(r, t)


def _gen_rec(r, ds):
    meta = {"_generated": _gen_val(r, "datetime") if r.chance(70) else ["dt", [2024, 1, 2, 3, 4, 5, 6], "utc", 0]}
    if meta["_generated"] == V.NONE:
        meta["_generated"] = ["dt", [2020, 1, 1, 0, 0, 0, 0], "utc", 0]
    if r.chance(30):
        meta["_source"] = V.S(V.gen_text(r, escapes=r.chance(15))[:100])
    if r.chance(20):
        meta["_classification"] = V.S(r.choice(["", "TLP:RED", "é"]))
    return ["rec", ds, [_gen_val(r, t) for t, _ in ds[1]], meta]


def _gen_jtype(r, depth=0):
    w = r.below(12)
    if w < 5 or depth > 2:
        return r.choice(["null", "boolean", "int", "long", "float", "double", "string", "bytes", "fixed", "record", ""])
    if w < 7:
        t = {"type": r.choice(["long", "int", "string", "null", "bytes"])}
        if r.chance(70):
            t["logicalType"] = r.choice(["timestamp-micros", "timestamp-millis", "date", "time-micros", "decimal", "uuid",
                                         "local-timestamp-micros", "", "datetime", "duration"])
        return t
    if w < 9:
        return {"type": "array", "items": _gen_jtype(r, depth + 1)}
    return [_gen_jtype(r, depth + 1) for _ in range(r.randint(0, 3))]


def gen_cases(rng, tier):
    n = {"quick": 6, "thorough": 120, "search": 10}[tier]
    cases = []
    r = rng.fork("schema")
    for name in NAMES:
        cases.append({"kind": "schema", "desc": [name, []]})
        cases.append({"kind": "schema", "desc": [name, [["string", "s"]]]})
    for t in MAPPED + ["digest"] + UNMAPPED:
        cases.append({"kind": "schema", "desc": ["test/a", [[t, "f"]]]})
    for _ in range(150 * n):
        cases.append({"kind": "schema", "desc": _gen_desc(r)})
    r = rng.fork("seq")
    for _ in range(260 * n):
        ds = _gen_desc(r, allow_bad=r.chance(40), allow_digest=r.chance(30))
        descs = [ds]
        if r.chance(15):
            descs.append(_gen_desc(r, allow_bad=False, allow_digest=False))
            if descs[1] == descs[0]:
                descs.pop()
        recs = []
        for _ in range(r.choice([0, 1, 1, 2, 3, 4, 6])):
            d = descs[0] if len(descs) == 1 or not r.chance(25) else descs[1]
            recs.append(_gen_rec(r, d))
        cases.append({"kind": "seq", "recs": recs, "stop": not r.chance(30)})
        if r.chance(12):
            cases[-1]["stdout"] = True
    # wall clocks that occur twice (the hour repeated when a zone's clocks go back): fold selects the instant
    DF = ["t/fold", [["datetime", "ts"], ["string", "s"]]]
    for wall, zone in (([2020, 10, 25, 2, 30, 0, 0], "Europe/Amsterdam"), ([2021, 11, 7, 1, 30, 0, 5], "America/New_York"),
                       ([2021, 4, 4, 1, 45, 0, 0], "Australia/Lord_Howe")):
        for folds in ((0, 1), (1, 0), (1, 1)):
            recs = [["rec", DF, [["dt", wall, ["zone", zone], f], V.S("x")],
                     {"_generated": ["dt", wall, ["zone", zone], f]}] for f in folds]
            cases.append({"kind": "seq", "recs": recs, "stop": True})
    # two types of one name that a 32-bit identifier cannot tell apart (colliding hash input), and two that differ in
    # one field only: the second type must be refused as a mixed record type, whatever the order
    r = rng.fork("samename")
    cx = [["t/x", [["stringlist", "a"], ["string", "b"]]], ["t/x", [["string", "a"], ["string", "listb"]]]]
    ev = [["t/ev", [["string", "s"], ["varint", "n"]]], ["t/ev", [["string", "s"], ["varint", "n"], ["string", "extra"]]]]
    # ... two types with the SAME field names in the same order that differ in the type NAME, or in the TYPE of a field
    nm = [["sensor/sample", [["string", "unit"], ["float", "reading"]]], ["sensor/counter", [["string", "unit"], ["float", "reading"]]]]
    ty = [["t/ty", [["string", "unit"], ["float", "reading"]]], ["t/ty", [["string", "unit"], ["varint", "reading"]]]]
    ty2 = [["t/ty2", [["varint", "k"], ["string", "s"]]], ["t/ty2", [["uint16", "k"], ["bytes", "s"]]]]
    # ... or only in the ORDER of their fields (another field list, another descriptor)
    pm = [["t/perm", [["string", "a"], ["varint", "b"], ["string", "c"]]], ["t/perm", [["varint", "b"], ["string", "c"], ["string", "a"]]]]
    for pair in (cx, list(reversed(cx)), ev, list(reversed(ev)), nm, list(reversed(nm)), ty, list(reversed(ty)), ty2,
                 list(reversed(ty2)), pm, list(reversed(pm))):
        for _ in range(2 * n):
            recs = [_gen_rec(r, pair[0])] + [_gen_rec(r, r.choice(pair)) for _ in range(r.randint(1, 3))] + [_gen_rec(r, pair[1])]
            cases.append({"kind": "seq", "recs": recs, "stop": not r.chance(30)})
    # grouped records handed to the writer (all groups are instances of ONE class, whatever they group): a group is
    # either refused or written with every one of its values; groups of different flat types are mixed record types
    r = rng.fork("grpseq")
    PA = ["t/host", [["string", "hostname"]]]
    PB = ["t/port", [["varint", "port"]]]
    PC = ["t/user", [["string", "user"], ["varint", "uid"]]]
    G0 = {"_generated": ["dt", [2020, 1, 2, 3, 4, 5, 0], "utc", 0]}
    mk = {"a": lambda i: ["rec", PA, [V.S("h%d" % i)], G0], "b": lambda i: ["rec", PB, [V.I(1000 + i)], G0],
          "c": lambda i: ["rec", PC, [V.S("u%d" % i), V.I(i)], G0]}
    for _ in range(6 * n):
        shapes = [r.choice(["ab", "a", "ac", "cb", "abc", "ba"]) for _ in range(r.randint(2, 4))]
        if len(set(shapes)) == 1:
            shapes[-1] = "ac" if shapes[0] != "ac" else "ab"
        recs = [["grouped", "grp/avro", [mk[ch](10 * i + j) for j, ch in enumerate(sh)]] for i, sh in enumerate(shapes)]
        if r.chance(30):
            recs.insert(r.below(len(recs) + 1), mk["c"](99))
        cases.append({"kind": "grpseq", "recs": recs})
    r = rng.fork("jtype")
    for _ in range(120 * n):
        cases.append({"kind": "jtype", "type": _gen_jtype(r)})
    return cases


# ------------------------------------------------------------------ real code

def _err(e):
    return {"cls": type(e).__name__, "msg": str(e)[:120]}


def to_single_bits(x):
    y = ctypes.c_float(x).value
    if y != y:
        return "7ff8000000000000"
    return struct.pack(">d", y).hex()


def _val(v):
    """a packed / read-back value as the model's token"""
    if v is None:
        return ["null"]
    if isinstance(v, bool):
        return ["bool", bool(v)]
    if isinstance(v, int):
        return ["int", str(int(v))]
    if isinstance(v, float):
        return ["float", "7ff8000000000000" if v != v else struct.pack(">d", v).hex()]
    if isinstance(v, str):
        return ["str", V.enc_str(v)]
    if isinstance(v, (bytes, bytearray)):
        return ["bytes", bytes(v).hex()]
    if isinstance(v, _dtm.datetime):
        off = v.utcoffset()
        if off is None:
            return ["naive-dt", repr(v)]
        return ["dt", str((v - EPOCH) // US)]
    if isinstance(v, tuple):
        return ["tuple"]
    return ["other", type(v).__name__, repr(v)[:60]]


def _single(tok):
    if tok[0] == "float":
        return ["float", to_single_bits(struct.unpack(">d", bytes.fromhex(tok[1]))[0])]
    return tok


def _schema_fields(sch):
    out = []
    for f in sch["fields"]:
        t = f["type"]
        if isinstance(t, list) and len(t) == 2 and isinstance(t[0], dict) and t[0].get("logicalType") == "timestamp-micros" \
                and t[0].get("type") == "long" and t[1] == {"type": "null"}:
            out.append([f["name"], "timestamp-micros"])
        elif isinstance(t, list) and len(t) == 2 and isinstance(t[0], str) and t[1] == "null":
            out.append([f["name"], t[0]])
        else:
            out.append([f["name"], "?" + repr(t)])
    return out


def _desc_obs(d):
    return {"name": d.name, "fields": [[t, n] for t, n in d.get_field_tuples()]}


def run_real(case):
    import io

    import fastavro
    from flow.record import RecordDescriptor, RecordReader, RecordWriter
    from flow.record.adapter.avro import avro_type_to_flow_type, descriptor_to_schema, schema_to_descriptor

    k = case["kind"]
    if k == "jtype":
        try:
            return {"ok": avro_type_to_flow_type(case["type"])}
        except Exception as e:
            return {"error": type(e).__name__}
    if k == "schema":
        name, fields = case["desc"]
        desc = RecordDescriptor(name, [(t, n) for t, n in fields])
        try:
            sch = descriptor_to_schema(desc)
        except Exception as e:
            return {"error": _err(e)}
        obs = {"ns": sch.get("namespace"), "name": sch["name"], "doc": sch["doc"], "fields": _schema_fields(sch)}
        buf = io.BytesIO()
        w = fastavro.write.Writer(buf, fastavro.parse_schema(sch), codec="deflate")
        w.flush()
        buf.seek(0)
        stored = fastavro.reader(buf).writer_schema
        obs["norm_name"] = stored.get("name")
        obs["norm_ns"] = stored.get("namespace")
        obs["norm_doc_same"] = stored.get("doc") == sch["doc"]
        for key, s in (("back_raw", sch), ("back_norm", stored), ("back_nodoc", {k2: v for k2, v in stored.items()
                                                                                if k2 != "doc"})):
            try:
                obs[key] = _desc_obs(schema_to_descriptor(s))
            except Exception as e:
                obs[key] = {"error": _err(e)}
        return obs
    if k == "grpseq":
        tmp = tempfile.mkdtemp(prefix="frv-c19-")
        try:
            path = os.path.join(tmp, "out.avro")
            recs = [V.build(spec) for spec in case["recs"]]
            obs = {"errs": []}
            w = RecordWriter("avro://" + path)
            for rec in recs:
                try:
                    w.write(rec)
                    obs["errs"].append(None)
                except Exception as e:          # noqa: BLE001
                    obs["errs"].append(_err(e))
            try:
                w.close()
            except Exception as e:              # noqa: BLE001
                obs["close"] = _err(e)
            try:
                with open(path, "rb") as fp:
                    obs["rows"] = [{kk: _val(vv) for kk, vv in o.items()} for o in fastavro.reader(fp)]
            except Exception as e:              # noqa: BLE001
                obs["rows"] = {"error": _err(e)}
            return obs
        finally:
            shutil.rmtree(tmp, ignore_errors=True)
    if k == "seq":
        tmp = tempfile.mkdtemp(prefix="frv-c19-")
        try:
            path = os.path.join(tmp, "out.avro")
            recs = [V.build_record(spec) for spec in case["recs"]]
            obs = {"written": [[_val(v) for v in rec._packdict().values()] for rec in recs], "errs": []}
            # the instants the caller handed over (from the case, before any record existed)
            obs["declared"] = [[_val(V.build(v)) if (v[0] == "dt" and v[2] != "naive") or
                                v[0] in ("none", "bool", "int", "float", "str", "bytes") else None for v in spec[2]]
                               for spec in case["recs"]]
            old_stdout, fake_buf = sys.stdout, None
            if case.get("stdout"):
                # the container goes to standard output (`avro://-`), which the writer leaves open: a plain close() still
                # has to push every buffered record out
                class _Buf(io.BytesIO):
                    pass
                fake_buf = _Buf()
                sys.stdout = types.SimpleNamespace(buffer=fake_buf, write=lambda x: None, flush=lambda: None)
            try:
                w = RecordWriter("avro://-" if case.get("stdout") else "avro://" + path)
                for rec in recs:
                    try:
                        w.write(rec)
                        obs["errs"].append(None)
                    except Exception as e:
                        obs["errs"].append(_err(e))
                        if case["stop"]:
                            break
                try:
                    w.close()
                except Exception as e:
                    obs["close"] = _err(e)
            finally:
                sys.stdout = old_stdout
            if fake_buf is not None:
                with open(path, "wb") as fp:
                    fp.write(fake_buf.getvalue() if not fake_buf.closed else b"")
            try:
                with open(path, "rb") as fp:
                    rd = fastavro.reader(fp)
                    obs["fast_schema_name"] = rd.writer_schema.get("name")
                    rows, tz_ok = [], True
                    for o in rd:
                        rows.append([_val(v) for v in o.values()])
                        for v in o.values():
                            if isinstance(v, _dtm.datetime) and v.utcoffset() != _dtm.timedelta(0):
                                tz_ok = False
                    obs["fast"] = {"rows": rows, "tz_utc": tz_ok}
            except Exception as e:
                obs["fast"] = {"error": _err(e)}
            try:
                rd = RecordReader("avro://" + path)
                out = []
                try:
                    for rec in rd:
                        out.append({"desc": _desc_obs(rec._desc), "values": [_val(v) for v in rec._packdict().values()],
                                    "tz_utc": all(v.utcoffset() == _dtm.timedelta(0) for v in rec._packdict().values()
                                                  if isinstance(v, _dtm.datetime))})
                finally:
                    rd.close()
                obs["flow"] = {"recs": out}
            except Exception as e:
                obs["flow"] = {"error": _err(e)}
            return obs
        finally:
            shutil.rmtree(tmp, ignore_errors=True)
    raise ValueError(k)


# ------------------------------------------------------------------ the property

def _mappable(t):
    return t in MAPPED or t == "digest"


def _unrepresentable(ds, tokens):
    """why the Avro mapping cannot represent this record, per C19's own list (None = it can)"""
    types = [t for t, _ in ds[1]] + ["string", "string", "datetime", "varint"]
    for t in types:
        if not _mappable(t):
            return "unmapped type"
    may = None
    for t, tok in zip(types, tokens):
        if tok[0] == "int":
            v = int(tok[1])
            if t in INT32 and not (-2 ** 31 <= v < 2 ** 31):
                return "integer outside int range"
            if t in INT64 and not (-2 ** 63 <= v < 2 ** 63):
                return "integer outside long range"
        if tok[0] == "str" and any(0xD800 <= ord(c) <= 0xDFFF for c in V.dec_str(tok[1])):
            may = "may: text that is not valid UTF-8"
    return may


def _has_digest(case):
    return any(t == "digest" for rec in case["recs"] for t, _ in rec[1][1])


def _refusal_then_write(case, obs):
    errs = obs["errs"]
    return (not case["stop"]) and any(e is not None and any(x is None for x in errs[i + 1:]) for i, e in enumerate(errs))


def _leaves_garbage(case, obs):
    """a refused record that is followed by an accepted one AND left bytes in the block: its first refused column is
    not the first one, or the refusal came after the union branch was chosen (text that is not UTF-8)"""
    if case["stop"] or not case["recs"]:
        return False
    errs = obs["errs"]
    first = case["recs"][0][1]
    types = [t for t, _ in first[1]] + ["string", "string", "datetime", "varint"]
    if any(not _mappable(t) for t in types):
        return False            # the writer never opened
    for i, e in enumerate(errs):
        if e is None or not any(x is None for x in errs[i + 1:]) or case["recs"][i][1] != first:
            continue
        for k, (t, tok) in enumerate(zip(types, obs["written"][i])):
            bad_branch = (tok[0] == "tuple") or (tok[0] == "int" and (
                (t in INT32 and not (-2 ** 31 <= int(tok[1]) < 2 ** 31)) or
                (t in INT64 and not (-2 ** 63 <= int(tok[1]) < 2 ** 63))))
            bad_text = tok[0] == "str" and any(0xD800 <= ord(c) <= 0xDFFF for c in V.dec_str(tok[1]))
            if bad_text or (bad_branch and k > 0):
                return True
            if bad_branch:
                break
    return False


def _flat(spec):
    """(type key, {field: declared token}) of a plain or grouped record spec - from the case alone"""
    members = spec[2] if spec[0] == "grouped" else [spec]
    fields, vals = [], {}
    for m in members:
        for (t, n), v in zip(m[1][1], m[2]):
            if n not in vals:
                fields.append((t, n))
                vals[n] = ["str", v[1]] if v[0] == "str" else ["int", str(int(v[1]))]
    return ((spec[1] if spec[0] == "grouped" else spec[1][0]), tuple(fields)), vals


def _oracle_grpseq(case, obs):
    if "close" in obs:
        return f"close() raised {obs['close']['cls']}: {obs['close']['msg']}"
    rows = obs["rows"]
    if isinstance(rows, dict):
        return f"the file is not readable: {rows['error']}"
    accepted = [(i, _flat(spec)) for i, (spec, e) in enumerate(zip(case["recs"], obs["errs"])) if e is None]
    if accepted:
        t0 = accepted[0][1][0]
        for i, (tk, _) in accepted[1:]:
            if tk != t0:
                return (f"record {i} of flat type {tk} was accepted by a writer whose schema was made for {t0}: mixed record "
                        f"types are not refused")
    if len(rows) != len(accepted):
        return f"{len(accepted)} records were accepted, the file holds {len(rows)}"
    for (i, (_, vals)), row in zip(accepted, rows):
        for n, tok in vals.items():
            if row.get(n) != tok:
                return f"accepted record {i}: field {n} was handed over as {tok}, the file holds {row.get(n)}"
    return None


def oracle(case, obs):
    k = case["kind"]
    if k == "grpseq":
        return _oracle_grpseq(case, obs)
    if k == "jtype":
        return None
    if k == "schema":
        name, fields = case["desc"]
        if any(not _mappable(t) for t, _ in fields):
            if "error" not in obs:
                return "a descriptor with an unmapped field type got a schema"
            return None
        if "error" in obs:
            return f"descriptor over mapped types refused: {obs['error']['cls']}: {obs['error']['msg']}"
        want = {"name": name, "fields": [list(f) for f in fields]}
        for key in ("back_raw", "back_norm"):
            if obs[key] != want:
                return f"schema_to_descriptor({key[5:]} schema) = {obs[key]} != descriptor {want}"
        if not obs["norm_doc_same"]:
            return "the stored schema does not carry the descriptor document"
        return None
    if k == "seq":
        specs = case["recs"]
        errs = obs["errs"]
        first_desc = specs[0][1] if specs else None
        accepted = []
        for i, e in enumerate(errs):
            spec, toks = specs[i], obs["written"][i]
            why = _unrepresentable(spec[1], toks)
            if spec[1] != first_desc:
                why = why or "second record type"
            if e is None:
                if why and not why.startswith("may"):
                    # accepted although the mapping cannot represent it: it must at least read back unchanged (below)
                    pass
                accepted.append(i)
            else:
                if why is None:
                    # a later record of a writer that never opened (first record refused for its type) is refused too
                    prior_type_refusal = any(not _mappable(t) for t, _ in first_desc[1])
                    if not prior_type_refusal:
                        return (f"record {i} over mapped types with in-range values was refused: {e['cls']}: "
                                f"{e['msg']}")
        if "close" in obs:
            return f"close() raised {obs['close']['cls']}: {obs['close']['msg']}"
        for i in accepted:
            for j, dtok in enumerate(obs.get("declared", [[]] * len(specs))[i]):
                if dtok is not None and obs["written"][i][j] != dtok:
                    if dtok[0] != "dt":
                        return (f"record {i}, field {specs[i][1][1][j][1]}: the value handed over is {dtok}, the record "
                                f"written holds {obs['written'][i][j]}")
                    return (f"record {i}, field {specs[i][1][1][j][1]}: the timestamp handed over is the instant "
                            f"{dtok[1]} us, the record written holds {obs['written'][i][j]}")
        for via in ("fast", "flow"):
            if "error" in obs[via]:
                return f"reading the file via {via} raised {obs[via]['error']['cls']}: {obs[via]['error']['msg']}"
        want = [[_single(t) for t in obs["written"][i]] for i in accepted]
        got = obs["fast"]["rows"]
        if got != want:
            return (f"fastavro.reader finds {len(got)} records that differ from the {len(want)} accepted ones "
                    f"(a value was written differently, lost or invented)")
        if not obs["fast"]["tz_utc"]:
            return "a timestamp read by fastavro is not a UTC instant"
        got = obs["flow"]["recs"]
        if [g["values"] for g in got] != want:
            return (f"AvroReader yields {len(got)} records whose values differ from the {len(want)} accepted ones")
        for g in got:
            if not g["tz_utc"]:
                return "a timestamp read by AvroReader is not a UTC instant"
            if accepted and g["desc"] != {"name": first_desc[0], "fields": [list(f) for f in first_desc[1]]}:
                return f"AvroReader's descriptor {g['desc']} differs from the written one"
        return None
    return None


# ------------------------------------------------------------------ model

def model_op(case, obs):
    k = case["kind"]
    if k == "jtype":
        return {"op": "avro_jtype", "type": case["type"]}
    if k == "schema":
        return {"op": "avro_schema", "name": case["desc"][0], "fields": case["desc"][1]}
    if k == "seq":
        descs = []
        recs = []
        for spec, toks in zip(case["recs"], obs["written"]):
            if spec[1] not in descs:
                descs.append(spec[1])
            if any(t[0] in ("other", "naive-dt") for t in toks):
                return None
            recs.append({"desc": descs.index(spec[1]), "values": toks})
        return {"op": "avro_seq", "descs": [{"name": d[0], "fields": d[1]} for d in descs], "recs": recs,
                "stop": case["stop"]}
    return None


ERR_CLASS = {"mixed": ("Exception", "Mixed record types"), "unsupportedType": ("Exception", "Unsupported Avro type"),
             "noWriter": ("AttributeError", "")}


def compare(case, obs, m):
    k = case["kind"]
    if k == "jtype":
        if ("ok" in m) != ("ok" in obs):
            return f"avro_type_to_flow_type: real {obs} vs model {m}"
        if "ok" in m and m["ok"] != obs["ok"]:
            return f"avro_type_to_flow_type: real {obs['ok']} vs model {m['ok']}"
        return None
    if k == "schema":
        if "error" in m:
            if "error" not in obs:
                return f"model refuses ({m}), descriptor_to_schema did not"
            if m["error"] != "unsupportedType" or m["type"] not in obs["error"]["msg"]:
                return f"model error {m} vs real {obs['error']}"
            return None
        if "error" in obs:
            return f"descriptor_to_schema raised {obs['error']}, model did not"
        for key in ("ns", "name", "doc", "fields", "norm_name"):
            if m[key] != obs[key]:
                return f"schema {key}: real {obs[key]!r} vs model {m[key]!r}"
        if obs["norm_ns"] is not None:
            return "fastavro kept a namespace in the stored schema"
        for key in ("back_raw", "back_norm", "back_nodoc"):
            mo, ro = m[key], obs[key]
            if ("error" in mo) != ("error" in ro):
                return f"{key}: real {ro} vs model {mo}"
            if "error" not in mo and mo != ro:
                return f"{key}: real {ro} vs model {mo}"
        return None
    if k == "seq":
        if "error" in m and "errs" not in m:
            return f"model error {m['error']}"
        if len(m["errs"]) != len(obs["errs"]):
            return f"model attempted {len(m['errs'])} writes, real {len(obs['errs'])}"
        for i, (me, re_) in enumerate(zip(m["errs"], obs["errs"])):
            if (me is None) != (re_ is None):
                return f"write {i}: real {'raised ' + re_['cls'] if re_ else 'accepted'}, model {me or 'accepted'}"
            if me is not None and me["error"] in ERR_CLASS:
                cls, frag = ERR_CLASS[me["error"]]
                if re_["cls"] != cls or frag not in re_["msg"]:
                    return f"write {i}: real raised {re_}, model {me}"
            if me is not None and me["error"] == "refused" and re_["cls"] in ("Exception", "AttributeError"):
                return f"write {i}: real raised {re_}, model {me}"
        if m["rows"] is not None:
            want = [[_single(t) for t in row] for row in m["rows"]]
            if "error" in obs["fast"]:
                return f"model predicts {len(want)} readable rows, fastavro.reader raised {obs['fast']['error']}"
            if obs["fast"]["rows"] != want:
                return "rows found by fastavro.reader differ from Avro.fileRows"
        return None
    return None


def nontrivial(case, obs):
    k = case["kind"]
    if k == "jtype":
        return not isinstance(case["type"], str)
    if k == "schema":
        return len(case["desc"][1]) == 0 or "/" in case["desc"][0] or "error" in obs
    if k == "seq":
        return len(case["recs"]) > 0
    if k == "grpseq":
        return True
    return False


def classify(case, obs):
    k = case["kind"]
    out = [k]
    if k == "jtype":
        out.append("jtype:" + ("ok" if "ok" in obs else "error:" + obs["error"]))
    elif k == "schema":
        out.append("schema:" + ("refused" if "error" in obs else f"fields={min(len(case['desc'][1]), 3)}"))
    elif k == "seq":
        out.append("seq:stop" if case["stop"] else "seq:continue")
        if case.get("stdout"):
            out.append("seq:to-stdout")
        for e in obs.get("errs", []):
            out.append("seq:write:" + ("ok" if e is None else e["cls"]))
        for rec in case["recs"]:
            for t, _ in rec[1][1]:
                out.append("type:" + t)
        if _refusal_then_write(case, obs):
            out.append("seq:refusal-then-write")
        if _leaves_garbage(case, obs):
            out.append("seq:refusal-leaves-garbage")
        if "fast" in obs and "error" in obs["fast"]:
            out.append("seq:unreadable")
    elif k == "grpseq":
        for e in obs.get("errs", []):
            out.append("grpseq:write:" + ("ok" if e is None else e["cls"]))
    return out


def shrink(case):
    if case["kind"] == "grpseq":
        for i in range(len(case["recs"])):
            if len(case["recs"]) > 1:
                yield dict(case, recs=case["recs"][:i] + case["recs"][i + 1:])
        return
    if case["kind"] == "seq":
        recs = case["recs"]
        for i in range(len(recs)):
            yield dict(case, recs=recs[:i] + recs[i + 1:])
        descs = []
        for rec in recs:
            if rec[1] not in descs:
                descs.append(rec[1])
        for ds in descs:
            for j in range(len(ds[1])):
                nd = [ds[0], ds[1][:j] + ds[1][j + 1:]]
                yield dict(case, recs=[["rec", nd, rec[2][:j] + rec[2][j + 1:], rec[3]] if rec[1] == ds else rec
                                       for rec in recs])


MATCHERS = {
    # digest is in AVRO_TYPE_MAP but its packed form (a 3-tuple, also when unset) is refused by every Avro branch
    "avro_digest_unwritable": lambda case, obs, failure: case["kind"] == "seq" and _has_digest(case)
    and "was refused" in failure and "too many values to unpack" in failure,
    # the caller carried on after a refusal: the refused record's leading fields stay in fastavro's block buffer
    "avro_write_after_refusal": lambda case, obs, failure: case["kind"] == "seq" and _leaves_garbage(case, obs)
    and ("differ from the" in failure or "reading the file" in failure),
}
