"""C06 — descriptor names are validated; untrusted definitions cannot inject code.

Correspondence: the generic regex matcher (Model/Rx.lean) vs Python's `re` on random patterns of the supported subset;
`is_valid_field_name` / the two generated patterns / `fieldtype()` / `RecordDescriptor(...)` vs Model/Descriptor.lean
(accept/reject, error class, slots, modules imported, and the exact source text handed to `exec` vs the model's `render`).
Property oracle (real code only): a definition is accepted only if it meets an independent reference grammar
(str.isascii/isidentifier, WHITELIST literal); everything else raises; every source captured from `exec` has the AST of
the template instantiated with canonical identifiers (names only at name positions, node kinds on an allow-list);
tripwires (canary file, builtins canary, sys.modules diff, import trace) stay silent — through the constructor, crafted
descriptor frames, JSON descriptor lines, plain JSON keys and Avro `doc`.
"""
import ast
import builtins
import importlib
import io
import json
import keyword
import os
import re
import struct
import sys

from harness.values import dec_str, enc_str

ID = "C06"
CLAIM = dict(
    text="Kernel-checked theorems for ALL strings (lists of code points) about a generic regex matcher with Python's "
         "^/$ semantics applied to the two patterns regenerated from base.py: accepted field name <=> ASCII identifier "
         "starting with a letter (plus the explicit `$`-before-final-newline artefact), accepted type name <=> "
         "slash-separated such identifiers; charset/no-delimiter theorem; fieldtype() answers only for whitelisted "
         "paths and imports nothing on the reject path, all imports are flow.record.fieldtypes[.ns]; accepted "
         "descriptor has exactly fields ++ RESERVED_FIELDS slots; rendered class source = template filled with "
         "identifiers. Tie: translator (regexes, whitelist, reserved fields, template, statement order) + "
         "correspondence incl. the exact text handed to exec + real-code oracle with AST shape check and tripwires.",
    note="partial: that CPython refuses the generated source for a name with a trailing newline / a keyword class name "
         "is enumerated on the real code, not proved (modelled as execOk); importlib resolution inside the whitelist "
         "is CPython.",
    technique="Lean 4 theorems over an executable model + model/implementation correspondence",
    design="8/C06")
RULE = ("kinds: rx (random pattern of the subset x random string: model matcher vs re.match), name (string: both "
        "patterns, is_valid_field_name with both flags, reference grammars), fieldtype (string: accept/reject, import "
        "trace), desc (type name, fields) through route api|stream|json|jsonkeys|avro with exec capture, AST check and "
        "tripwires; strings come from hostile pools (payloads, look-alikes, keywords, control characters, newline/CR "
        "at every position, 10^4-char names), near-miss random strings and valid names; the newline artefact is "
        "enumerated structurally (position x keyword path x field count x twin field). Non-trivial = the string is "
        "not a plain valid identifier and not empty (desc: at least one component hostile). Distinct by case hash.")
TRUSTED = ["CPython's re module (the model matcher is compared with it on random patterns of the subset)",
           "CPython's parser/compiler: a generated source with a trailing-newline name or keyword class name is refused",
           "keyword.kwlist of the running interpreter (extracted as Gen.pyKeywords)",
           "importlib resolves flow.record.fieldtypes[.namespace] to the library's own modules"]
ASSUMPTIONS = ["regular expressions use only the subset ^ $ [] ? * () of re syntax (extraction fails otherwise)",
               "names reach RecordDescriptor as str (bytes are decoded by to_str; other kinds are rejected or raise)"]
EXPLANATION = ("the name kind enumerates every string of length <= 2 (quick) / <= 3 (thorough) over a 12-character "
               "alphabet completely; all other kinds are seeded samples over hostile pools")

CANARY_FILE = "/tmp/frv-c06-canary"
CANARY_ATTR = "FRV_C06_CANARY"
ALLOWED_NODES = {"Assign", "Attribute", "BoolOp", "Call", "ClassDef", "Compare", "Constant", "Dict", "Expr", "For",
                 "FunctionDef", "IfExp", "IsNot", "ListComp", "Load", "Module", "Name", "Or", "Return", "Store",
                 "Subscript", "Tuple", "arg", "arguments", "comprehension", "keyword"}
RESERVED = ["_source", "_classification", "_generated", "_version"]
WHITELIST_LITERAL = ["boolean", "command", "dynamic", "datetime", "filesize", "uint16", "uint32", "float", "string",
                     "stringlist", "dictlist", "unix_file_mode", "varint", "wstring", "net.ipv4.Address",
                     "net.ipv4.Subnet", "net.tcp.Port", "net.udp.Port", "uri", "digest", "bytes", "record",
                     "net.ipaddress", "net.ipnetwork", "net.IPAddress", "net.IPNetwork", "path"]

PAYLOADS = [
    "__import__('os').system('touch %s')" % CANARY_FILE,
    "x=open('%s','w')" % CANARY_FILE,
    "a(object):\n    open('%s','w')\nclass b" % CANARY_FILE,
    "a(Record):\n    pass\nimport os\nclass b",
    "a=__import__('builtins').__dict__.__setitem__('%s',1)" % CANARY_ATTR,
    "a=None):\n        open('%s','w')\n    def f(x" % CANARY_FILE,
    "a', 'b", "a']; import os; ['", "a\"]", "x)):\n\tpass\n#", "{name}", "{0}", "{", "}", "%s", "%(a)s", "a\tb", "a b",
    "a.b", "a-b", "a;b", "a#b", "a:b", "a=1", "a,b", "a(b)", "a[b]", "a[0]", "a*", "*a", "**a", "a\\", "a\\n", "a'", "a\"",
    "a`b`", "a$", "$a", "a|b", "a+b", "a@b", "a!r", "lambda: 0", "a if b else c", "1a", "9", "-1", "", " ", "a ", " a",
    "__class__", "__self", "__cls", "_field_x", "_a", "__a", "_", "__", "_1", "_source", "_version", "_generated",
    "_classification", "_source\n", "Record", "RECORD_VERSION", "args", "kwargs", "self", "cls", "k", "v", "f", "values",
    "dict", "setattr", "exec", "eval", "print", "type", "default", "a/", "/a", "a//b", "a/b/", "a/_b", "a/1", "a/b c",
    "a/b\n", "a\n/b", "/", "//", "a/b/c/d/e", "test/a", "A/B", "a_/b_", "a1/b2",
]
LOOKALIKES = ["ｎame", "nаme", "ªb", "á", "a²", "ℕ", "\U0001d41a", "٣", "a​",
              "a ", "K", "ı", "ſ", "é", "aé", "µ", "π", "中", "a\ud800",
              "\udc80", "a\udcff", "﻿a", "a ", "a ", "a\u0085", "\U0001f600", "a‮b", "ＡＢ"]
CONTROLS = ["\x00", "a\x00", "\x00a", "a\x01", "a\x07", "a\x08", "a\x0b", "a\x0c", "a\x1b", "a\x1c", "a\x1d", "a\x1e",
            "a\x1f", "a\x7f", "\x7f", "a\x80", "a\r", "\ra", "a\r\n", "a\n\r", "a\n\n", "\n", "\r", "\n\n", "\na",
            "a\nb", "a\n ", "a \n", "a\t\n", "_\n", "_a\n", "a_\n", "Z9\n", "a\x0b\n", "a\n\x00"]
LONG = ["a" * 10 ** 4, "a" * 10 ** 4 + "\n", "a/" * 5000 + "a", "a" * 9999 + ";", "_" + "a" * 10 ** 4,
        "a" * 10 ** 4 + "\n\n", "a" * 5000 + "\n" + "a" * 5000, ("ab_9" * 2500) + "/" + ("Zz" * 5000)]
VALID_FIELDS = ["a", "b", "name", "x1", "long_field_name", "value", "ts", "A", "Zz9_", "a_", "a__b", "from", "class",
                "None", "True", "import", "lambda", "match", "case", "type", "async", "await", "print", "Record",
                "RECORD_VERSION", "args", "kwargs", "k", "v"]
VALID_TYPES = ["test/a", "t/x", "a", "A", "deep/er/name", "a/b/c/d", "Zz9_/y_1", "record/timestamp", "x/class", "def/x"]
KEYWORD_NAMES = list(keyword.kwlist) + list(getattr(keyword, "softkwlist", []))
HOSTILE_TYPES = ["os.system", "string[][]", "[]", "string[", "string]", "String", "STRING", "string ", " string",
                 "net.ipaddress.__class__", "net", "net.", ".string", "flow.record.base.exec", "__builtins__",
                 "string\n", "string[]\n", "builtins.eval", "uint16[]x", "net.ipv4", "net.ipv4.Address[]", "os",
                 "sys.modules", "typedlist", "FieldType", "fieldtypes.string", "flow.record.fieldtypes.string",
                 "net.ipv4.address", "net.tcp", "net.tcp.Port.__init__", "importlib", "subprocess.Popen", "string\x00",
                 "", ".", "..", "a.b.c", "record[]", "dynamic[]", "stringlist[]", "string []", "string[ ]", "[]string",
                 "uint16[", "net.ipaddress[]", "net.IPNetwork[]", "path[]", "command[]", "digest[]", "wstring[]",
                 "ｓtring", "strinɡ", "string\ud800", "datetime[]", "bytes[]", "float[]", "boolean[]"]
ALPHABET = ["a", "Z", "_", "0", "/", "\n", "\r", " ", "é", "\x00", ".", "'"]
TWIN_KEYWORDS = ["from", "import", "class", "def", "if", "else", "for", "while", "try", "with", "is", "in"]


def EXHAUSTIVE(tier):
    return False


# ------------------------------------------------------------------ generation

def _rand_string(r):
    w = r.below(12)
    if w < 2:
        return r.choice(PAYLOADS)
    if w < 3:
        return r.choice(LOOKALIKES)
    if w < 4:
        return r.choice(CONTROLS)
    if w < 5:
        return r.choice(KEYWORD_NAMES)
    if w < 7:
        return r.choice(VALID_FIELDS + VALID_TYPES)
    if w < 8:
        base = r.choice(["ab", "a_1", "Zq/x", "a/b"])
        ins = r.choice(["\n", "\r", "\r\n", "\x00", " ", " "])
        p = r.randint(0, len(base))
        return base[:p] + ins + base[p:]
    if w < 11:
        return "".join(r.choice(ALPHABET + ["b", "9", "A", "_", "/", "a", "a"]) for _ in range(r.randint(0, 8)))
    s = r.choice(VALID_FIELDS + VALID_TYPES)
    return s + r.choice(["\n", "\n\n", "\r", " ", ";", "\x00", "\n#", "/", "_", "9"])


def _rand_type(r):
    w = r.below(10)
    if w < 5:
        t = r.choice(WHITELIST_LITERAL)
        return t + ("[]" if r.chance(30) else "")
    if w < 8:
        return r.choice(HOSTILE_TYPES)
    if w < 9:
        return _rand_string(r)
    t = r.choice(WHITELIST_LITERAL)
    return t + r.choice(["[][]", " ", "\n", "[", ".x", "[]\n", "\x00", "[] "])


def _rand_rx(r, depth=0):
    """random pattern of the supported subset -> (json term, pattern text)"""
    classes = [("[a-z]", [[97, 122]]), ("[a-zA-Z]", [[97, 122], [65, 90]]), ("[a-zA-Z0-9_]", [[97, 122], [65, 90], [48, 57], [95, 95]]),
               ("_", [[95, 95]]), ("/", [[47, 47]]), ("a", [[97, 97]]), ("[ab]", [[97, 97], [98, 98]]), ("[0-9]", [[48, 57]]),
               ("\n", [[10, 10]]), ("[a\n]", [[97, 97], [10, 10]])]
    w = r.below(10)
    if depth >= 3 or w < 4:
        k = r.below(8)
        if k == 0:
            return ["bol"], "^"
        if k == 1:
            return ["eol"], "$"
        p, c = r.choice(classes)
        return ["cls", c], p
    if w < 7:
        a, pa = _rand_rx(r, depth + 1)
        b, pb = _rand_rx(r, depth + 1)
        return ["seq", a, b], pa + pb
    a, pa = _rand_rx(r, depth + 1)
    # quantifiers apply to a group; anchors cannot be quantified directly in re (allowed inside a group)
    if w < 8:
        return ["opt", a], "(" + pa + ")?"
    return ["star", a], "(" + pa + ")*"


def _name_case(s):
    return {"kind": "name", "text": enc_str(s)}


def _desc_case(name, fields, route, tag=None):
    c = {"kind": "desc", "route": route, "name": enc_str(name), "fields": [[enc_str(t), enc_str(n)] for t, n in fields]}
    if tag:
        c["tag"] = tag
    return c


def gen_cases(rng, tier):
    n = {"quick": 500, "thorough": 8000, "search": 3000}[tier]
    cases = []
    # ---- name: pools completely, then the exhaustive small alphabet, then random
    long_names = LONG if tier == "thorough" else LONG[:3]
    pool = PAYLOADS + LOOKALIKES + CONTROLS + KEYWORD_NAMES + VALID_FIELDS + VALID_TYPES + long_names + HOSTILE_TYPES
    for base in ["ab", "a_1", "t/x", "_a", "from"]:
        for ins in ["\n", "\r", "\r\n", "\x00"]:
            for p in range(len(base) + 1):
                pool.append(base[:p] + ins + base[p:])
    for s in pool:
        cases.append(_name_case(s))
    maxlen = {"quick": 2, "thorough": 3, "search": 2}[tier]
    level = [""]
    for _ in range(maxlen):
        level = [p + c for p in level for c in ALPHABET]
        for s in level:
            cases.append(_name_case(s))
    r = rng.fork("name")
    for _ in range(n):
        cases.append(_name_case(_rand_string(r)))
    # ---- rx: generic matcher vs re
    r = rng.fork("rx")
    for _ in range(n):
        term, pat = _rand_rx(r)
        text = "".join(r.choice(["a", "b", "z", "A", "_", "/", "0", "\n", "\n", "-"]) for _ in range(r.randint(0, 7)))
        cases.append({"kind": "rx", "rx": term, "pattern": enc_str(pat), "text": enc_str(text)})
    # ---- fieldtype
    for t in WHITELIST_LITERAL:
        cases.append({"kind": "fieldtype", "text": enc_str(t)})
        cases.append({"kind": "fieldtype", "text": enc_str(t + "[]")})
    for t in HOSTILE_TYPES + PAYLOADS[:12] + LOOKALIKES[:6] + ["string" * 2000, "a" * 10 ** 4 + "[]"]:
        cases.append({"kind": "fieldtype", "text": enc_str(t)})
    r = rng.fork("fieldtype")
    for _ in range(n // 4):
        cases.append({"kind": "fieldtype", "text": enc_str(_rand_type(r))})
    # ---- desc: structural enumeration of the newline artefact
    for route in (["api"] if tier == "quick" else ["api", "stream", "json", "avro"]):
        for nf in (1, 2, 3):
            for kw in (False, True):
                for twin in (False, True):
                    for pos in range(-1, nf):      # -1 = the type name carries the newline
                        names = ["fa", "fb", "fc"][:nf]
                        if kw:
                            names[(pos + 1) % nf if nf > 1 else 0] = "from"
                            if nf == 1 and pos == 0:
                                continue
                        tname = "t/x"
                        if pos < 0:
                            tname = "t/x\n"
                        else:
                            base = names[pos]
                            names[pos] = base + "\n"
                        fields = [("string", x) for x in names]
                        if twin and pos >= 0:
                            fields.insert(0, ("string", names[pos].rstrip("\n")))
                        cases.append(_desc_case(tname, fields, route, tag="newline"))
    # ---- desc: hostile single components through every route
    routes = ["api", "stream", "json", "jsonkeys", "avro"]
    r = rng.fork("desc")
    hostile_names = PAYLOADS + LOOKALIKES + CONTROLS + KEYWORD_NAMES
    step = 1 if tier != "quick" else 3
    for i, s in enumerate(hostile_names[::step]):
        route = routes[i % len(routes)]
        cases.append(_desc_case(s, [("string", "a")], route if route != "jsonkeys" else "api"))
        cases.append(_desc_case("test/a", [("string", s)], route))
        cases.append(_desc_case("test/a", [("varint", "ok"), ("string", s), ("string", "z")], routes[(i + 1) % len(routes)]))
    for i, t in enumerate(HOSTILE_TYPES[::step]):
        cases.append(_desc_case("test/a", [(t, "a")], ["api", "stream", "json", "avro"][i % 4]))
    for i, s in enumerate(long_names):
        cases.append(_desc_case(s, [("string", "a")], "api"))
        if tier == "thorough" or i == 1:
            cases.append(_desc_case("test/a", [("string", s)], "api"))
            cases.append(_desc_case("test/a", [("string", s)], "stream"))
    for s in VALID_TYPES:
        cases.append(_desc_case(s, [("string", "a"), ("varint[]", "b")], "api"))
    for kwn in KEYWORD_NAMES:
        cases.append(_desc_case(kwn, [("string", "a")], "api"))
        cases.append(_desc_case("t/" + kwn, [("string", kwn)], "api"))
    # duplicates, reserved names, many fields
    cases.append(_desc_case("t/x", [("string", "a"), ("varint", "a")], "api"))
    cases.append(_desc_case("t/x", [("string", "a"), ("varint", "b"), ("digest", "a"), ("string[]", "b")], "stream"))
    for rn in RESERVED:
        cases.append(_desc_case("t/x", [("string", rn)], "api"))
    cases.append(_desc_case("t/x", [("string", "f%d" % i) for i in range(300)], "api"))
    cases.append(_desc_case("t/x", [], "api"))
    cases.append(_desc_case("", [("string", "a")], "api"))
    # random mixtures
    for _ in range(n // 2):
        nf = r.randint(0, 4)
        hostile_at = r.randint(-1, nf)            # -1: type name hostile; nf: nothing hostile
        tname = _rand_string(r) if hostile_at == -1 else r.choice(VALID_TYPES)
        fields = []
        for i in range(nf):
            fn = _rand_string(r) if i == hostile_at else r.choice(VALID_FIELDS)
            ft = _rand_type(r) if r.chance(25) else r.choice(WHITELIST_LITERAL) + ("[]" if r.chance(20) else "")
            fields.append((ft, fn))
        route = r.choice(routes)
        if route == "jsonkeys" and not fields:
            route = "api"
        cases.append(_desc_case(tname, fields, route))
    # the deprecated string-only definition (`fields=None`: "name\n type field;\n ..." parsed by parse_def), through the
    # constructor, a descriptor frame `(text, nil)` and a JSON descriptor line `[text, null]`, for every definition that
    # parse_def splits back into exactly (name, fields)
    rd = rng.fork("defstring")
    extra = []
    for c in cases:
        if c["kind"] == "desc" and c["route"] in ("api", "stream", "json") and rd.chance(30):
            name, fields = dec_str(c["name"]), [(dec_str(t), dec_str(n)) for t, n in c["fields"]]
            text = _defstring(name, fields)
            if text is not None:
                extra.append(dict(c, defstring=True))
    cases += extra
    # the same definition arriving AFTER a benign definition of the same type name in the same stream / file / process
    # (a second version of a type): it is validated on its own, never answered with the earlier one
    rp = rng.fork("prior")
    extra = []
    for c in cases:
        if c["kind"] == "desc" and c["route"] in ("stream", "json", "avro") and not c.get("defstring") and rp.chance(35):
            name, fields = dec_str(c["name"]), [(dec_str(t), dec_str(n)) for t, n in c["fields"]]
            if ref_slash(name) and not any(keyword.iskeyword(x) for x in name.replace("/", "_").split("_") + [name.replace("/", "_")]) \
                    and fields and _benign_twin(fields) != fields:
                extra.append(dict(c, prior=True))
    cases += extra
    # ... and after a benign definition with the SAME IDENTIFIER (name + 32-bit hash over the unseparated field names and
    # types): moving the boundary between a field name and its type keeps the hash input and changes the definition
    proto = next(c for c in cases if c["kind"] == "desc" and c["route"] == "stream" and not c.get("defstring"))
    for benign, hostile in (([("string", "a"), ("varint", "b")], [("string", "a"), ("int", "bvar")]),
                            ([("string", "astring_b")], [("string", "a"), ("string", "_b")]),
                            ([("string", "xos.system")], [("os.systemstring", "x")] if False else [("string", "x"), ("os.system", "")]),
                            ([("string", "foo")], [("ostring", "fo")])):
        for route in ("stream", "json"):
            cases.append(dict(proto, route=route, name=enc_str("c06/coll"), fields=[[enc_str(t), enc_str(n)] for t, n in hostile],
                              prior=[list(x) for x in benign]))
    # malformed kinds (not modelled): bytes / None / numbers / wrong arity
    for raw in [["bytes-name"], ["none-name"], ["int-name"], ["bytes-field"], ["none-field"], ["int-field"],
                ["arity1"], ["arity3"], ["fields-string"], ["fields-none"], ["list-name"], ["bytes-type"], ["none-type"]]:
        cases.append({"kind": "rawdesc", "what": raw[0]})
    return cases


# ------------------------------------------------------------------ real code

_state = {"hooked": False, "capture": [], "imports": []}


def _hook():
    import flow.record.base as base
    if _state["hooked"] and getattr(base.exec, "_frv", False):
        return base
    real_exec = builtins.exec

    def exec_wrapper(code, g=None, l=None):
        _state["capture"].append(code if isinstance(code, str) else repr(code))
        if l is None:
            return real_exec(code, g)
        return real_exec(code, g, l)

    exec_wrapper._frv = True
    base.exec = exec_wrapper          # shadows the builtin for flow.record.base only; /repo is untouched

    class ImportProxy:
        def __getattr__(self, name):
            return getattr(importlib, name)

        def import_module(self, name, package=None):
            _state["imports"].append(name)
            return importlib.import_module(name, package)

    base.importlib = ImportProxy()
    # everything the library may legitimately import while resolving whitelisted types or reading the routes' formats
    import pkgutil

    import flow.record.fieldtypes as ft
    for mi in pkgutil.walk_packages(ft.__path__, ft.__name__ + "."):
        try:
            importlib.import_module(mi.name)
        except Exception:
            pass
    for mname in ("flow.record.adapter.jsonfile", "flow.record.adapter.avro", "flow.record.adapter.stream",
                  "flow.record.stream", "msgpack", "json", "ast", "re", "pkgutil"):
        try:
            importlib.import_module(mname)
        except Exception:
            pass
    _state["hooked"] = True
    return base


def _reset():
    base = _hook()
    base._generate_record_class.cache_clear()
    base.fieldtype.cache_clear()
    _state["capture"].clear()
    _state["imports"].clear()
    return base


def _tripwires(mods_before):
    trip = []
    if os.path.exists(CANARY_FILE):
        trip.append("canary file created")
        try:
            os.remove(CANARY_FILE)
        except OSError:
            pass
    if hasattr(builtins, CANARY_ATTR):
        trip.append("builtins canary set")
        delattr(builtins, CANARY_ATTR)
    new = [m for m in sys.modules if m not in mods_before]
    bad = [m for m in new if not (m.startswith("flow.record") or m.startswith("encodings"))]
    if bad:
        trip.append("modules imported: " + ",".join(sorted(bad)[:5]))
    for name in _state["imports"]:
        if not (name == "flow.record.fieldtypes" or name.startswith("flow.record.fieldtypes.")):
            trip.append("import_module(%r)" % name)
    return trip


class _Sub(ast.NodeTransformer):
    def __init__(self, idmap, constmap):
        self.idmap, self.constmap = idmap, constmap

    def _m(self, s):
        return self.idmap.get(s, s)

    def visit_Name(self, n):
        n.id = self._m(n.id)
        return n

    def visit_Attribute(self, n):
        self.generic_visit(n)
        n.attr = self._m(n.attr)
        return n

    def visit_arg(self, n):
        n.arg = self._m(n.arg)
        return n

    def visit_keyword(self, n):
        self.generic_visit(n)
        if n.arg is not None:
            n.arg = self._m(n.arg)
        return n

    def visit_ClassDef(self, n):
        self.generic_visit(n)
        n.name = self._m(n.name)
        return n

    def visit_FunctionDef(self, n):
        self.generic_visit(n)
        n.name = self._m(n.name)
        return n

    def visit_Constant(self, n):
        if isinstance(n.value, str):
            n.value = self.constmap.get(n.value, n.value)
        return n


def _strip_nl(s):
    return s[:-1] if s.endswith("\n") else s


def _twin_source(base, tname, fields):
    """source generated by the real code for the same shape with canonical identifiers; plus the maps twin -> hostile"""
    uniq = []
    for _, fn in fields:
        if fn not in uniq:
            uniq.append(fn)
    twin_of, kwi = {}, 0
    for i, fn in enumerate(uniq):
        if keyword.iskeyword(fn):
            twin_of[fn] = TWIN_KEYWORDS[kwi % len(TWIN_KEYWORDS)] if kwi < len(TWIN_KEYWORDS) else None
            kwi += 1
        else:
            twin_of[fn] = "zq%d" % i
    if any(v is None for v in twin_of.values()):
        return None, None, None
    twin_fields = tuple((t, twin_of[fn]) for t, fn in fields)
    saved = list(_state["capture"])
    _state["capture"].clear()
    base._generate_record_class.cache_clear()
    try:
        base._generate_record_class("Zqc", twin_fields)
        srcs = list(_state["capture"])
    finally:
        _state["capture"][:] = saved
        base._generate_record_class.cache_clear()
    if len(srcs) != 1:
        return None, None, None
    idmap = {"Zqc": _strip_nl(tname).replace("/", "_")}
    constmap = {}
    for fn, tw in twin_of.items():
        idmap[tw] = _strip_nl(fn)
        idmap["_field_" + tw] = "_field_" + _strip_nl(fn)
        constmap[tw] = fn
    return srcs[0], idmap, constmap


def _check_source(base, src, tname, fields):
    out = {"len": len(src)}
    try:
        tree = ast.parse(src)
    except (SyntaxError, ValueError) as e:
        out["parsed"] = False
        out["parse_error"] = type(e).__name__
        return out
    out["parsed"] = True
    kinds = {type(n).__name__ for n in ast.walk(tree)}
    out["bad_nodes"] = sorted(kinds - ALLOWED_NODES)
    tsrc, idmap, constmap = _twin_source(base, tname, fields)
    if tsrc is None:
        out["shape_equal"] = None
    else:
        twin = _Sub(idmap, constmap).visit(ast.parse(tsrc))
        out["shape_equal"] = ast.dump(twin) == ast.dump(tree)
    return out


def _ref_parse_def(text):
    """what a definition text means (independent of the library): first non-empty line = type name, the others
    `<type> <field>[;]`"""
    name, fields = None, []
    for line in text.split("\n"):
        line = line.strip()
        if not line:
            continue
        if not name:
            name = line
        else:
            parts = re.split(r"\s+", line.rstrip(";"))
            if len(parts) != 2:
                return None
            fields.append((parts[0], parts[1]))
    return name, fields


def _defstring(name, fields):
    """definition text for (name, fields), or None when the text form cannot express it faithfully"""
    if not name or not fields:
        return None
    text = name + "\n" + "".join(f"    {t} {n};\n" for t, n in fields)
    try:
        text.encode("utf-8")
    except UnicodeEncodeError:
        return None
    return text if _ref_parse_def(text) == (name, list(fields)) else None


def _stream_bytes(name, fields):
    import msgpack
    if fields is None:
        inner = msgpack.packb((2, (name, None)), use_bin_type=True, unicode_errors="surrogatepass")
        frame = msgpack.packb(msgpack.ExtType(14, inner), use_bin_type=True)
        hdr = msgpack.packb(b"RECORDSTREAM\n", use_bin_type=True)
        return struct.pack(">I", len(hdr)) + hdr + struct.pack(">I", len(frame)) + frame
    inner = msgpack.packb((2, (name, tuple((t, n) for t, n in fields))), use_bin_type=True, unicode_errors="surrogatepass")
    frame = msgpack.packb(msgpack.ExtType(14, inner), use_bin_type=True)
    hdr = msgpack.packb(b"RECORDSTREAM\n", use_bin_type=True)
    return struct.pack(">I", len(hdr)) + hdr + struct.pack(">I", len(frame)) + frame


class Shadowed(Exception):
    """the definition was neither rejected nor registered: an earlier definition answered for it"""


def _benign_twin(fields):
    """a valid definition with the same types where they are valid, and - per type - the same LAST field name where
    that is valid; every other name replaced"""
    last = {}
    for i, (t, n) in enumerate(fields):
        last[t] = i
    out = []
    for i, (t, n) in enumerate(fields):
        tt = t if ref_type(t) else "string"
        keep = last[t] == i and ref_ident_l(n) and not keyword.iskeyword(n) and n not in [x for _, x in out]
        out.append((tt, n if keep else "ok%d" % i))
    return out


def _deliver_after_prior(base, route, name, fields, prior=None):
    from flow.record import RecordDescriptor
    prior = [tuple(x) for x in prior] if prior else _benign_twin(fields)
    want = (name, tuple((t, n) for t, n in fields))
    if route == "avro":
        from flow.record.adapter.avro import schema_to_descriptor
        mk = lambda fs: {"type": "record", "name": "x", "doc": json.dumps([name, [[t, n] for t, n in fs]]), "fields": []}  # noqa: E731
        schema_to_descriptor(mk(prior))
        d = schema_to_descriptor(mk(fields))
        if (d.name, tuple(d.get_field_tuples())) != want:
            raise Shadowed("avro schema")
        return d
    if route == "stream":
        from flow.record.stream import RecordStreamReader
        first = _stream_bytes(name, prior)
        second = _stream_bytes(name, fields)
        hdr_len = 4 + struct.unpack(">I", second[:4])[0]
        rd = RecordStreamReader(io.BytesIO(first + second[hdr_len:]))
    else:
        from flow.record.adapter.jsonfile import JsonfileReader
        mk = lambda fs: json.dumps({"_type": "recorddescriptor", "_data": [name, [[t, n] for t, n in fs]]}) + "\n"  # noqa: E731
        rd = JsonfileReader(io.BytesIO((mk(prior) + mk(fields)).encode()))
    for _ in rd:
        pass
    for d in rd.packer.descriptors.values():
        if (d.name, tuple(d.get_field_tuples())) == want:
            return d
    raise Shadowed(route)


def _deliver(base, route, name, fields, defstring=False, prior=False):
    """-> descriptor object accepted by the library (or raises)"""
    from flow.record import RecordDescriptor
    if prior:
        return _deliver_after_prior(base, route, name, fields, prior if isinstance(prior, list) else None)
    text = _defstring(name, fields) if defstring else None
    if route == "api":
        if text is not None:
            return RecordDescriptor(text, None)
        return RecordDescriptor(name, [(t, n) for t, n in fields])
    if route == "stream":
        from flow.record.stream import RecordStreamReader
        rd = RecordStreamReader(io.BytesIO(_stream_bytes(text, None) if text is not None else _stream_bytes(name, fields)))
        for _ in rd:
            pass
        ds = list({id(d): d for d in rd.packer.descriptors.values()}.values())   # registered by identifier and by name
        if len(ds) != 1:
            raise RuntimeError("descriptor frame was not registered")
        return ds[0]
    if route == "json":
        from flow.record.adapter.jsonfile import JsonfileReader
        line = json.dumps({"_type": "recorddescriptor",
                           "_data": [text, None] if text is not None else [name, [[t, n] for t, n in fields]]}) + "\n"
        rd = JsonfileReader(io.BytesIO(line.encode()))
        for _ in rd:
            pass
        ds = list({id(d): d for d in rd.packer.descriptors.values()}.values())   # registered by identifier and by name
        if len(ds) != 1:
            raise RuntimeError("descriptor line was not registered")
        return ds[0]
    if route == "jsonkeys":
        from flow.record.adapter.jsonfile import JsonfileReader
        line = json.dumps({n: "v" for _, n in fields}) + "\n"
        rd = JsonfileReader(io.BytesIO(line.encode()))
        try:
            recs = list(rd)
        except Exception:
            # the definition may have been accepted and only the record construction refused (e.g. a key named
            # RECORD_VERSION captures the template's global): lru_cache keeps successfully generated classes only
            if base._generate_record_class.cache_info().currsize >= 1:
                ename, efields = _effective(route, name, fields)
                if ename is not None:
                    return RecordDescriptor(ename, efields)
            raise
        if len(recs) != 1:
            raise RuntimeError("no record read")
        return recs[0]._desc
    if route == "avro":
        from flow.record.adapter.avro import schema_to_descriptor
        return schema_to_descriptor({"type": "record", "name": "x", "doc": json.dumps([name, [[t, n] for t, n in fields]]),
                                     "fields": []})
    raise ValueError(route)


def _effective(route, name, fields):
    """the definition that actually reaches RecordDescriptor on this route"""
    if route == "jsonkeys":
        if any(n.startswith("_") for _, n in fields):
            return None, None    # such keys are dropped from the definition and then refused as keyword arguments
        uniq = []
        for _, n in fields:
            if n not in uniq:
                uniq.append(n)
        return "json/record", [("string", n) for n in uniq]
    if route == "avro" and not fields:
        return None, None        # doc does not end with "]]]": the schema branch is taken instead
    return name, fields


def run_real(case):
    k = case["kind"]
    if k == "rx":
        import re
        pat, text = dec_str(case["pattern"]), dec_str(case["text"])
        return {"match": re.compile(pat).match(text) is not None}
    base = _reset()
    mods_before = set(sys.modules)
    if k == "name":
        s = dec_str(case["text"])
        obs = {"field_rx": base.RE_VALID_FIELD_NAME.match(s) is not None,
               "type_rx": base.RE_VALID_RECORD_TYPE_NAME.match(s) is not None,
               "field_valid": bool(base.is_valid_field_name(s)),
               "field_valid_unreserved": bool(base.is_valid_field_name(s, check_reserved=False))}
        obs["tripwire"] = _tripwires(mods_before)
        return obs
    if k == "fieldtype":
        t = dec_str(case["text"])
        try:
            cls = base.fieldtype(t)
            elem = getattr(cls, "__type__", None) if t.endswith("[]") else None
            stripped = t[:-2] if t.endswith("[]") else t
            ns, _, attr = stripped.rpartition(".")
            mod = sys.modules.get("flow.record.fieldtypes" + ("." + ns if ns else ""))
            obs = {"ok": True, "cls": cls.__name__, "module": cls.__module__, "is_fieldtype": issubclass(cls, base.FieldType),
                   "list": elem is not None, "listname": cls.__name__ if elem is not None else None,
                   "resolved_as_named": mod is not None and getattr(mod, attr, None) is (elem if elem is not None else cls)}
        except Exception as e:
            obs = {"ok": False, "error": type(e).__name__}
        obs["imports"] = list(_state["imports"])
        obs["tripwire"] = _tripwires(mods_before)
        return obs
    if k == "rawdesc":
        from flow.record import RecordDescriptor
        what = case["what"]
        args = {
            "bytes-name": (b"test/a", [("string", "a")]), "none-name": (None, [("string", "a")]),
            "int-name": (5, [("string", "a")]), "bytes-field": ("test/a", [("string", b"a; import os")]),
            "none-field": ("test/a", [("string", None)]), "int-field": ("test/a", [("string", 7)]),
            "arity1": ("test/a", [("string",)]), "arity3": ("test/a", [("string", "a", "b")]),
            "fields-string": ("test/a", "ab"), "fields-none": ("test/a\n    string a;", None),
            "list-name": (["test/a"], [("string", "a")]), "bytes-type": ("test/a", [(b"os.system", "a")]),
            "none-type": ("test/a", [(None, "a")]),
        }[what]
        try:
            import warnings
            with warnings.catch_warnings():
                warnings.simplefilter("ignore")
                d = RecordDescriptor(*args)
            obs = {"accepted": True, "name": enc_str(d.name) if isinstance(d.name, str) else repr(d.name),
                   "fields": [[enc_str(t), enc_str(n)] for t, n in d.get_field_tuples()],
                   "slots": [enc_str(s) for s in d.recordType.__slots__]}
        except Exception as e:
            obs = {"accepted": False, "error": type(e).__name__}
        obs["sources"] = [{"parsed": _parses(s), "bad_nodes": _bad_nodes(s)} for s in _state["capture"]]
        obs["tripwire"] = _tripwires(mods_before)
        return obs
    if k == "desc":
        name, fields = dec_str(case["name"]), [(dec_str(t), dec_str(n)) for t, n in case["fields"]]
        route = case["route"]
        try:
            d = _deliver(base, route, name, fields, case.get("defstring", False), case.get("prior", False))
            obs = {"accepted": True, "dname": enc_str(d.name), "slots": [enc_str(s) for s in d.recordType.__slots__],
                   "tuples": [[enc_str(t), enc_str(n)] for t, n in d.get_field_tuples()],
                   "is_record": issubclass(d.recordType, base.Record),
                   "field_types": {enc_str(kk): [v.__module__, v.__name__] for kk, v in d.recordType._field_types.items()}}
        except Exception as e:
            obs = {"accepted": False, "error": type(e).__name__, "msg": str(e)[:120]}
        srcs = list(_state["capture"])
        imports = list(_state["imports"])
        ename, efields = _effective(route, name, fields)
        if case.get("prior"):
            # what the benign earlier definition compiled and imported is not this definition's doing
            srcs = srcs[1:]        # the benign definition is always accepted and compiled first
            obs["prior"] = True
            imports = []
        obs["sources"] = [_check_source(base, s, ename, efields) if ename is not None else {"parsed": None} for s in srcs]
        if len(srcs) == 1 and len(srcs[0]) < 20000:
            obs["source"] = enc_str(srcs[0])
        obs["imports"] = imports
        _state["imports"][:] = imports
        obs["tripwire"] = _tripwires(mods_before)
        return obs
    raise ValueError(k)


def _parses(s):
    try:
        ast.parse(s)
        return True
    except (SyntaxError, ValueError):
        return False


def _bad_nodes(s):
    try:
        return sorted({type(n).__name__ for n in ast.walk(ast.parse(s))} - ALLOWED_NODES)
    except (SyntaxError, ValueError):
        return []


# ------------------------------------------------------------------ reference grammar (independent: str methods)

def ref_ident_l(s):
    return s.isascii() and s.isidentifier() and not s.startswith("_")


def ref_slash(s):
    return all(ref_ident_l(seg) for seg in s.split("/"))


def ref_type(t):
    base = t[:-2] if t.endswith("[]") else t
    return base in WHITELIST_LITERAL


def _uniq(xs):
    out = []
    for x in xs:
        if x not in out:
            out.append(x)
    return out


# ------------------------------------------------------------------ oracle (the property, on the real observation)

def oracle(case, obs):
    k = case["kind"]
    if k == "rx":
        return None
    if obs.get("tripwire"):
        return "side effect: " + "; ".join(obs["tripwire"])
    if k == "name":
        s = dec_str(case["text"])
        core = _strip_nl(s)
        if obs["field_valid"] and not ref_ident_l(core):
            return f"is_valid_field_name accepts {s!r:.60}, not an ASCII identifier starting with a letter"
        if obs["type_rx"] and not ref_slash(core):
            return f"RE_VALID_RECORD_TYPE_NAME accepts {s!r:.60}, not a slash-separated identifier list"
        if obs["field_valid_unreserved"] and not (ref_ident_l(core) or s in RESERVED):
            return f"is_valid_field_name(check_reserved=False) accepts {s!r:.60}"
        return None
    if k == "fieldtype":
        t = dec_str(case["text"])
        if obs["ok"]:
            if not ref_type(t):
                return f"fieldtype({t!r:.60}) resolved {obs['module']}.{obs['cls']} although the type is not whitelisted"
            if not obs["is_fieldtype"] or not obs["module"].startswith("flow.record.fieldtypes"):
                return f"fieldtype({t!r:.60}) resolved to {obs['module']}.{obs['cls']}, outside flow.record.fieldtypes"
        else:
            if obs["imports"]:
                return f"fieldtype({t!r:.60}) was rejected but imported {obs['imports']} first"
        return None
    if k == "rawdesc":
        for s in obs["sources"]:
            if s["bad_nodes"]:
                return f"generated source contains node kinds {s['bad_nodes']}"
        if obs["accepted"]:
            nm = dec_str(obs["name"]) if not obs["name"].startswith(("b'", "[", "N")) else None
            if nm is None or not ref_slash(nm):
                return f"malformed definition accepted with name {obs['name']!r:.60}"
            for t, n in obs["fields"]:
                if not ref_ident_l(dec_str(n)) or not ref_type(dec_str(t)):
                    return "malformed definition accepted with an invalid field"
        return None
    if k == "desc":
        name, fields = dec_str(case["name"]), [(dec_str(t), dec_str(n)) for t, n in case["fields"]]
        ename, efields = _effective(case["route"], name, fields)
        for s in obs["sources"]:
            if s.get("parsed"):
                if s["bad_nodes"]:
                    return f"source handed to exec contains node kinds outside the allow-list: {s['bad_nodes']}"
                if s["shape_equal"] is False:
                    return "source handed to exec does not have the AST of the template filled with identifiers"
        if ename is None:
            return None
        if obs["accepted"]:
            if not ref_slash(ename):
                return f"definition accepted with type name {ename!r:.60}"
            for t, n in efields:
                if not ref_ident_l(n):
                    return f"definition accepted with field name {n!r:.60}"
                if not ref_type(t):
                    return f"definition accepted with field type {t!r:.60}"
            want = _uniq([n for _, n in efields]) + RESERVED
            got = [dec_str(s) for s in obs["slots"]]
            if got != want:
                return f"accepted record has slots {got[:8]} instead of declared fields + reserved fields"
            if not obs["is_record"]:
                return "generated class does not derive from Record"
            for kk, (mod, cls) in obs["field_types"].items():
                if not mod.startswith("flow.record."):
                    return f"field {dec_str(kk)!r} resolved to class {mod}.{cls} outside the library"
            if len(obs["sources"]) != 1 or not obs["sources"][0].get("parsed"):
                return "accepted definition without exactly one compiled class source"
        else:
            if not obs.get("error"):
                return "definition neither accepted nor rejected with an error"
            if obs["error"] == "Shadowed":
                return ("a definition that arrives after another definition of the same type name was neither rejected nor "
                        "registered: the earlier definition answered for it")
        return None
    return None


# ------------------------------------------------------------------ model

def model_op(case, obs):
    k = case["kind"]
    if k == "rx":
        return {"op": "c06_rx", "rx": case["rx"], "text": case["text"]}
    if k == "name":
        return {"op": "c06_name", "text": case["text"]}
    if k == "fieldtype":
        return {"op": "c06_fieldtype", "text": case["text"]}
    if k == "desc":
        name, fields = dec_str(case["name"]), [(dec_str(t), dec_str(n)) for t, n in case["fields"]]
        ename, efields = _effective(case["route"], name, fields)
        if ename is None:
            return None
        return {"op": "c06_construct", "name": enc_str(ename), "fields": [[enc_str(t), enc_str(n)] for t, n in efields]}
    return None


ERRMAP = {"nameRequired": {"RecordDescriptorError"}, "invalidFieldName": {"RecordDescriptorError"},
          "invalidFieldType": {"AttributeError"}, "invalidTypeName": {"RecordDescriptorError"},
          "execFails": {"SyntaxError", "IndentationError", "NameError", "TypeError"}}


def compare(case, obs, m):
    k = case["kind"]
    if "error" in m and isinstance(m.get("error"), str) and "ok" not in m:
        return f"model error {m['error']}"
    if k == "rx":
        if m["match"] != obs["match"]:
            return f"pattern {dec_str(case['pattern'])!r} on {dec_str(case['text'])!r}: model {m['match']} vs re {obs['match']}"
        return None
    if k == "name":
        s = dec_str(case["text"])
        for key in ("field_rx", "type_rx", "field_valid", "field_valid_unreserved"):
            if m[key] != obs[key]:
                return f"{key} on {s!r:.60}: model {m[key]} vs implementation {obs[key]}"
        # the model's reference grammars against Python's own notion of an ASCII identifier
        if m["identL"] != ref_ident_l(s):
            return f"reference grammar identL on {s!r:.60}: model {m['identL']} vs str methods {ref_ident_l(s)}"
        if m["ident"] != (s.isascii() and s.isidentifier()):
            return f"reference grammar ident on {s!r:.60}: model {m['ident']}"
        if m["slash_idents"] != ref_slash(s):
            return f"reference grammar slash_idents on {s!r:.60}: model {m['slash_idents']} vs str methods {ref_slash(s)}"
        return None
    if k == "fieldtype":
        t = dec_str(case["text"])
        if m["ok"] != obs["ok"]:
            return f"fieldtype({t!r:.60}): model ok={m['ok']} vs implementation ok={obs['ok']} ({obs.get('error')})"
        mi = [dec_str(x) for x in m["imports"]]
        if mi != obs["imports"]:
            return f"fieldtype({t!r:.60}): model imports {mi} vs implementation {obs['imports']}"
        if obs["ok"]:
            stripped = t[:-2] if t.endswith("[]") else t
            if dec_str(m["base"]) != stripped:
                return f"fieldtype({t!r:.60}): model resolves {dec_str(m['base'])!r}"
            if not obs["resolved_as_named"]:
                return f"fieldtype({t!r:.60}): implementation did not return getattr(<imported module>, <last component>)"
            if m["list"] != obs["list"] or (obs["list"] and obs["listname"] != t):
                return f"fieldtype({t!r:.60}): list flag / list type name differs"
        elif obs["error"] != "AttributeError":
            return f"fieldtype({t!r:.60}): rejected with {obs['error']}, model says AttributeError"
        return None
    if k == "desc":
        if m["ok"] != obs["accepted"]:
            return f"model ok={m['ok']} ({m.get('error')}) vs implementation accepted={obs['accepted']} ({obs.get('error')})"
        if m["ok"]:
            if m["slots"] != obs["slots"]:
                return "slots differ"
        elif case["route"] in ("api", "avro", "jsonkeys", "json", "stream"):
            if obs["error"] not in ERRMAP[m["error"]]:
                return f"model rejects with {m['error']}, implementation raised {obs['error']}"
        mi = _uniq([dec_str(x) for x in m["imports"]])
        if not case.get("prior") and mi != _uniq(obs["imports"]):     # (after a prior definition the modules are loaded already)
            return f"model imports {mi} vs implementation {_uniq(obs['imports'])}"
        # the exact text handed to exec vs the model's render (template instantiated with the slot names)
        if m.get("source") is None:
            if obs["sources"]:
                return "implementation reached exec, the model stops at validation"
        else:
            if len(obs["sources"]) != 1:
                return f"model reaches exec once, implementation handed {len(obs['sources'])} sources to exec"
            if "source" in obs and obs["source"] != m["source"]:
                a, b = dec_str(m["source"]), dec_str(obs["source"])
                i = next((j for j in range(min(len(a), len(b))) if a[j] != b[j]), min(len(a), len(b)))
                return f"source handed to exec differs from the model's render at offset {i}: model {a[i:i+40]!r} vs {b[i:i+40]!r}"
        return None
    return None


def nontrivial(case, obs):
    k = case["kind"]
    if k == "rx":
        return len(case["text"]) > 0
    if k == "name":
        s = dec_str(case["text"])
        return s != "" and not ref_ident_l(s)
    if k == "fieldtype":
        return dec_str(case["text"]) not in WHITELIST_LITERAL
    if k == "desc":
        name, fields = dec_str(case["name"]), [(dec_str(t), dec_str(n)) for t, n in case["fields"]]
        return not (ref_slash(name) and all(ref_ident_l(n) and ref_type(t) for t, n in fields)) or \
            any(keyword.iskeyword(n) for _, n in fields)
    return True


def classify(case, obs):
    k = case["kind"]
    if k == "rx":
        return f"rx:{'match' if obs.get('match') else 'nomatch'}"
    if k == "name":
        s = dec_str(case["text"])
        cls = "newline-artefact" if (obs.get("field_valid") or obs.get("type_rx")) and s.endswith("\n") else (
            "accepted" if obs.get("field_valid") or obs.get("type_rx") else "rejected")
        return f"name:{cls}"
    if k == "fieldtype":
        return f"fieldtype:{'ok' if obs.get('ok') else obs.get('error')}"
    if k == "rawdesc":
        return f"rawdesc:{'accepted' if obs.get('accepted') else obs.get('error')}"
    b = [f"desc:{case['route']}:{'accepted' if obs.get('accepted') else obs.get('error')}"]
    if case.get("tag"):
        b.append(f"desc:{case['tag']}:{obs.get('error', 'accepted')}")
    for s in obs.get("sources", []):
        b.append("exec-source:" + ("parsed" if s.get("parsed") else "refused-by-parser"))
    return b


def shrink(case):
    if case["kind"] == "desc":
        fs = case["fields"]
        for i in range(len(fs)):
            yield dict(case, fields=fs[:i] + fs[i + 1:])
        if case["route"] != "api":
            yield dict(case, route="api")
        nm = dec_str(case["name"])
        if len(nm) > 1:
            yield dict(case, name=enc_str(nm[: len(nm) // 2]))
            yield dict(case, name=enc_str(nm[len(nm) // 2:]))
    elif case["kind"] in ("name", "fieldtype"):
        s = dec_str(case["text"])
        for i in range(len(s)):
            if len(s) > 1:
                yield dict(case, text=enc_str(s[:i] + s[i + 1:]))
