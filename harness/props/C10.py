"""C10 — reading with a selector equals filtering afterwards; matching is pure.

Correspondence: the reader loops of the five adapters (Lean: Model/Readers.lean, configured by the structural facts in
Gen/Pipeline.lean) are run on the abstract frame/line/row list of each generated input together with the outcome table
of the real matcher, and must yield the same record indices and terminal error as the real readers, with and without
selector; `make_selector` vs `makeSelector`; one reused selector object vs `runThreaded`/`runCompiled`.
Property oracle (real code only): records read with a selector == records read without and tested afterwards (deep
observation, order, terminal exception class); each record's deep observation unchanged by `match`; `match` results of
one reused selector object in forward / reversed / shuffled order equal those of a fresh object per record.
"""
import hashlib
import io
import json
import os
import shutil
import sys
import struct
import tempfile

from .. import values as V

ID = "C10"
CLAIM = dict(
    text="Kernel-checked: for every reader shape (stream with descriptor registry / repeated headers / broken frames, "
         "JSON with record, descriptor and plain-JSON fallback lines, Avro, CSV, SQLite tables x batches) and every "
         "matcher incl. raising ones, read-with-selector = filter-after(read-without) with order and terminal error "
         "(C10_filter, by list induction; C10_inst_all_guarded decides the guard facts extracted from each reader's "
         "__iter__); a reused interpreted matcher equals a fresh one per record for every evaluation that reads only "
         "the attributes eval/_eval read (C10_history_independent, via the extracted reset/read/mutate footprint; "
         "C10_reset_needed shows the reset carries it); compiled engine likewise (namespace copy); make_selector "
         "normal forms; write footprint of the matcher code has no foreign target (C10_pure). Tie: translator "
         "(yield guards, matcher attribute footprint, make_selector chain) + correspondence of the five real readers, "
         "make_selector and reused selector objects with the model + oracle on the real code.",
    note="partial: what an expression evaluates to is a parameter (C07); purity of operand special methods and of the "
         "whitelisted helper functions is exercised by the oracle (deep observation before/after match), not proved; "
         "codecs/fastavro/sqlite3/csv/json are exercised, not modelled.",
    technique="Lean 4 theorems over executable reader-loop and matcher-state models + model/implementation correspondence",
    design="8/C10")
RULE = ("kinds: read = adapter{stream,jsonfile,avro,csvfile,sqlite} x record list (values.py generators restricted to "
        "the types the format supports, every record carries a unique idx) x layout mutations (repeated header, "
        "dropped/late/duplicated descriptor frame, truncated tail; plain-JSON / non-JSON / dropped or late descriptor "
        "lines; sqlite batch size) x "
        "selector from a pool of 48 texts (typed matchers, generator expressions, missing fields, selectors raising on "
        "some records) given as text / Selector / CompiledSelector / empty; thread = in-memory record list x selector x "
        "engine, one reused object in forward, reversed and shuffled order vs a fresh object per record; mksel = "
        "exhaustive argument forms x force_compiled. Non-trivial = a read/thread case with >= 2 records on which the "
        "selector does not give the same outcome for all records (or raises on some); distinct by hash of the case.")
TRUSTED = ["json / csv / sqlite3 / fastavro / msgpack libraries (inputs are written with the real writers; exercised)",
           "the outcome table handed to the model is measured on the real selector engines (C07 owns their meaning)"]
ASSUMPTIONS = ["the result of evaluating an expression depends only on the matcher attributes that eval/_eval read "
               "(hypothesis hreads of C10_history_independent; its syntactic counterpart is extracted)",
               "records compare by deep observation (values.observe), which is deeper than Record.__eq__"]
EXPLANATION = "read/thread cases are seeded; the mksel matrix (argument form x text x force_compiled) is enumerated completely"

ADAPTERS = ["stream", "jsonfile", "avro", "csvfile", "sqlite"]

SELECTORS = [
    "r.n > 5", "r.n == 3 or r.s == 'abc'", "r.idx % 2 == 0", "'a' in r.s", "r.s in ['a', 'abc', '']",
    "r.missing == 1", "r.missing", "not r.missing", "r.n", "r.s", "r.b", "name(r) == 'test/a'",
    "'test/b' in names(r)", "has_field(r, 'n')", "field_equals(r, ['s'], ['abc'])", "field_contains(r, ['s'], ['a'])",
    "field_regex(r, ['s'], 'a.*')", "lower(r.s) == 'abc'", "upper(r.s) == 'ABC'", "Type.string == 'abc'",
    "'a' in Type.string", "Type.varint > 5", "Type.boolean == True", "any(x == 'a' for x in r.l)",
    "any(x > 2 for x in r.nums)", "all(len(x) < 3 for x in r.l)", "any(c == 'a' for c in r.s)", "r.n + 1 > 3",
    "r.n / r.m > 1", "r.s + 'x' == 'ax'", "r.s.startswith('a')", "1 < r.n < 100", "r.n in (1, 2, 3)",
    "r.n not in [1]", "r.n is None", "r.s is not None", "True", "False", "0", "None", "1 if r.n else 0",
    "r.__class__", "str(r.n) == '3'", "r._source == 'src'", "r._generated.year > 2000",
    "any(x for x in r.l) and any(y == 'b' for y in r.l)", "any(x == 'a' for x in r.l) or r.n / r.m > 1",
    "any(x / 0 for x in r.nums)", "r.n and r.m", "r.port == 80 or r.f > 0.5",
    # field-type constructors applied to values of the current record (a verdict must not stick to the call site)
    "string(r.s) == 'abc'", "varint(r.n) > 2", "wstring(r.s) in ['a', 'ab']", "string(r.s) + 'x' == 'ax'",
    "net.ipaddress(r.ip) in net.ipnetwork('10.0.0.0/8')", "any(string(x) == 'a' for x in r.l)",
    # helpers applied to a LIST field (they must not touch the record's own list) and the `fields` helper, which is
    # bound to the current record's descriptor
    "lower(r.l) == ['abc']", "upper(r.l) == ['ABC', 'A']", "field_contains(r, ['l'], ['a'])",
    "field_equals(r, ['l', 's'], ['abc'])", "any(f.name == 'n' for f in fields('varint'))",
    "any(f.name == 'port' for f in fields('uint16'))", "fields('string')", "any(f.name == 's' for f in fields('string')) and r.idx % 2 == 0",
    # a path field (both flavours occur) compared with text: how the literal is read depends on the record at hand only
    "r.p == 'c:/tmp/x'", "r.p == '/tmp/x'", "r.p != 'c:/tmp/x'", "r.p == 'c:/tmp/x' or r.name == 'zz'", "r.p == 'C:/TMP/x'",
    # constructors applied to values that are EQUAL across records but of different types (1, 1.0, True)
    "string(r.n) == '1'", "string(r.n) == '1.0'", "string(r.m) == 'True'", "string(r.m) == '1'", "wstring(r.n) in ['1', '0']",
]

FAM_A = ["test/a", [["varint", "idx"], ["varint", "n"], ["varint", "m"], ["string", "s"], ["boolean", "b"],
                    ["datetime", "ts"], ["string[]", "l"], ["varint[]", "nums"]]]
# another version of test/a: same type name, other fields (no n/m/l, a port instead)
FAM_A2 = ["test/a", [["varint", "idx"], ["string", "s"], ["uint16", "port"], ["boolean", "b"], ["string", "name"]]]
FAM_B = ["test/b", [["varint", "idx"], ["string", "s"], ["float", "f"], ["bytes", "data"], ["uint16", "port"]]]
FAM_C = ["net/c", [["varint", "idx"], ["net.ipaddress", "ip"], ["path", "p"], ["digest", "d"], ["uri", "u"],
                   ["string", "name"]]]
FAM_AV = ["test/av", [["varint", "idx"], ["varint", "n"], ["varint", "m"], ["string", "s"], ["boolean", "b"],
                      ["datetime", "ts"], ["float", "f"], ["bytes", "data"], ["uint16", "port"]]]
FAM_CSV = ["test/a", [["varint", "idx"], ["varint", "n"], ["varint", "m"], ["string", "s"], ["boolean", "b"],
                      ["string", "name"]]]
# the numbers 1 / 1.0 / True (equal as Python objects, different as text) under one field name in different record types
FAM_N = ["test/num", [["varint", "idx"], ["float", "n"], ["boolean", "m"], ["string", "s"]]]
TYPES_BY_ADAPTER = {
    "stream": V.SERIALISABLE,
    "jsonfile": ["boolean", "datetime", "filesize", "uint16", "uint32", "float", "string", "stringlist", "varint",
                 "wstring", "uri", "digest", "bytes", "net.ipaddress", "path", "unix_file_mode"],
    "sqlite": ["boolean", "datetime", "filesize", "uint16", "uint32", "float", "string", "varint", "uri", "bytes",
               "path", "stringlist"],
}
S_POOL = ["abc", "a", "", "ABC", "b", "xyz", "ab", "a b"]


def EXHAUSTIVE(tier):
    return False


# ------------------------------------------------------------------ generation

def _val(r, ftype, fname, adapter):
    """Field values: small pools for the names the selector pool mentions, values.py generators otherwise."""
    none = r.chance(12)
    if fname == "idx":
        return None  # filled in by the caller
    if fname in ("n", "m") and ftype == "varint":
        return V.NONE if none else V.I(r.choice([0, 0, 1, 2, 3, 4, 5, 6, 7, 10, 99, 100, -1]))
    if fname in ("s", "name") and ftype == "string":
        return V.NONE if none else V.S(r.choice(S_POOL))
    if fname == "l":
        return V.NONE if none else ["list", [V.S(r.choice(S_POOL)) for _ in range(r.randint(0, 3))]]
    if fname == "nums":
        return V.NONE if none else ["list", [V.I(r.randint(0, 5)) for _ in range(r.randint(0, 3))]]
    if fname == "p" and ftype == "path":
        # both flavours in one field, spelled so that a comparison with a text literal has to PARSE the literal
        return V.NONE if none else r.choice([["path", "windows", V.enc_str("c:\\tmp\\x")], ["path", "posix", V.enc_str("/tmp/x")],
                                             ["path", "posix", V.enc_str("c:/tmp/y")], ["path", "windows", V.enc_str("C:/tmp/X")],
                                             ["path", "posix", V.enc_str("c:/tmp/x")]])
    if fname == "port":
        return V.NONE if none else V.I(r.choice([80, 443, 0, 65535, 8080]))
    if ftype == "float" and fname == "n":
        return V.NONE if none else V.F(r.choice([1.0, 1.0, 0.0, 2.0, 1.5]))
    if ftype == "boolean" and fname == "m":
        return V.NONE if none else ["bool", r.choice([1, 1, 0])]
    if ftype == "float":
        return V.NONE if none else V.F(r.choice([0.0, 0.25, 0.5, 0.75, 1.5, -2.0]))
    if ftype == "datetime":
        if none:
            return V.NONE
        return ["dt", [r.randint(1999, 2030), r.randint(1, 12), r.randint(1, 28), r.randint(0, 23), r.randint(0, 59),
                       r.randint(0, 59), r.choice([0, 0, 1, 999999])], "utc", 0]
    if adapter in ("avro", "sqlite", "csvfile"):
        # stay inside what the container stores (64-bit integers, no lone surrogates in CSV)
        if ftype in ("varint", "filesize", "unix_file_mode"):
            return V.NONE if none else V.I(r.randint(-2 ** 31, 2 ** 31))
        if ftype == "uint32":
            return V.NONE if none else V.I(r.randint(0, 2 ** 31 - 1))
        if ftype in ("string", "wstring", "uri"):
            return V.NONE if none else V.S(r.choice(S_POOL + ["with,comma", "two\nlines", "héllo"]))
        if ftype == "stringlist":
            return V.NONE if none else ["list", [V.S(r.choice(S_POOL)) for _ in range(r.randint(0, 3))]]
    return V.gen_value(r, ftype)


def _gen_records(r, adapter, n):
    fams = {"stream": [FAM_A, FAM_B, FAM_C, FAM_A2, FAM_N], "jsonfile": [FAM_A, FAM_B, FAM_C, FAM_A2, FAM_N], "avro": [FAM_AV],
            "csvfile": [FAM_CSV], "sqlite": [FAM_A, FAM_B]}[adapter]
    descs = list(fams)
    if adapter in TYPES_BY_ADAPTER and r.chance(40):
        ds = V.gen_descspec(r, nfields=r.randint(1, 4), types=TYPES_BY_ADAPTER[adapter],
                            name=r.choice(["rnd/x", "rnd/y"]), allow_lists=(adapter != "sqlite"))
        ds = [ds[0], [["varint", "idx"]] + [f for f in ds[1] if f[1] != "idx"]]
        descs.append(ds)
    if adapter in ("avro", "csvfile"):
        descs = descs[:1]
    recs = []
    for i in range(n):
        ds = r.choice(descs) if not r.chance(50) else descs[0]
        vals = []
        for t, fn in ds[1]:
            v = _val(r, t, fn, adapter)
            vals.append(V.I(i) if v is None else v)
        meta = {"_generated": ["dt", [2020 + r.below(3), 1, 2, 3, 4, 5, 0], "utc", 0]}
        if r.chance(50):
            meta["_source"] = V.S(r.choice(["src", "other"]))
        recs.append(["rec", ds, vals, meta])
        if adapter in ("avro", "stream", "jsonfile") and r.chance(6):
            # the same record once more, differing ONLY in its metadata (the same artefact seen from another source)
            m2 = dict(meta)
            m2["_source"] = V.S("other" if meta.get("_source") == V.S("src") else "src")
            recs.append(["rec", ds, list(vals), m2])
    return recs


def _gen_layout(r, adapter, n):
    lay = []
    if adapter == "stream":
        for _ in range(r.choice([0, 0, 1, 1, 2])):
            k = r.choice(["header_at", "drop_desc", "late_desc", "dup_desc", "truncate"])
            lay.append([k, r.randint(0, 40)])
    elif adapter == "jsonfile":
        for _ in range(r.choice([0, 0, 1, 2, 3])):
            k = r.choice(["plain", "plain", "bad", "plainbad", "blank_desc", "drop_desc", "late_desc"])
            pos = r.randint(0, 40)
            if k == "plain":
                # _generated is always supplied (a record built without it carries the wall-clock time)
                obj = {"idx": 1000 + len(lay), "n": r.choice([0, 3, 7, None]), "s": r.choice(S_POOL),
                       "m": r.choice([0, 1, 2]), "_generated": "2021-02-03T04:05:06+00:00"}
                if r.chance(30):
                    obj["_source"] = "src"
                lay.append([k, pos, obj])
            elif k == "bad":
                lay.append([k, pos, r.choice(["not json", "{", "[1, 2", ""])])
            elif k == "plainbad":
                lay.append([k, pos, r.choice([{"bad-name": 1}, {"1x": 2, "idx": 5}])])
            else:
                lay.append([k, pos])
    elif adapter == "sqlite":
        lay.append(["batch_size", r.choice([1, 2, 3, 5, 1000])])
    elif adapter == "csvfile" and r.chance(35):
        # an empty line among the data rows (the reader makes an all-unset record of it): with a selector that is true
        # for unset fields it has to be treated like every other record
        lay.append(["blank", r.randint(1, max(1, n))])
    return lay


def gen_cases(rng, tier):
    n_read = {"quick": 600, "thorough": 30000, "search": 1500}[tier]
    n_thread = {"quick": 1200, "thorough": 60000, "search": 3000}[tier]
    cases = []
    # --- make_selector matrix (complete)
    for kind in ("absent", "text", "interp", "compiled"):
        for s in ("", "r.n > 5", "True", "r.s == 'a'"):
            for force in (False, True):
                if kind == "absent" and s:
                    continue
                cases.append({"kind": "mksel", "arg": kind, "s": s, "force": force})
    # --- readers
    r = rng.fork("read")
    for i in range(n_read):
        adapter = ADAPTERS[i % len(ADAPTERS)]
        n = r.choice([0, 1, 2, 3, 5, 8, 13])
        recs = _gen_records(r, adapter, n)
        form = r.choice(["text", "text", "interp", "compiled", "compiled", "none", "emptytext", "emptycompiled"])
        cases.append({"kind": "read", "adapter": adapter, "records": recs, "layout": _gen_layout(r, adapter, n),
                      "selector": r.choice(SELECTORS), "form": form, "shuffle": r.randint(0, 2 ** 30)})
        if form == "text" and r.chance(40):
            cases[-1]["premade"] = r.choice(["compiled", "compiled", "interp"])
    # a selector text on which the two engines are known to differ (records lacking the field, C08's recorded
    # compiled-engine finding): the reader given TEXT has to use the default engine whatever was made before
    for adapter in ADAPTERS:
        n = 6
        recs = _gen_records(r, adapter, n)
        for text in ("r.n not in [1]", "1 not in r.nums"):
            cases.append({"kind": "read", "adapter": adapter, "records": recs, "layout": _gen_layout(r, adapter, n),
                          "selector": text, "form": "text", "shuffle": 7, "premade": "compiled"})
            for form in ("compiled", "interp"):
                cases.append({"kind": "read", "adapter": adapter, "records": recs, "layout": [], "selector": text, "form": form,
                              "shuffle": 7})
    # a CSV file with an empty line, read with selectors that are TRUE for a record whose fields are all unset
    for text in ("r.n is None", "not r.s", "r.s != 'a'", "not r.missing", "r.n is None or r.n > 2"):
        for form in ("text", "compiled"):
            recs = _gen_records(r, "csvfile", 5)
            cases.append({"kind": "read", "adapter": "csvfile", "records": recs, "layout": [["blank", r.randint(1, 5)]],
                          "selector": text, "form": form, "shuffle": 11})
    # records that COMPARE EQUAL (and hash alike) although a selector can tell them apart: one instant under two UTC
    # offsets, 0.0 and -0.0 - a verdict belongs to the record at hand, not to whatever equals it
    G1 = {"_generated": ["dt", [2020, 1, 2, 3, 4, 5, 0], "utc", 0]}
    tsa = ["dt", [2021, 3, 4, 12, 30, 15, 0], "utc", 0]
    tsb = ["dt", [2021, 3, 4, 14, 30, 15, 0], ["fixed", 7200, 0], 0]
    mkA = lambda ts: ["rec", FAM_A, [V.I(0), V.I(1), V.I(1), V.S("a"), ["bool", 1], ts, ["list", []], ["list", []]], G1]   # noqa: E731
    mkB = lambda f: ["rec", FAM_B, [V.I(0), V.S("a"), f, V.B(b"x"), V.I(80)], G1]                                            # noqa: E731
    twins = [([mkA(tsa), mkA(tsb), mkA(tsa), mkA(tsb)], ["r.ts.hour == 14", "r.ts.hour == 12", "str(r.ts) > '2021-03-04 13'"]),
             ([mkA(tsb), mkA(tsa)], ["r.ts.hour == 14", "r.ts.hour != 14"]),
             ([mkB(V.F(0.0)), mkB(["float", "8000000000000000"]), mkB(V.F(0.0))], ["str(r.f) == '-0.0'", "str(r.f) == '0.0'"])]
    for recs_, texts in twins:
        for text in texts:
            for form in ("text", "compiled", "interp"):
                cases.append({"kind": "read", "adapter": "stream", "records": recs_, "layout": [], "selector": text, "form": form,
                              "shuffle": 9})
    # a grouped record in the MIDDLE of a stream (unpacking it makes the library visit its members' descriptors), with
    # selectors that resolve fields by type: what a descriptor's fields are does not change along the way
    for text in ("Type.string == 'src'", "'src' in Type.string", "has_field(r, '_source')", "any(f.name == '_source' for f in fields('string'))",
                 "Type.datetime.year == 2020"):
        for form in ("text", "compiled", "interp"):
            base = [["rec", FAM_B, [V.I(i), V.S("zz"), V.F(0.5), V.B(b"x"), V.I(80)],
                     {"_generated": ["dt", [2020, 1, 2, 3, 4, 5, 0], "utc", 0], "_source": V.S("src" if i % 2 else "other")}]
                    for i in range(5)]
            g = ["grouped", "grp/c10", [["rec", FAM_B, [V.I(50), V.S("q"), V.F(0.5), V.B(b"x"), V.I(80)], base[0][3]],
                                        ["rec", FAM_N, [V.I(51), V.F(1.0), ["bool", 1], V.S("s")], base[0][3]]]]
            cases.append({"kind": "read", "adapter": "stream", "records": base[:2] + [g] + base[2:], "layout": [],
                          "selector": text, "form": form, "shuffle": 3})
    # runs of records that are equal in every declared field and differ only in their metadata, filtered on that metadata
    for adapter in ("avro", "stream", "jsonfile"):
        base = _gen_records(r, adapter, 1)[0]
        run = []
        for src in ("src", "other", "other", "src", "src", "other"):
            m2 = dict(base[3])
            m2["_source"] = V.S(src)
            run.append(["rec", base[1], list(base[2]), m2])
        for text in ("r._source == 'src'", "r._source != 'src'", "r._source == 'other' or r.idx > 99"):
            for form in ("text", "compiled"):
                cases.append({"kind": "read", "adapter": adapter, "records": run, "layout": [], "selector": text,
                              "form": form, "shuffle": 5})
    # --- reused selector objects on in-memory records
    r = rng.fork("thread")
    for i in range(n_thread):
        n = r.choice([2, 3, 4, 6, 9])
        recs = _gen_records(r, "stream", n)
        if r.chance(12) and len(recs) >= 2:
            # grouped records among them (their fields resolve through the members)
            k_ = r.randint(0, len(recs) - 2)
            recs[k_:k_ + 2] = [["grouped", "grp/c10", recs[k_:k_ + 2]]]
            recs.append(["grouped", "grp/c10", [recs[0] if recs[0][0] == "rec" else recs[-1]]])
        cases.append({"kind": "thread", "records": recs, "selector": SELECTORS[i % len(SELECTORS)],
                      "engine": r.choice(["interp", "compiled"]), "shuffle": r.randint(0, 2 ** 30)})
    # the verdict for a record does not depend on what the PROCESS matched before: the same records are judged in two
    # fresh interpreters, in opposite orders (two types of one name whose identifiers coincide; mixed path flavours)
    COL1 = ["test/collide", [["varint", "idx"], ["string", "a"], ["varint", "b"]]]
    COL2 = ["test/collide", [["varint", "idx"], ["varint", "astringb"]]]
    G0 = {"_generated": ["dt", [2020, 1, 2, 3, 4, 5, 0], "utc", 0]}
    col = [["rec", COL1, [V.I(0), V.S("abc"), V.I(1)], G0], ["rec", COL2, [V.I(1), V.I(7)], G0],
           ["rec", COL1, [V.I(2), V.S("x"), V.I(7)], G0], ["rec", COL2, [V.I(3), V.I(1)], G0]]
    for text in ("Type.varint == 7", "Type.string == 'abc'", "any(f.name == 'b' for f in fields('varint'))", "Type.varint > 5 or r.idx == 0"):
        for engine in ("interp", "compiled"):
            cases.append({"kind": "procorder", "records": col, "selector": text, "engine": engine})
    # grouped records of DIFFERENT compositions (all groups are instances of one class): which fields `Type.<t>` stands for
    # is a matter of the record at hand, not of the first group the process saw
    GA = ["t/ga", [["varint", "idx"], ["string", "alpha"]]]
    GB = ["t/gb", [["varint", "idx"], ["string", "beta"], ["varint", "extra"]]]
    ga = lambda i, t: ["rec", GA, [V.I(i), V.S(t)], G0]                # noqa: E731
    gb = lambda i, t, e: ["rec", GB, [V.I(i), V.S(t), V.I(e)], G0]     # noqa: E731
    grp = [["grouped", "grp/p", [ga(0, "zz")]], ["grouped", "grp/p", [gb(1, "needle", 7)]],
           ["grouped", "grp/p", [ga(2, "needle")]], ["grouped", "grp/p", [gb(3, "zz", 1), ga(4, "zz")]],
           ["grouped", "grp/q", [gb(5, "zz", 7), ga(6, "needle")]]]
    for text in ("Type.string == 'needle'", "'needle' in Type.string", "Type.varint == 7", "Type.varint > 5 and Type.string == 'zz'"):
        for engine in ("interp", "compiled"):
            cases.append({"kind": "procorder", "records": grp, "selector": text, "engine": engine})
    pth = [["rec", FAM_C, [V.I(i), ["ip", "1.2.3.4"], p_, ["digest", [None, None, None]], V.S("u"), V.S("n")], G0]
           for i, p_ in enumerate([["path", "posix", V.enc_str("/var/log/syslog")], ["path", "windows", V.enc_str("c:\\tmp\\x")],
                                   ["path", "posix", V.enc_str("c:/tmp/x")]])]
    for engine in ("interp", "compiled"):
        cases.append({"kind": "procorder", "records": pth, "selector": "r.p == 'c:/tmp/x'", "engine": engine})
    # path fields of both flavours compared with a text literal (see SELECTORS): runs of net/c records only
    r = rng.fork("paths")
    for text in [t for t in SELECTORS if "r.p " in t]:
        for engine in ("interp", "compiled"):
            for _ in range({"quick": 3, "thorough": 40, "search": 8}[tier]):
                recs = []
                for i in range(r.randint(3, 7)):
                    vals = [V.I(i) if fn == "idx" else _val(r, t, fn, "stream") for t, fn in FAM_C[1]]
                    recs.append(["rec", FAM_C, vals, {"_generated": ["dt", [2020, 1, 2, 3, 4, 5, 0], "utc", 0]}])
                cases.append({"kind": "thread", "records": recs, "selector": text, "engine": engine,
                              "shuffle": r.randint(0, 2 ** 30)})
    return cases


# ------------------------------------------------------------------ running the real code

def _h(o):
    return hashlib.sha256(json.dumps(o, sort_keys=True, default=repr).encode()).hexdigest()[:16]


def _mk_selector(form, text):
    from flow.record.selector import CompiledSelector, Selector
    if form == "none":
        return None
    if form == "emptytext":
        return ""
    if form == "emptycompiled":
        return CompiledSelector("")
    if form == "text":
        return text
    if form == "interp":
        return Selector(text)
    if form == "compiled":
        return CompiledSelector(text)
    raise ValueError(form)


def _matcher_obj(form, text):
    """The object a consumer would use to test records afterwards (same engine as the reader ends up with)."""
    from flow.record.selector import CompiledSelector, Selector
    if form in ("none", "emptytext"):
        return None
    if form == "emptycompiled":
        return CompiledSelector("")
    if form in ("text", "interp"):
        return Selector(text)
    return CompiledSelector(text)


def _obs_h(x):
    """hash of the deep observation; a record without an index (the all-unset record a CSV reader makes of an empty
    line) gets the wall-clock time as `_generated`, which is not part of what was read"""
    o = V.observe(x)
    if _idx(x) < 0 and isinstance(o, list) and len(o) == 4 and isinstance(o[3], list) and len(o[3]) >= 4:
        o = [o[0], o[1], o[2], o[3][:-2] + [["now"]] + o[3][-1:]]
    return _h(o)


def _outcome(sel, rec):
    if sel is None:
        return "t"
    try:
        return "t" if sel.match(rec) else "f"
    except Exception as e:
        return type(e).__name__


def _idx(rec):
    try:
        v = getattr(rec, "idx", None)
        return int(v) if v is not None and str(v).lstrip("-").isdigit() else -1
    except Exception:
        return -1


def _drain(make_reader):
    """-> (records, terminal error class or None, 'ctor' if the reader could not be constructed)."""
    recs = []
    try:
        rd = make_reader()
    except Exception as e:
        return recs, type(e).__name__, "ctor"
    try:
        for rec in rd:
            recs.append(rec)
        err = None
    except Exception as e:
        err = type(e).__name__
    finally:
        try:
            rd.close()
        except Exception:
            pass
    return recs, err, "iter"


def _nested_ids(rec):
    """identifiers of the descriptors of records held (at any depth) in the fields of `rec`"""
    from flow.record import Record
    out = []

    def walk(v):
        if isinstance(v, Record):
            out.append(v._desc.identifier)
            for n in v._desc.fields:
                walk(getattr(v, n))
        elif isinstance(v, (list, tuple)):
            for x in v:
                walk(x)

    for n in rec._desc.fields:
        walk(getattr(rec, n))
    return out


def _frames(raw):
    out, pos = [], 0
    while pos + 4 <= len(raw):
        n = struct.unpack(">I", raw[pos:pos + 4])[0]
        out.append(raw[pos:pos + 4 + n])
        pos += 4 + n
    return out


def _write_stream(recs, layout, path):
    from flow.record import RecordDescriptor
    from flow.record.packer import RecordPacker
    from flow.record.stream import RecordStreamWriter

    bio = io.BytesIO()
    w = RecordStreamWriter(bio)
    w.flush()
    for rec in recs:
        w.write(rec)
    raw = bio.getvalue()
    frames = _frames(raw)
    # classify the frames of the unmutated stream (every frame decodes, in order)
    pk = RecordPacker()
    info, ids = {}, {}
    kinds = []
    for fr in frames:
        obj = pk.unpack(fr[4:])
        if isinstance(obj, RecordDescriptor):
            pk.register(obj)
            did = ids.setdefault(obj.identifier, len(ids) + 1)
            info[fr] = ["desc", did]
            kinds.append("desc")
        elif isinstance(obj, (bytes, bytearray)):
            info[fr] = ["magic"]
            kinds.append("magic")
        elif type(obj).__name__ == "GroupedRecord":
            # a grouped record has no descriptor frame of its own: it needs those of its members
            info[fr] = ["rec", 0, _idx(obj), sorted({ids[m._desc.identifier] for m in obj.records})]
            kinds.append("rec")
        else:
            info[fr] = ["rec", ids[obj._desc.identifier], _idx(obj), sorted({ids[i] for i in _nested_ids(obj)})]
            kinds.append("rec")
    header = frames[0]
    cut = 0
    for op, k in layout:
        dpos = [i for i, fr in enumerate(frames) if info[fr][0] == "desc"]
        if op == "header_at":
            frames.insert(k % (len(frames) + 1), header)
        elif op == "drop_desc" and dpos:
            del frames[dpos[k % len(dpos)]]
        elif op == "late_desc" and dpos:
            frames.append(frames.pop(dpos[k % len(dpos)]))
        elif op == "dup_desc" and dpos:
            frames.append(frames[dpos[k % len(dpos)]])
        elif op == "truncate":
            cut = max(cut, 1 + k % 9)
    data = b"".join(frames)
    if cut and len(frames) > 1:
        data = data[:-cut] if cut < len(data) - len(header) else data
    else:
        cut = 0
    with open(path, "wb") as f:
        f.write(data)
    # abstract items from the bytes actually written
    items, pos = [], 0
    while pos < len(data):
        if pos + 4 > len(data):
            break  # short length prefix: EOFError, a clean end
        n = struct.unpack(">I", data[pos:pos + 4])[0]
        fr = data[pos:pos + 4 + n]
        if len(fr) < 4 + n:
            items.append(["broken", "?"])
            break
        items.append(list(info[fr]))
        pos += 4 + n
    return items


def _write_json(recs, layout, path):
    from flow.record import RecordWriter
    tmp = path + ".base"
    w = RecordWriter("jsonfile://" + tmp)
    for rec in recs:
        w.write(rec)
    w.flush()
    w.close()
    lines = []
    ids, last_desc = {}, 0
    with open(tmp, encoding="utf-8", errors="surrogateescape") as f:
        for line in f:
            j = json.loads(line)
            if j.get("_type") == "recorddescriptor":
                last_desc = len([1 for _, it in lines if it[0] == "desc"]) + 1
                lines.append((line, ["desc", last_desc]))
            else:
                # the writer emits a descriptor line right before the first record that uses it
                did = ids.setdefault(json.dumps(j["_recorddescriptor"]), last_desc)
                lines.append((line, ["rec", int(j["idx"]), did]))
    os.remove(tmp)
    for op in layout:
        k, pos = op[0], op[1]
        at = pos % (len(lines) + 1)
        d = [i for i, l in enumerate(lines) if l[1][0] == "desc"]
        if k == "plain":
            lines.insert(at, (json.dumps(op[2]) + "\n", ["plain", int(op[2]["idx"])]))
        elif k == "bad":
            lines.insert(at, (op[2] + "\n", ["bad", "?"]))
        elif k == "plainbad":
            lines.insert(at, (json.dumps(op[2]) + "\n", ["plainerr", "?"]))
        elif k == "blank_desc" and d:
            lines.insert(at, lines[d[0]])
        elif k == "drop_desc" and d:
            del lines[d[pos % len(d)]]
        elif k == "late_desc" and d:
            lines.append(lines.pop(d[pos % len(d)]))
    with open(path, "w", encoding="utf-8", errors="surrogateescape") as f:
        for line, _ in lines:
            f.write(line)
    return [it for _, it in lines]


def _write_other(adapter, recs, layout, path):
    from flow.record import RecordWriter
    w = RecordWriter(f"{adapter}://{path}")
    try:
        for rec in recs:
            w.write(rec)
        w.flush()
    finally:
        w.close()
    if adapter == "csvfile" and any(op[0] == "blank" for op in layout):
        with open(path, newline="", encoding="utf-8", errors="surrogateescape") as fp:
            text = fp.read()
        # LF row terminators: with CRLF rows and an empty line inside its sample the stdlib sniffer takes CR for the
        # delimiter and the reader cannot be opened at all
        text = text.replace("\r\n", "\n")
        lt = "\n"
        lines = text.split(lt)
        if len(lines) > 2:          # header + at least one row (+ the empty tail after the last terminator)
            for op in layout:
                if op[0] == "blank":
                    lines.insert(min(max(1, op[1]), len(lines) - 1), "")
            with open(path, "w", newline="", encoding="utf-8", errors="surrogateescape") as fp:
                fp.write(lt.join(lines))
    if adapter == "sqlite":
        bs = [op[1] for op in layout if op[0] == "batch_size"]
        bs = bs[0] if bs else 1000
        order, tables = [], {}
        for rec in recs:
            nm = rec._desc.name
            if nm not in tables:
                tables[nm] = []
                order.append(nm)
            tables[nm].append(["row", _idx(rec)])
        return [[tables[nm][i:i + bs] for i in range(0, len(tables[nm]), bs)] for nm in order]
    return [["row", _idx(rec)] for rec in recs]


def _reader_url(adapter, path, layout):
    if adapter == "stream":
        return path
    if adapter == "sqlite":
        bs = [op[1] for op in layout if op[0] == "batch_size"]
        return f"sqlite://{path}" + (f"?batch_size={bs[0]}" if bs else "")
    return f"{adapter}://{path}"


def _shuffled(n, seed):
    from ..prng import Rng
    order = list(range(n))
    Rng(seed).shuffle(order)
    return order


_other = {}


def _interfere():
    """unrelated matching elsewhere in the process (another reader, another selector, other literals): verdicts for the
    records at hand may not depend on it"""
    import warnings

    from flow.record import RecordDescriptor
    from flow.record.fieldtypes import posix_path
    from flow.record.selector import CompiledSelector, Selector
    if not _other:
        d = RecordDescriptor("c10/other", [("path", "p"), ("string", "s"), ("varint", "n"), ("string[]", "l")])
        _other["rec"] = d(p=posix_path("/etc/hosts"), s="zz", n=1, l=["q"])
        _other["sels"] = [c(t) for t in ("r.p == '/etc//passwd'", "r.s == 'q'", "r.n in [5]", "lower(r.s) == 'x'",
                                         "any(x == 'b' for x in r.l)") for c in (Selector, CompiledSelector)]
    with warnings.catch_warnings():
        warnings.simplefilter("ignore")
        for sel in _other["sels"]:
            try:
                sel.match(_other["rec"])
            except Exception:      # noqa: BLE001
                pass


def _history(records, form_or_engine, text, seed, maker):
    """fresh outcome per record, purity, and one reused object in three orders."""
    fresh, impure = [], []
    def state(rec):
        # deep observation + the names in the instance dictionary (grouped records have one: matching adds nothing to it)
        return [_h(V.observe(rec)), sorted(getattr(rec, "__dict__", {}))]
    for i, rec in enumerate(records):
        before = state(rec)
        _interfere()
        fresh.append(_outcome(maker(), rec))
        if state(rec) != before:
            impure.append(i)
    n = len(records)
    orders = {"fwd": list(range(n)), "rev": list(range(n - 1, -1, -1)), "shuf": _shuffled(n, seed) + _shuffled(n, seed + 1)}
    threaded = {}
    for name, order in orders.items():
        sel = maker()
        threaded[name] = [_outcome(sel, records[i]) for i in order]
    return fresh, impure, orders, threaded


_CHILD = r"""
import sys, json, warnings
sys.path.insert(0, %(verif)r); sys.path.insert(0, %(repo)r)
warnings.simplefilter("ignore")
from harness import values as V
from flow.record.selector import CompiledSelector, Selector
cfg = json.loads(sys.stdin.read())
recs = [V.build(s) for s in cfg["records"]]
cls = Selector if cfg["engine"] == "interp" else CompiledSelector
out = {}
for i in cfg["order"]:
    try:
        out[i] = "t" if cls(cfg["selector"]).match(recs[i]) else "f"
    except Exception as e:
        out[i] = "raise:" + type(e).__name__
print(json.dumps([out[i] for i in range(len(recs))]))
"""


def _run_procorder(case):
    import subprocess
    verif = os.path.dirname(os.path.dirname(os.path.dirname(os.path.abspath(__file__))))
    code = _CHILD % {"verif": verif, "repo": os.environ.get("VERIF_REPO", "/repo")}
    n = len(case["records"])
    res = {}
    for name, order in (("fwd", list(range(n))), ("rev", list(range(n - 1, -1, -1)))):
        env = dict(os.environ, PYTHONDONTWRITEBYTECODE="1")
        p = subprocess.run([sys.executable, "-c", code], input=json.dumps(dict(case, order=order)), capture_output=True,
                           text=True, env=env, timeout=120)
        if p.returncode != 0:
            return {"setup_error": "child", "msg": p.stderr[-300:]}
        res[name] = json.loads(p.stdout.strip().splitlines()[-1])
    return {"orders_out": res, "fresh": res["fwd"]}


def run_real(case):
    from flow.record import RecordReader
    from flow.record.selector import CompiledSelector, Selector, make_selector

    k = case["kind"]
    if k == "mksel":
        a, s = case["arg"], case["s"]
        arg = None if a == "absent" else s if a == "text" else Selector(s) if a == "interp" else CompiledSelector(s)
        ret = make_selector(arg, case["force"])
        if ret is None:
            sel = None
        elif isinstance(ret, CompiledSelector):
            sel = ["compiled", ret.expression]
        elif isinstance(ret, Selector):
            sel = ["interp", ret.expression_str]
        else:
            sel = ["other", repr(ret)]
        return {"sel": sel, "same_object": ret is arg}
    if k == "procorder":
        return _run_procorder(case)
    if k == "thread":
        recs = [V.build(rs) for rs in case["records"]]
        cls = Selector if case["engine"] == "interp" else CompiledSelector
        try:
            cls(case["selector"])
        except Exception as e:
            return {"setup_error": type(e).__name__}
        fresh, impure, orders, threaded = _history(recs, case["engine"], case["selector"], case["shuffle"],
                                                   lambda: cls(case["selector"]))
        return {"fresh": fresh, "impure": impure, "orders": orders, "threaded": threaded}
    if k == "read":
        adapter, form, text = case["adapter"], case["form"], case["selector"]
        d = tempfile.mkdtemp(prefix="frv-c10-")
        try:
            path = os.path.join(d, {"stream": "in.records", "jsonfile": "in.jsonl", "avro": "in.avro",
                                    "csvfile": "in.csv", "sqlite": "in.db"}[adapter])
            try:
                recs = [V.build(rs) for rs in case["records"]]
                if adapter == "stream":
                    items = _write_stream(recs, case["layout"], path)
                elif adapter == "jsonfile":
                    items = _write_json(recs, case["layout"], path)
                else:
                    items = _write_other(adapter, recs, case["layout"], path)
                _mk_selector(form, text)
            except Exception as e:
                return {"setup_error": type(e).__name__, "msg": str(e)[:200]}
            url = _reader_url(adapter, path, case["layout"])
            if case.get("premade") and form == "text":
                # another part of the application already made a selector of the SAME text for the other engine
                # (rdump compiles its selector): what a later reader is given must not depend on that
                from flow.record.selector import make_selector
                try:
                    make_selector(text, case["premade"] == "compiled")
                except Exception:
                    pass
            plain, perr, pstage = _drain(lambda: RecordReader(url))
            withsel, werr, wstage = _drain(lambda: RecordReader(url, selector=_mk_selector(form, text)))
            # the same source through record_stream() (what rdump iterates), handed the same kind of selector object
            rs_idx, rs_err = None, None
            if werr is None and adapter in ("stream", "jsonfile"):
                import logging

                from flow.record.stream import record_stream
                logging.disable(logging.CRITICAL)
                try:
                    rs_idx = [_idx(x) for x in record_stream([url], _mk_selector(form, text))]
                except Exception as e:          # noqa: BLE001
                    rs_err = type(e).__name__
                finally:
                    logging.disable(logging.NOTSET)
            # the consumer that filters afterwards: one selector object, reused over the records read without selector
            post, posterr = [], perr
            csel = _matcher_obj(form, text)
            for rec in plain:
                o = _outcome(csel, rec)
                if o == "t":
                    post.append(rec)
                elif o != "f":
                    posterr = o
                    break
            fresh, impure, orders, threaded = _history(plain, form, text, case["shuffle"],
                                                       lambda: _matcher_obj(form, text))

            def side(rs, err, stage=None):
                return {"idx": [_idx(x) for x in rs], "obs": [_obs_h(x) for x in rs], "err": err, "stage": stage}

            return {"plain": side(plain, perr, pstage), "withsel": side(withsel, werr, wstage),
                    "post": side(post, posterr), "fresh": fresh, "impure": impure, "orders": orders,
                    "threaded": threaded, "items": items, "rs_idx": rs_idx, "rs_err": rs_err}
        finally:
            shutil.rmtree(d, ignore_errors=True)
    raise ValueError(k)


# ------------------------------------------------------------------ property oracle (real observation only)

def _history_failure(obs):
    if obs["impure"]:
        return f"match() changed the deep observation of record(s) {obs['impure'][:5]}"
    for name, order in obs["orders"].items():
        want = [obs["fresh"][i] for i in order]
        got = obs["threaded"][name]
        if got != want:
            j = next(i for i in range(len(order)) if got[i] != want[i])
            return (f"match() depends on history: reused selector, order {name}, position {j} (record {order[j]}) "
                    f"gives {got[j]} but a fresh selector gives {want[j]}")
    return None


def oracle(case, obs):
    k = case["kind"]
    if "setup_error" in obs:
        return None
    if k == "procorder":
        a, b = obs["orders_out"]["fwd"], obs["orders_out"]["rev"]
        if a != b:
            j = next(i for i in range(len(a)) if a[i] != b[i])
            return (f"match() depends on what the process matched before: {case['selector']!r} ({case['engine']}) on record "
                    f"{j} gives {a[j]} when the records are judged in order and {b[j]} in reverse order (fresh interpreters)")
        return None
    if k == "thread":
        return _history_failure(obs)
    if k == "read":
        w, p = obs["withsel"], obs["post"]
        if w["obs"] != p["obs"] or w["idx"] != p["idx"]:
            return (f"{case['adapter']}: reading with selector {case['selector']!r} ({case['form']}) yields records "
                    f"{w['idx']} but reading without and filtering afterwards keeps {p['idx']}")
        if obs.get("rs_err"):
            return f"{case['adapter']}: record_stream with selector {case['selector']!r} ({case['form']}) raised {obs['rs_err']}"
        if obs.get("rs_idx") is not None and w["err"] is None and obs["rs_idx"] != w["idx"]:
            return (f"{case['adapter']}: record_stream handed the selector {case['selector']!r} ({case['form']}) yields records "
                    f"{obs['rs_idx']}, the reader handed the same selector yields {w['idx']}")
        if w["err"] != p["err"]:
            return (f"{case['adapter']}: reading with selector ends with {w['err']} but reading without and filtering "
                    f"afterwards ends with {p['err']}")
        return _history_failure(obs)
    return None


# ------------------------------------------------------------------ model

def _fill(items, err):
    """the class of a broken frame / line is what the reader reported (position comes from the model)"""
    out = []
    for it in items:
        if it and isinstance(it[0], str):
            out.append([it[0], err or "?"] if len(it) == 2 and it[1] == "?" else it)
        else:
            out.append(_fill(it, err))
    return out


def model_op(case, obs):
    k = case["kind"]
    if "setup_error" in obs:
        return None
    if k == "mksel":
        return {"op": "c10.mksel", "kind": case["arg"], "s": case["s"], "force": case["force"]}
    if k == "procorder":
        return None
    if k == "thread":
        return {"op": "c10.thread", "engine": case["engine"], "fresh": obs["fresh"], "order": obs["orders"]["shuf"]}
    if k == "read":
        if any(rs[0] == "grouped" for rs in case["records"]):
            return None  # grouped records in the stream: real-code oracle only (the model's items are plain records)
        if obs["plain"]["stage"] == "ctor":
            return None  # the reader could not be opened at all (e.g. empty CSV/Avro): nothing to iterate
        idxs = obs["plain"]["idx"]
        if any(i < 0 for i in idxs) or len(set(idxs)) != len(idxs):
            return None
        size = max(idxs + [0]) + 1
        table = ["model:no-outcome"] * size
        for i, o in zip(idxs, obs["fresh"]):
            table[i] = o
        adapter = case["adapter"]
        items = obs["items"]
        # (csvfile: the header row is consumed by the reader's constructor and is not an item)
        use_sel = case["form"] not in ("none", "emptytext")
        return {"op": "c10.read", "adapter": adapter, "items": _fill(items, obs["plain"]["err"]), "sel": use_sel,
                "outcomes": table}
    return None


def compare(case, obs, m):
    k = case["kind"]
    if "error" in m:
        return f"model error {m['error']}"
    if k == "mksel":
        if m["sel"] != obs["sel"]:
            return f"make_selector: model {m['sel']} vs implementation {obs['sel']}"
        return None
    if k == "thread":
        if m["results"] != obs["threaded"]["shuf"]:
            return f"reused selector: model {m['results']} vs implementation {obs['threaded']['shuf']}"
        return None
    if k == "read":
        for side, mk in (("plain", "plain"), ("withsel", "withsel")):
            if m[mk]["out"] != obs[side]["idx"]:
                return f"{case['adapter']} {side}: model yields {m[mk]['out']} vs implementation {obs[side]['idx']}"
            if m[mk]["err"] != obs[side]["err"]:
                return f"{case['adapter']} {side}: model ends with {m[mk]['err']} vs implementation {obs[side]['err']}"
        return None
    return None


def nontrivial(case, obs):
    k = case["kind"]
    if "setup_error" in obs:
        return False
    if k == "mksel":
        return case["arg"] != "absent"
    return len(obs["fresh"]) >= 2 and len(set(obs["fresh"])) >= 2


def classify(case, obs):
    k = case["kind"]
    if "setup_error" in obs:
        return f"{k}:setup-error:{obs['setup_error']}"
    if k == "mksel":
        return "mksel"
    outs = set(obs["fresh"])
    shape = "raises" if outs - {"t", "f"} else "mixed" if outs == {"t", "f"} else "const" if outs else "empty"
    if k == "procorder":
        return [f"procorder:{case['engine']}:{shape}"]
    if k == "thread":
        return [f"thread:{case['engine']}:{shape}"]
    b = [f"read:{case['adapter']}:{case['form']}", f"read:{case['adapter']}:{shape}"]
    if obs["plain"]["err"]:
        b.append(f"read:{case['adapter']}:reader-error:{obs['plain']['err']}")
    for op in case["layout"]:
        b.append(f"layout:{case['adapter']}:{op[0]}")
    return b


def shrink(case):
    if case["kind"] in ("read", "thread"):
        recs = case["records"]
        for i in range(len(recs)):
            c = dict(case)
            c["records"] = recs[:i] + recs[i + 1:]
            yield c
        if case["kind"] == "read" and case["layout"]:
            for i in range(len(case["layout"])):
                c = dict(case)
                c["layout"] = case["layout"][:i] + case["layout"][i + 1:]
                yield c


MATCHERS = {}
