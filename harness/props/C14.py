"""C14 — JSON lines output round-trips and is plain JSON.

Real code: records over the JSON-supported field types written through RecordWriter("jsonfile://...") with
descriptors on/off and several indent settings, the file's text, every document in it, and what
RecordReader("jsonfile://...") yields from it (typed records with descriptors on, the plain-JSON fallback with
descriptors off).

Correspondence: the Lean model (Model/Json.lean, Base64.lean, DateTime.lean) writes the same records
(`writeAll`: descriptor lines before first use, `toJson`), reads its own lines back (`readAll`) and applies the
plain-JSON fallback (`fromJsonPlain`); the parsed documents, the records read and the fallback records must be equal.
Base64 is compared with CPython's on its own.

Oracle (real observation only): every document parses as strict JSON; one document per line unless indent is
requested (then: a sequence of standalone documents); keys are exactly the record's slots in order plus the type
markers iff descriptors are enabled; the descriptor document of a record precedes it; with descriptors on the
reader returns records deep-equal to those written (type name, field list, every value, unset included); with
descriptors off the fallback returns `json/record`s whose fields are the non-underscore keys in order and whose
values equal every scalar JSON value written.
"""
import base64
import json
import math
import os
import shutil
import struct
import tempfile

from harness import values as V

ID = "C14"
CHECK_BUILT_DESCRIPTOR = True     # engine.oracle_of: declared records must carry their declared descriptor
CLAIM = dict(
    text="Kernel-checked theorems about an executable model of the JSON adapter: base64 decode(encode b) = b for ALL "
         "byte strings (induction on 3-byte chunks); value-level round trip for every supported type (text incl. "
         "surrogate escapes, integers of any size, float bits, boolean, datetime via C13's ISO theorem, bytes, digest, "
         "ipaddress, ipnetwork, uri, POSIX path), lists of these and unset fields; one record line read back with a "
         "registry binding its identifier gives the record itself; the WHOLE STREAM for every sequence of well-typed "
         "records of any mix of descriptors and EVERY descriptor-hash function (collisions included) reads back "
         "record for record, each with its own descriptor (descriptor line precedes first use), also when writes "
         "RAISE in between after the packer registered the descriptor and the caller carries on "
         "(C14_stream_roundtrip_failed_writes); keys = slots (+ the "
         "two markers iff descriptors enabled); descriptors off: the fallback yields json/record with the declared "
         "fields in order holding every scalar JSON value written. Tie: extracted pack_obj order / markers / base64 "
         "type table / fallback table (decide) + correspondence of parsed documents, reader output and fallback "
         "output with the model + real-code oracle.",
    note="partial: json.dumps/json.loads (text layer) is the hypothesis JsonTextLaws, ipaddress/ipnetwork/pathlib "
         "normal forms the hypothesis LibLaws (idempotent), both exercised by the harness; command, Windows paths, "
         "nested records and dynamic/dictlist fields are outside the property's supported list and not modelled. "
         "Known finding: non-finite floats are written as NaN / Infinity, which is not RFC 8259 JSON.",
    technique="Lean 4 theorems over an executable model + model/implementation correspondence",
    design="8/C14")
RULE = ("stream: 1-6 records over 1-3 descriptors drawn from the JSON-supported types (string wstring uri varint filesize "
        "unix_file_mode uint16 uint32 float boolean datetime bytes digest net.ipaddress net.ipnetwork path(POSIX)) and "
        "their [] forms, values from the shared boundary pools (None, big integers, surrogate escapes, empty lists, "
        "empty bytes, offsets with seconds, fold) x descriptors {true,false,1,0,...} x indent {none,0,2,4}; collide: two "
        "descriptors sharing one identifier, interleaved; nonfinite: floats NaN/+-inf (reported separately); b64: byte "
        "strings of every length class vs CPython's base64. Non-trivial = a stream with >= 1 non-None declared value; "
        "distinct by hash of the case.")
TRUSTED = ["CPython json.dumps / json.loads (JsonTextLaws hypothesis; exercised, not proved)",
           "ipaddress, pathlib normal forms (LibLaws hypothesis; exercised)",
           "zoneinfo: offsets of zone values are inputs of the model (see C13)"]
ASSUMPTIONS = ["float NaN payloads are not distinguished (Python prints every NaN as NaN)",
               "Windows-flavoured paths, command, record-typed, dynamic, stringlist and dictlist fields are outside the "
               "supported list of the property"]
EXPLANATION = "seeded sample; boundary pools always drawn from; not exhaustive"

SCALARS = ["string", "wstring", "uri", "varint", "filesize", "unix_file_mode", "uint16", "uint32", "float", "boolean",
           "datetime", "bytes", "digest", "net.ipaddress", "net.ipnetwork", "path"]
JSON_TYPES = SCALARS + [t + "[]" for t in SCALARS]
GEN = ["dt", [2024, 1, 1, 0, 0, 0, 0], "utc", 0]
COLLIDE = [["t/x", [["string", "a"], ["string", "stringb"]]], ["t/x", [["string", "astring"], ["string", "b"]]]]


def EXHAUSTIVE(tier):
    return False


def WORKERS(tier):
    return 1 if tier == "quick" else min(16, os.cpu_count() or 1)


# ------------------------------------------------------------------ generation

def _finite(bits):
    return (int(bits, 16) >> 52) & 0x7FF != 0x7FF


def _fix_value(r, t, spec, nonfinite):
    """Keep a generated value inside the property's domain (POSIX paths, finite floats unless asked otherwise)."""
    k = spec[0]
    if k == "list":
        return ["list", [_fix_value(r, t, x, nonfinite) for x in spec[1]]]
    if k == "path" and spec[1] != "posix":
        txt = r.choice(["", "/", "/usr/bin/ls", "relative/dir/file.txt", "/a//b/../c", ".", "..", "/tmp/héllo 日本",
                        "/with space/x", "~", "a\\b"])
        return ["path", "posix", V.enc_str(txt)]
    if k == "float" and not nonfinite and not _finite(spec[1]):
        return ["float", r.choice(["0000000000000000", "8000000000000000", "3ff0000000000000", "7fefffffffffffff",
                                   "0000000000000001", "3fb999999999999a", "c1e0000000000000"])]
    if k == "dt":
        # offsets strictly inside (0, 1 s) are outside C13's domain; the shared generator never makes them
        return spec
    return spec


def _gen_record(r, descspec, nonfinite=False):
    vals = []
    for t, _ in descspec[1]:
        base = t[:-2] if t.endswith("[]") else t
        v = V.gen_value(r, t)
        vals.append(_fix_value(r, base, v, nonfinite))
    meta = V.gen_meta(r)
    return ["rec", descspec, vals, meta]


def _gen_stream(r, nonfinite=False):
    ndesc = r.choice([1, 1, 2, 3])
    descs = []
    for _ in range(ndesc):
        descs.append(V.gen_descspec(r, nfields=r.choice([0, 1, 2, 3, 5, 8]), types=SCALARS, name=r.choice(V.TNAMES[:4])))
    recs = [_gen_record(r, r.choice(descs), nonfinite) for _ in range(r.choice([1, 1, 2, 3, 6]))]
    return recs


def gen_cases(rng, tier):
    n = {"quick": 600, "thorough": 12000, "search": 1500}[tier]
    cases = []
    r = rng.fork("stream")
    # one record per type with its [] form, all set / all unset
    full = ["test/all", [[t, "f%d" % i] for i, t in enumerate(JSON_TYPES)]]
    for unset in (False, True):
        vals = []
        for t, _ in full[1]:
            if unset:
                vals.append(V.NONE)
            else:
                base = t[:-2] if t.endswith("[]") else t
                vals.append(_fix_value(r, base, V.gen_value(r, t, none_chance=0), False))
        for d in ("true", "false"):
            cases.append({"kind": "stream", "descriptors": d, "indent": None,
                          "records": [["rec", full, vals, {"_generated": GEN}]]})
    for _ in range(n):
        cases.append({"kind": "stream", "descriptors": r.choice(["true", "true", "true", "false", "false", "1", "0", "True", "FALSE"]),
                      "indent": r.choice([None, None, None, None, 2, 0, 4]), "records": _gen_stream(r)})
    # identifier collision: two descriptors with the same (name, hash), interleaved
    r = rng.fork("collide")
    for _ in range(max(2, n // 60)):
        recs = []
        for _ in range(r.randint(2, 6)):
            d = r.choice(COLLIDE)
            recs.append(["rec", d, [V.S(V.gen_text(r)), V.S(V.gen_text(r))], {"_generated": GEN}])
        cases.append({"kind": "stream", "descriptors": "true", "indent": None, "records": recs, "collide": True})
    # a write that FAILS (an integer beyond json.dumps' int-to-text limit), the caller carries on with good records of
    # the same and of other types: everything accepted must still be in the file, readable, each type defined first
    r = rng.fork("poison")
    for _ in range(max(4, n // 40)):
        da = ["test/p", [["varint", "n"], ["string", "s"]]]
        db = ["test/q", [["string", "s"], ["varint", "n"], ["boolean", "b"]]]
        recs = []
        for _ in range(r.randint(2, 5)):
            d_ = r.choice([da, da, db])
            vals = [V.I(r.randint(0, 99)) if t == "varint" else V.S(V.gen_text(r)) if t == "string" else ["bool", r.below(2)]
                    for t, _ in d_[1]]
            recs.append(["rec", d_, vals, {"_generated": GEN}])
        cases.append({"kind": "stream", "descriptors": "true", "indent": r.choice([None, None, 2]), "records": recs,
                      "poison": sorted(set(r.sample(list(range(len(recs))), r.randint(1, 2)) + ([0] if r.chance(60) else [])))})
    # non-finite floats, reported separately
    r = rng.fork("nonfinite")
    for _ in range(max(3, n // 40)):
        ds = ["test/nf", [["float", "x"], r.choice([["float[]", "xs"], ["varint", "n"], ["string", "s"]])]]
        x = ["float", r.choice(["7ff0000000000000", "fff0000000000000", "7ff8000000000000", "7ff8000000000001", "fff8000000000000"])]
        second = (["list", [x, ["float", "3ff0000000000000"]]] if ds[1][1][0] == "float[]"
                  else V.gen_value(r, ds[1][1][0]))
        cases.append({"kind": "stream", "descriptors": r.choice(["true", "false"]), "indent": None,
                      "records": [["rec", ds, [x, second], {"_generated": GEN}]], "nonfinite": True})
    # base64 on its own
    r = rng.fork("b64")
    for ln in [0, 1, 2, 3, 4, 5, 6, 7, 31, 32, 33, 255, 256, 257]:
        cases.append({"kind": "b64", "hex": r.bytes(ln).hex()})
    for b in (b"\x00", b"\xff\xff\xff", b"\xfb\xff\xbf", b"\x00\x10\x83", b"\xfb", b"\xfb\xf0"):
        cases.append({"kind": "b64", "hex": b.hex()})
    for _ in range(n // 4):
        cases.append({"kind": "b64", "hex": r.bytes(r.randint(0, 48)).hex()})
    return cases


# ------------------------------------------------------------------ real code

def canon_json(v):
    """Parsed JSON -> the canonical form the model driver prints."""
    if v is None:
        return None
    if isinstance(v, bool):
        return v
    if isinstance(v, int):
        return {"i": str(v)}
    if isinstance(v, float):
        return {"f": struct.pack(">d", v).hex()}
    if isinstance(v, str):
        return {"s": V.enc_str(v)}
    if isinstance(v, list):
        return {"a": [canon_json(x) for x in v]}
    if isinstance(v, Pairs):
        return {"o": [[V.enc_str(k), canon_json(x)] for k, x in v.items]}
    raise TypeError(type(v))


class Pairs:
    def __init__(self, items):
        self.items = items

    def get(self, k, d=None):
        for a, b in self.items:
            if a == k:
                return b
        return d

    def keys(self):
        return [a for a, _ in self.items]


class _NotStrict(ValueError):
    pass


def _reject(c):
    raise _NotStrict(c)


def split_documents(text):
    """The sequence of JSON documents in `text` (whitespace separated); raises ValueError when it is not one."""
    dec = json.JSONDecoder(object_pairs_hook=Pairs)
    docs, spans = [], []
    i, n = 0, len(text)
    while True:
        while i < n and text[i] in " \t\r\n":
            i += 1
        if i >= n:
            break
        v, j = dec.raw_decode(text, i)
        docs.append(v)
        spans.append((i, j))
        i = j
    return docs, spans


def _tz_model(v):
    tz = v.tzinfo
    import datetime as _dtm
    if tz is None:
        return "naive"
    if tz is _dtm.timezone.utc:
        return "utc"
    def us(td):
        return (td.days * 86400 + td.seconds) * 10 ** 6 + td.microseconds
    if isinstance(tz, _dtm.timezone):
        o = us(v.utcoffset())
        return "utc" if o == 0 else ["fixed", o]
    return ["zone", us(v.replace(fold=0).utcoffset()), us(v.replace(fold=1).utcoffset()), v.fold]


def model_sv(v):
    import datetime as _dtm
    import pathlib

    from flow.record import fieldtypes
    from flow.record.fieldtypes import net as _net
    if isinstance(v, fieldtypes.boolean):
        return {"t": "bool", "v": bool(v)}
    if isinstance(v, bool):
        return {"t": "bool", "v": v}
    if isinstance(v, _dtm.datetime):
        return {"t": "dt", "f": [v.year, v.month, v.day, v.hour, v.minute, v.second, v.microsecond], "tz": _tz_model(v)}
    if isinstance(v, int):
        return {"t": "int", "v": str(int(v))}
    if isinstance(v, float):
        return {"t": "float", "v": struct.pack(">d", v).hex()}
    if isinstance(v, str):
        return {"t": "str", "v": V.enc_str(v)}
    if isinstance(v, (bytes, bytearray)):
        return {"t": "bytes", "v": bytes(v).hex()}
    if isinstance(v, fieldtypes.digest):
        return {"t": "digest", "v": [None if x is None else V.enc_str(x) for x in (v.md5, v.sha1, v.sha256)]}
    if isinstance(v, _net.ipaddress):
        return {"t": "ip", "v": V.enc_str(str(v))}
    if isinstance(v, _net.ipnetwork):
        return {"t": "net", "v": V.enc_str(str(v))}
    if isinstance(v, pathlib.PurePath):
        return {"t": "path", "v": V.enc_str(str(v))}
    raise TypeError(f"value of {type(v)} outside the JSON-supported types")


def model_fv(v):
    if v is None:
        return None
    if isinstance(v, list):
        return {"t": "list", "v": [model_sv(x) for x in v]}
    return model_sv(v)


def model_rec(rec):
    d = rec._desc
    fields = [[V.enc_str(t), V.enc_str(n)] for t, n in d.get_field_tuples()]
    names = [n for _, n in d.get_field_tuples()] + ["_source", "_classification", "_generated", "_version"]
    return {"name": V.enc_str(d.name), "fields": fields, "vals": [model_fv(getattr(rec, n)) for n in names]}


def _dt_obs(m):
    """model input form of a datetime -> the observation the driver prints (wall, offset, kind)"""
    tz = m["tz"]
    if tz == "utc":
        return {"f": m["f"], "off": 0, "kind": "utc"}
    if tz[0] == "fixed":
        return {"f": m["f"], "off": tz[1], "kind": "fixed"}
    off = tz[2] if tz[3] else tz[1]
    return {"f": m["f"], "off": off, "kind": "zone"}


def as_read_form(fv):
    """model input form -> the form in which the driver prints values it read (datetimes as observations)."""
    if fv is None:
        return None
    if fv["t"] == "list":
        return {"t": "list", "v": [as_read_form(x) for x in fv["v"]]}
    if fv["t"] == "dt":
        return {"t": "dt", "obs": _dt_obs(fv)}
    return fv


def _err(e):
    return {"error": type(e).__name__, "msg": str(e)[:160]}


def run_real(case):
    if case["kind"] == "b64":
        b = bytes.fromhex(case["hex"])
        e = base64.b64encode(b).decode()
        return {"enc": e, "dec": base64.b64decode(e).hex()}
    from flow.record import RecordReader, RecordWriter

    try:
        recs = [V.build_record(s) for s in case["records"]]
    except Exception as e:
        return {"build": _err(e)}
    obs = {"input": [V.observe_record(x) for x in recs], "model_records": None, "hashes": []}
    try:
        obs["model_records"] = [model_rec(x) for x in recs]
        seen = {}
        for x in recs:
            d = x._desc
            key = (d.name, tuple(d.get_field_tuples()))
            if key not in seen:
                seen[key] = 1
                obs["hashes"].append([V.enc_str(d.name), [[V.enc_str(t), V.enc_str(n)] for t, n in d.get_field_tuples()],
                                      d.descriptor_hash])
    except TypeError as e:
        obs["model_records"] = None
        obs["unmodelled"] = str(e)
    d = tempfile.mkdtemp(prefix="frv-c14-")
    try:
        path = os.path.join(d, "out.json")
        q = "descriptors=" + case["descriptors"]
        if case["indent"] is not None:
            q += "&indent=%d" % case["indent"]
        try:
            w = RecordWriter("jsonfile://" + path + "?" + q)
            try:
                for i, x in enumerate(recs):
                    if i in case.get("poison", ()) and "n" in x.__slots__:
                        # the same record with an integer that json.dumps refuses: the write raises, the caller goes on
                        bad = x._replace(n=10 ** 5000)
                        try:
                            w.write(bad)
                            obs["poison_accepted"] = True
                        except (ValueError, OverflowError):
                            obs.setdefault("failed_before", []).append(i)
                    w.write(x)
                w.flush()
            finally:
                w.close()
        except Exception as e:
            obs["write"] = _err(e)
            return obs
        text = open(path, encoding="utf-8", newline="").read()
        if not _on(case) and not case.get("poison"):
            # the same records with descriptors ENABLED: disabling them may only drop the marker keys and the descriptor
            # documents - "the same scalar JSON values"
            try:
                path_on = os.path.join(d, "out_on.json")
                q_on = "descriptors=true" + ("&indent=%d" % case["indent"] if case["indent"] is not None else "")
                w2 = RecordWriter("jsonfile://" + path_on + "?" + q_on)
                try:
                    for x in recs:
                        w2.write(x)
                    w2.flush()
                finally:
                    w2.close()
                docs_on, _ = split_documents(open(path_on, encoding="utf-8", newline="").read())
                obs["docs_on"] = [canon_json(x) for x in docs_on]
            except Exception as e:          # noqa: BLE001
                obs["docs_on_error"] = type(e).__name__ + ": " + str(e)[:120]
        obs["text_len"] = len(text)
        obs["ends_with_newline"] = text.endswith("\n")
        obs["ascii"] = all(ord(c) < 128 for c in text)
        lines = text.split("\n")
        if lines and lines[-1] == "":
            lines = lines[:-1]
        obs["n_lines"] = len(lines)
        # per-line parse (the jsonlines reading) and whole-text document sequence
        per_line = []
        for ln in lines:
            try:
                json.loads(ln)
                per_line.append(True)
            except ValueError:
                per_line.append(False)
        obs["line_parses"] = per_line
        try:
            docs, spans = split_documents(text)
            obs["docs"] = [canon_json(x) for x in docs]
            obs["doc_multiline"] = ["\n" in text[a:b] for a, b in spans]
            # leading blanks of the second line of every multi-line document (the indentation that was applied)
            obs["doc_indent"] = [(lambda ls_: len(ls_[1]) - len(ls_[1].lstrip(" ")) if len(ls_) > 1 else None)(text[a:b].split("\n"))
                                 for a, b in spans]
            strict = []
            for a, b in spans:
                try:
                    json.loads(text[a:b], parse_constant=_reject)
                    strict.append(True)
                except _NotStrict as e:
                    strict.append(str(e))
            obs["strict"] = strict
        except ValueError as e:
            obs["docs_error"] = str(e)[:160]
        # reading back through the public entry point
        if case["indent"] is None:
            try:
                rd = RecordReader("jsonfile://" + path)
                try:
                    got = [x for x in rd]
                finally:
                    rd.close()
                obs["read"] = [V.observe_record(x) for x in got]
                if _on(case):
                    try:
                        obs["read_model"] = [model_rec(x) for x in got]
                    except TypeError as e:
                        obs["read_model_error"] = str(e)
            except Exception as e:
                obs["read"] = _err(e)
            # the same file through the file-object doors: RecordReader(url, fileobj=...) and the adapter class itself
            # (binary handles: the adapter sniffs the content, which text handles do not support)
            from flow.record.adapter.jsonfile import JsonfileReader
            alt = {}
            for name, mode, mk in (("url+fileobj(rb)", "rb", lambda fh: RecordReader("jsonfile://", fileobj=fh)),
                                   ("JsonfileReader(rb)", "rb", lambda fh: JsonfileReader(fh))):
                try:
                    with (open(path, "rb") if mode == "rb" else open(path, "r", encoding="utf-8")) as fh:
                        alt[name] = [V.observe_record(x) for x in mk(fh)]
                except Exception as e:
                    alt[name] = _err(e)
            obs["read_alt"] = alt
    finally:
        shutil.rmtree(d, ignore_errors=True)
    return obs


def _on(case):
    return case["descriptors"].lower() in ("true", "1")


# ------------------------------------------------------------------ oracle (real observation only)

def _is_nan_bits(h):
    v = int(h, 16)
    return (v >> 52) & 0x7FF == 0x7FF and v & ((1 << 52) - 1) != 0


def _norm_obs(o):
    """observation with every NaN payload collapsed (Python prints every NaN as NaN)"""
    if isinstance(o, list):
        if len(o) == 3 and o[0] == "float" and isinstance(o[2], str) and _is_nan_bits(o[2]):
            return ["float", o[1], "nan"]
        return [_norm_obs(x) for x in o]
    return o


def _scalar_of_canon(c):
    """canonical JSON scalar -> (kind, python value) ; None for containers"""
    if c is None:
        return ("none", None)
    if c is True or c is False:
        return ("bool", c)
    if "i" in c:
        return ("int", int(c["i"]))
    if "f" in c:
        return ("float", c["f"])
    if "s" in c:
        return ("str", V.dec_str(c["s"]))
    return None


def _obs_matches_scalar(o, kind, val):
    if kind == "none":
        return o == ["none"]
    if kind == "bool":
        return o[0] == "boolean" and o[1] == int(val)
    if kind == "int":
        return o[0] == "int" and o[2] == str(val)
    if kind == "float":
        return o[0] == "float" and (o[2] == val or (_is_nan_bits(o[2]) and _is_nan_bits(val)))
    if kind == "str":
        return o[0] == "str" and V.dec_str(o[2]) == val
    return False


def oracle(case, obs):
    if case["kind"] == "b64":
        if obs["dec"] != case["hex"]:
            return "base64.b64decode(b64encode(b)) != b"
        return None
    if "build" in obs:
        return None           # the generator produced a value the constructor refuses: not this property's subject
    if "write" in obs:
        return f"writing raised {obs['write']['error']}: {obs['write']['msg']}"
    on = _on(case)
    recs = case["records"]
    if "docs_error" in obs:
        return f"output is not a sequence of JSON documents: {obs['docs_error']}"
    docs = obs["docs"]
    if not obs["ends_with_newline"] and docs:
        return "output does not end with a newline"
    if case["indent"] is None:
        if obs["n_lines"] != len(docs) or not all(obs["line_parses"]):
            return f"not one JSON document per line: {obs['n_lines']} lines, {len(docs)} documents"
        if any(obs["doc_multiline"]):
            return "a document spans several lines although no indent was requested"
    else:
        # indentation was requested: every document (a non-empty JSON object) is laid out over several lines, its members
        # indented by the requested number of blanks
        for i, (ml, ind) in enumerate(zip(obs["doc_multiline"], obs.get("doc_indent", []))):
            if not ml:
                return f"indent={case['indent']} was requested but document {i} is written on one line"
            if ind != case["indent"]:
                return f"indent={case['indent']} was requested but the members of document {i} are indented by {ind} blanks"
    # documents: descriptor documents (iff enabled) and record documents, in order
    rec_docs = []
    announced = []
    for i, dc in enumerate(docs):
        if not (isinstance(dc, dict) and "o" in dc):
            return f"document {i} is not a JSON object"
        keys = [V.dec_str(k) for k, _ in dc["o"]]
        vals = dict((V.dec_str(k), v) for k, v in dc["o"])
        t = vals.get("_type")
        if t == {"s": V.enc_str("recorddescriptor")}:
            if not on:
                return "a descriptor document was written although descriptors are disabled"
            if keys != ["_type", "_data"]:
                return f"descriptor document has keys {keys}"
            announced.append(vals["_data"])
        else:
            rec_docs.append((i, keys, vals, list(announced)))
    if len(rec_docs) != len(recs):
        return f"{len(rec_docs)} record documents for {len(recs)} records written"
    for (i, keys, vals, ann), spec, inp in zip(rec_docs, recs, obs["input"]):
        fields = spec[1][1]
        slots = [n for _, n in fields] + ["_source", "_classification", "_generated", "_version"]
        want = slots + (["_type", "_recorddescriptor"] if on else [])
        if keys != want:
            return f"record document {i} has keys {keys}, expected {want}"
        if on:
            data = {"a": [{"s": V.enc_str(spec[1][0])},
                          {"a": [{"a": [{"s": V.enc_str(t)}, {"s": V.enc_str(n)}]} for t, n in fields]}]}
            if not ann or ann[-1] != data and data not in ann:
                return f"record document {i} is not preceded by its descriptor document"
            ident = vals["_recorddescriptor"]
            if not (isinstance(ident, dict) and "a" in ident and ident["a"][0] == {"s": V.enc_str(spec[1][0])}):
                return f"record document {i}: _recorddescriptor is {ident}"
            # the LAST descriptor announced under this name+hash must be this record's (collisions)
            same_id = [a for a in ann if a["a"][0] == data["a"][0]]
            if case.get("collide") and same_id[-1] != data:
                return f"record document {i} follows a descriptor document of a different descriptor with the same identifier"
    if not on and "docs_on" in obs:
        # descriptors off = descriptors on minus the markers: same keys otherwise, same JSON values
        on_recs = []
        for dc in obs["docs_on"]:
            vals_on = [(V.dec_str(k), v) for k, v in dc["o"]]
            if dict(vals_on).get("_type") == {"s": V.enc_str("recorddescriptor")}:
                continue
            on_recs.append([(k, v) for k, v in vals_on if k not in ("_type", "_recorddescriptor")])
        off_recs = [[(V.dec_str(k), v) for k, v in docs[i]["o"]] for i, _, _, _ in rec_docs]
        if len(on_recs) == len(off_recs):
            for k, (a, b) in enumerate(zip(on_recs, off_recs)):
                if not _nan_eq(a, b):
                    bad = next(((x, y) for x, y in zip(a, b) if not _nan_eq(x, y)), None)
                    return (f"record {k}: with descriptors disabled the line holds {json.dumps(bad[1] if bad else b)[:100]} "
                            f"where the same record with descriptors enabled holds {json.dumps(bad[0] if bad else a)[:100]}")
    # reading back
    if case["indent"] is None:
        rd = obs.get("read")
        if isinstance(rd, dict):
            return f"reading the file back raised {rd['error']}: {rd['msg']}"
        if len(rd) != len(recs):
            return f"reader returned {len(rd)} records for {len(recs)} written"
        if on:
            for k, (a, b) in enumerate(zip(obs["input"], rd)):
                if _norm_obs(a) != _norm_obs(b):
                    diff = [(n, x, y) for n, x, y in zip(range(99), _norm_obs(a)[3], _norm_obs(b)[3]) if x != y]
                    what = f"slot {diff[0][0]}: wrote {diff[0][1]} read {diff[0][2]}" if diff else f"{a[:3]} vs {b[:3]}"
                    return f"record {k} read back differs from the record written ({what})"[:400]
        else:
            for k, ((i, keys, vals, _), b) in enumerate(zip(rec_docs, rd)):
                decl = [kk for kk in keys if not kk.startswith("_")]
                if b[1] != "json/record":
                    return f"fallback record {k} has type {b[1]}"
                if [n for _, n in b[2]] != decl:
                    return f"fallback record {k} has fields {[n for _, n in b[2]]}, expected {decl}"
                for pos, kk in enumerate(decl):
                    sc = _scalar_of_canon(vals[kk])
                    if sc is None:
                        continue
                    if not _obs_matches_scalar(b[3][pos], sc[0], sc[1]):
                        return (f"fallback record {k}: field {kk} holds {b[3][pos]} but the JSON scalar written is "
                                f"{sc}")[:300]
    if case["indent"] is None:
        for name, got in sorted(obs.get("read_alt", {}).items()):
            if isinstance(got, dict):
                return f"reading the file back through {name} raised {got['error']}: {got['msg']}"
            if _norm_obs(got) != _norm_obs(obs["read"]):
                return (f"reading the file back through {name} gives {len(got)} records that differ from the "
                        f"{len(obs['read'])} read through the URL")
    # strict JSON last, so that the recorded NaN/Infinity finding can never hide another failure
    for i, s in enumerate(obs["strict"]):
        if s is not True:
            return f"not RFC 8259 JSON: document {i} contains the bare token {s}"
    return None


# ------------------------------------------------------------------ model

def model_op(case, obs):
    if case["kind"] == "b64":
        return {"op": "b64", "hex": case["hex"]}
    if obs.get("model_records") is None or "write" in obs or "build" in obs or "docs" not in obs:
        return None
    fb = obs.get("failed_before")
    if fb and not obs.get("poison_accepted"):
        # failing writes (C14_stream_roundtrip_failed_writes): the attempt on record i that raised is the same record
        # as far as the model is concerned (same descriptor; the values of a failed write never reach the file)
        recs, fails = [], []
        for i, mr in enumerate(obs["model_records"]):
            if i in fb:
                recs.append(mr)
                fails.append(True)
            recs.append(mr)
            fails.append(False)
        return {"op": "c14", "descriptors": _on(case), "records": recs, "fails": fails}
    # no "hashes" table: the model computes the descriptor hash of `_recorddescriptor` itself (Spec.descriptorHash)
    return {"op": "c14", "descriptors": _on(case), "records": obs["model_records"]}


def _nan_eq(a, b):
    return json.dumps(_collapse_nan(a), sort_keys=True) == json.dumps(_collapse_nan(b), sort_keys=True)


def _collapse_nan(x):
    if isinstance(x, dict):
        if set(x.keys()) == {"f"} and _is_nan_bits(x["f"]):
            return {"f": "nan"}
        if x.get("t") == "float" and isinstance(x.get("v"), str) and _is_nan_bits(x["v"]):
            return {"t": "float", "v": "nan"}
        return {k: _collapse_nan(v) for k, v in x.items()}
    if isinstance(x, list):
        return [_collapse_nan(v) for v in x]
    return x


def compare(case, obs, m):
    if "error" in m:
        return f"model error {m['error']}"
    if case["kind"] == "b64":
        if V.dec_str(m["enc"]) != obs["enc"]:
            return f"base64 text: model {V.dec_str(m['enc'])!r} vs CPython {obs['enc']!r}"
        if m["dec"] != case["hex"]:
            return "model b64dec(b64enc b) != b"
        return None
    if len(m["lines"]) != len(obs["docs"]):
        return f"model writes {len(m['lines'])} documents, implementation {len(obs['docs'])}"
    for i, (a, b) in enumerate(zip(m["lines"], obs["docs"])):
        if not _nan_eq(a, b):
            return f"document {i}: model {json.dumps(a)[:200]} vs implementation {json.dumps(b)[:200]}"
    if case["indent"] is not None:
        return None
    rd = obs.get("read")
    if _on(case):
        if "error" in m["read"]:
            if isinstance(rd, dict):
                return None
            return f"model reader fails with {m['read']['error']}, implementation read {len(rd)} records"
        if isinstance(rd, dict):
            return f"implementation reader raised {rd['error']}, model read {len(m['read']['ok'])} records"
        if "read_model_error" in obs:
            return f"implementation read a value outside the supported types: {obs['read_model_error']}"
        want = [{"name": x["name"], "fields": x["fields"], "vals": [as_read_form(v) for v in x["vals"]]}
                for x in obs["read_model"]]
        if not _nan_eq(want, m["read"]["ok"]):
            for k, (a, b) in enumerate(zip(want, m["read"]["ok"])):
                if not _nan_eq(a, b):
                    return f"record {k} read: implementation {json.dumps(a)[:220]} vs model {json.dumps(b)[:220]}"
            return "records read differ in number"
        return None
    # descriptors off: plain fallback
    if isinstance(rd, dict):
        if all(isinstance(p, dict) and "error" in p for p in m["plain"] if p is not None):
            return None
        return f"implementation fallback raised {rd['error']}: {rd['msg']}"
    plains = [p for p in m["plain"] if p is not None]
    if len(plains) != len(rd):
        return f"model fallback yields {len(plains)} records, implementation {len(rd)}"
    for k, (p, b) in enumerate(zip(plains, rd)):
        if "error" in p:
            return f"model fallback fails with {p['error']} on record {k}"
        if V.dec_str(p["type"]) != b[1]:
            return f"fallback type: model {V.dec_str(p['type'])} vs {b[1]}"
        mf = [[V.dec_str(t), V.dec_str(n)] for t, n in p["fields"]]
        if mf != [list(x) for x in b[2]]:
            return f"fallback fields: model {mf} vs implementation {b[2]}"
        for pos, pv in enumerate(p["vals"]):
            o = b[3][pos]
            if pv is None:
                ok = o == ["none"]
            elif pv["t"] == "opaque":
                ok = o[0] == "str"
            elif pv["t"] == "str":
                ok = o[0] == "str" and o[2] == pv["v"]
            elif pv["t"] == "int":
                ok = o[0] == "int" and o[2] == pv["v"]
            elif pv["t"] == "float":
                ok = o[0] == "float" and (o[2] == pv["v"] or (_is_nan_bits(o[2]) and _is_nan_bits(pv["v"])))
            elif pv["t"] == "bool":
                ok = o[0] == "boolean" and o[1] == int(pv["v"])
            else:
                ok = False
            if not ok:
                return f"fallback record {k} field {pos}: model {pv} vs implementation {o}"[:300]
        nd = len(p["vals"])
        src = b[3][nd]
        if (p["source"] is None) != (src == ["none"]) or (p["source"] is not None and src[2] != p["source"].get("v")):
            return f"fallback _source: model {p['source']} vs {src}"
    return None


# ------------------------------------------------------------------ statistics, shrinking, findings

def _has_nonfinite(case):
    def walk(s):
        if isinstance(s, list):
            if len(s) == 2 and s[0] == "float" and isinstance(s[1], str) and len(s[1]) == 16:
                try:
                    return not _finite(s[1])
                except ValueError:
                    return False
            return any(walk(x) for x in s)
        return False
    return case["kind"] == "stream" and walk(case["records"])


def nontrivial(case, obs):
    if case["kind"] == "b64":
        return len(case["hex"]) > 0
    return any(v != V.NONE and v != ["list", []] for rec in case["records"] for v in rec[2])


def classify(case, obs):
    if case["kind"] == "b64":
        return "b64:len%%3=%d" % ((len(case["hex"]) // 2) % 3)
    out = ["descriptors:" + ("on" if _on(case) else "off"), "indent:" + str(case["indent"]),
           "records:%d" % len(case["records"])]
    if case.get("collide"):
        out.append("identifier-collision")
    if _has_nonfinite(case):
        out.append("nonfinite-float:" + ("strict-json-violated" if any(s is not True for s in obs.get("strict", [])) else "ok"))
    types = set()
    for rec in case["records"]:
        for (t, _), v in zip(rec[1][1], rec[2]):
            types.add("type:" + t + (":unset" if v == V.NONE else ""))
    out += sorted(types)
    if "build" in obs:
        out.append("build-refused")
    return out


def shrink(case):
    if case["kind"] != "stream":
        return
    recs = case["records"]
    if len(recs) > 1:
        for i in range(len(recs)):
            yield dict(case, records=recs[:i] + recs[i + 1:])
    if case["indent"] is not None:
        yield dict(case, indent=None)
    for i, rec in enumerate(recs):
        ds, vals = rec[1], rec[2]
        if len(ds[1]) > 1:
            for j in range(len(ds[1])):
                nds = [ds[0], ds[1][:j] + ds[1][j + 1:]]
                yield dict(case, records=recs[:i] + [["rec", nds, vals[:j] + vals[j + 1:], rec[3]]] + recs[i + 1:])
        for j, v in enumerate(vals):
            if v[0] == "list" and len(v[1]) > 1:
                for k in range(len(v[1])):
                    nv = ["list", v[1][:k] + v[1][k + 1:]]
                    yield dict(case, records=recs[:i] + [["rec", ds, vals[:j] + [nv] + vals[j + 1:], rec[3]]] + recs[i + 1:])


def _m_nonfinite(case, obs, failure):
    return str(failure).startswith("not RFC 8259 JSON") and _has_nonfinite(case)


MATCHERS = {"nonfinite_float_not_rfc8259": _m_nonfinite}
