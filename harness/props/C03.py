"""C03 — every record is decoded with the descriptor it was written with.

Histories of writes on one or several writers open at the same time, over a descriptor pool that contains
same-name/different-field pairs, the real pair whose identifiers coincide, nested-record holders and grouped records;
run on the binary stream writer and the JSON lines writer.
"""
import io
import warnings

from .. import values as V
from .. import wire as W

ID = "C03"
CHECK_BUILT_DESCRIPTOR = True     # engine.oracle_of: declared records must carry their declared descriptor
CLAIM = dict(
    text="Kernel-checked history theorem for ANY assignment of identifier hashes (colliding ones included) and every "
         "write history: the reader decodes each object with every descriptor it needs bound to itself; descriptor "
         "frames precede the object frame; reader and writer registries agree after every history; frames of one of "
         "several simultaneously open writers equal the frames of its projection run alone; the same for histories in "
         "which writes RAISE after any number of descriptors were registered and the caller carries on "
         "(C03_own_descriptor_failed_writes: every object written successfully is still decoded with its own "
         "descriptors). Inst: the registration "
         "guard read off packer.py compares the descriptor. Tie: guard shape regenerated from the source; the model "
         "writes byte-identical streams for every generated history on every writer; real-code oracle: descriptor "
         "(name, ordered fields) and deep values of every record read back = created, binary and JSON, 1-3 writers.",
    note="partial: hypothesis NoInnerCollision (no two different descriptors with one identifier inside ONE object; "
         "counterexample theorem + known finding: such an object travels in one frame); CPython-level shared caches "
         "(lru_cache'd class generation) are only seen by the correspondence.",
    technique="Lean 4 invariant by induction over write histories + byte-exact correspondence on multi-writer histories",
    design="8/C03")
RULE = ("histories (quick: random length 1-14; thorough: additionally exhaustive over all histories of length <= 4 on 5 "
        "descriptors x 2 writers) of (writer, record) over the pool {colliding pair A/B, same-name pair, holder(record), "
        "holder(record[]), grouped, plain}; each history runs on binary stream writers and on JSON writers opened "
        "simultaneously. Non-trivial = history in which a descriptor must be re-emitted (an identifier changes hands) or "
        "two writers see the same type; distinct by hash of the case.")
TRUSTED = ["msgpack/json libraries"]
ASSUMPTIONS = []

GEN = ["dt", [2020, 1, 1, 0, 0, 0, 0], "utc", 0]
DA = ["t/x", [["stringlist", "a"], ["string", "b"]]]
DB = ["t/x", [["string", "a"], ["string", "listb"]]]
DC = ["t/y", [["string", "a"]]]
DC2 = ["t/y", [["varint", "a"]]]
DP = ["plain/z", [["varint", "n"], ["string", "s"]]]
DZ = ["t/marker", []]
DH = ["hold/one", [["record", "inner"], ["string", "tag"]]]
# member types of two groups that share the group name AND the flattened field list (x, y)
DGA, DGB, DGC = ["g/a", [["string", "x"]]], ["g/b", [["varint", "y"]]], ["g/c", [["string", "x"], ["varint", "y"]]]
# two type names that map to one Python class name, with the same fields
DS1, DS2 = ["net/conn", [["string", "h"], ["varint", "p"]]], ["net_conn", [["string", "h"], ["varint", "p"]]]
DHL = ["hold/many", [["record[]", "inners"], ["string", "tag"]]]


def rec_of(kind, r):
    m = {"_generated": GEN}
    t = lambda: V.S(r.choice(["p", "q", "zz", "é"]))  # noqa: E731
    if kind == "A":
        return ["rec", DA, [["list", [t()]], t()], m]
    if kind == "B":
        return ["rec", DB, [t(), t()], m]
    if kind == "C":
        return ["rec", DC, [t()], m]
    if kind == "C2":
        return ["rec", DC2, [V.I(r.randint(-5, 5))], m]
    if kind == "P":
        return ["rec", DP, [V.I(r.randint(0, 99)), t()], m]
    if kind == "PF":
        # a record of type plain/z that NO writer can serialise (text with a lone surrogate for the binary packer, an
        # integer beyond the int-to-text limit for json.dumps): the write raises, the caller carries on
        return ["rec", DP, [V.I(-1), V.S("\ud800")], m]      # run_real replaces n = -1 by 10**5000
    if kind == "Z":
        return ["rec", DZ, [], m]          # a record type without declared fields
    if kind == "H":
        return ["rec", DH, [rec_of(r.choice(["A", "B", "C", "C2", "P", "Z"]), r), t()], m]
    if kind == "HL":
        inner = [rec_of(r.choice(["C", "C2", "P"]), r) for _ in range(r.randint(0, 3))]
        return ["rec", DHL, [["list", inner], t()], m]
    if kind == "G":
        ks = r.choice([["C", "P"], ["A", "P"], ["B", "C2"], ["P", "C"], ["C", "C2"], ["C2", "C", "P"], ["P", "C2", "C"]])
        return ["grouped", "grp/x", [rec_of(k, r) for k in ks]]
    if kind == "GS1":
        return ["grouped", "grp/same", [["rec", DGA, [t()], m], ["rec", DGB, [V.I(r.randint(0, 9))], m]]]
    if kind == "GS2":
        return ["grouped", "grp/same", [["rec", DGC, [t(), V.I(r.randint(0, 9))], m]]]
    if kind == "S1":
        return ["rec", DS1, [t(), V.I(r.randint(0, 9))], m]
    if kind == "S2":
        return ["rec", DS2, [t(), V.I(r.randint(0, 9))], m]
    if kind == "CL":
        # a type made with the copy constructor from a descriptor of ANOTHER name that was in use before
        return ["rec", ["clone/of_c", DC[1]], [t()], dict(m, _clone_of=DC[0])]
    if kind == "HAB":  # inner collision: one frame holds records of A and of B
        return ["rec", DHL, [["list", [rec_of("A", r), rec_of("B", r)]], t()], m]
    if kind == "GAB":
        return ["grouped", "grp/ab", [rec_of("A", r), rec_of("B", r)]]
    raise ValueError(kind)


KINDS = ["A", "B", "C", "C2", "P", "H", "HL", "G", "Z", "GS1", "GS2", "S1", "S2", "CL"]


def EXHAUSTIVE(tier):
    return False


def gen_cases(rng, tier):
    r = rng.fork("hist")
    n = {"quick": 120, "thorough": 3000, "search": 600}[tier]
    cases = []
    for _ in range(n):
        nw = r.choice([1, 1, 2, 2, 3])
        ln = r.choice([1, 2, 3, 4, 6, 9, 14] if tier != "thorough" else [1, 2, 3, 5, 8, 14, 40, 120])
        kinds = KINDS
        if r.chance(10):
            kinds = ["S1", "S2", "P"]           # two type names that share one generated class name
        elif r.chance(10):
            kinds = ["GS1", "GS2", "G", "C"]    # groups of one name and one flat layout over different member types
        hist = [[r.below(nw), rec_of(r.choice(kinds), r)] for _ in range(ln)]
        case = {"writers": nw, "history": hist}
        if nw > 1 and r.chance(30):
            # some objects are written to two writers (one record object, two outputs): what the first writer emitted
            # for it must not be missing from the second
            case["tee"] = sorted(set(r.sample(list(range(ln)), r.randint(1, min(3, ln)))))
        if r.chance(15):
            # one write that fails (the record cannot be serialised), placed before / between good records of its type
            w_ = r.below(nw)
            pos = r.randint(0, len(hist))
            hist.insert(pos, [w_, rec_of("PF", r)])
            for _ in range(r.randint(1, 2)):
                hist.insert(r.randint(pos + 1, len(hist)), [w_, rec_of("P", r)])
            case["faulty"] = True
        cases.append(case)
    if tier == "thorough":
        # exhaustive: all histories of length <= 4 over 5 kinds x 2 writers
        r2 = rng.fork("exh")
        alphabet = [(w, k) for w in (0, 1) for k in ("A", "B", "C", "C2", "H")]
        import itertools
        for ln in (1, 2, 3, 4):
            for combo in itertools.product(alphabet, repeat=ln):
                cases.append({"writers": 2, "history": [[w, rec_of(k, r2)] for w, k in combo], "exh": True})
    return cases


def _desc_sig(rec):
    from flow.record import GroupedRecord
    if isinstance(rec, GroupedRecord):
        return ["grouped", rec.name, [_desc_sig(x) for x in rec.records]]
    d = rec._desc
    sig = [d.name, [list(t) for t in d.get_field_tuples()]]
    nested = []
    for t, n in d.get_field_tuples():
        v = getattr(rec, n)
        if t == "record" and v is not None:
            nested.append(_desc_sig(v))
        elif t == "record[]" and v:
            nested += [_desc_sig(x) for x in v]
    return sig + ([nested] if nested else [])


def _spec_sig(spec):
    """the same signature computed from the case SPEC (what the record was created as), independent of anything the
    library attaches to the built object"""
    if spec[0] == "grouped":
        return ["grouped", spec[1], [_spec_sig(x) for x in spec[2]]]
    name, fields = spec[1]
    sig = [name, [list(t) for t in fields]]
    nested = []
    for (t, _), v in zip(fields, spec[2]):
        if t == "record" and v[0] == "rec":
            nested.append(_spec_sig(v))
        elif t == "record[]" and v[0] == "list":
            nested += [_spec_sig(x) for x in v[1] if x[0] == "rec"]
    return sig + ([nested] if nested else [])


def _frame_kinds(data):
    """independent view of a binary stream: per frame 'H' (header) / 'D:name' / 'R' / 'G'"""
    import msgpack
    frames, clean = W.split_frames(data)
    kinds = []
    for _, body in frames:
        try:
            top = msgpack.unpackb(body, raw=False, ext_hook=lambda c, d: ("ext", c, d), use_list=False,
                                  unicode_errors="surrogateescape")
        except Exception as e:
            kinds.append("?" + type(e).__name__)
            continue
        if isinstance(top, bytes):
            kinds.append("H")
        elif isinstance(top, tuple) and top and top[0] == "ext":
            sub = msgpack.unpackb(top[2], raw=False, ext_hook=lambda c, d: ("ext", c, d), use_list=False,
                                  unicode_errors="surrogateescape")
            kinds.append({1: "R", 2: "D:" + str(sub[1][0]) if sub[0] == 2 else "D", 0x12: "G"}.get(sub[0], "?%r" % sub[0]))
        else:
            kinds.append("?")
    return kinds, clean


def run_real(case):
    from flow.record import RecordStreamReader, RecordStreamWriter
    from flow.record.adapter.jsonfile import JsonfileReader, JsonfileWriter

    with warnings.catch_warnings():
        warnings.simplefilter("ignore")
        nw = case["writers"]
        built = [(w, V.build(s)) for w, s in case["history"]]
        spec_of = {id(rec): s for (_, s), (_, rec) in zip(case["history"], built)}
        recs = []
        for idx, (w, rec) in enumerate(built):
            recs.append((w, rec))
            if idx in case.get("tee", ()):
                recs.append(((w + 1) % nw, rec))      # the SAME object goes to a second writer as well (a tee)
        for _, rec in recs:
            if getattr(rec, "s", None) == "\ud800" and getattr(rec, "n", None) == -1:
                rec.n = 10 ** 5000           # beyond CPython's int-to-text limit: json.dumps raises ValueError
        created = [[] for _ in range(nw)]
        out = {"bin": [], "json": [], "failed": 0}
        # ---- binary writers, all open at the same time
        bufs = [io.BytesIO() for _ in range(nw)]
        ws = [RecordStreamWriter(b) for b in bufs]
        attempts = [[] for _ in range(nw)]      # per writer: (object as the model sees it, None | descriptors met before the failure)
        for w, rec in recs:
            try:
                ws[w].write(rec)
                created[w].append(rec)
                attempts[w].append((rec, None))
            except (UnicodeEncodeError, ValueError, OverflowError):
                out["failed"] += 1          # an unserialisable record: the caller catches the error and carries on
                # a flat record fails after its own descriptor was met; the model only needs the descriptor
                attempts[w].append((rec._desc(), 1))
        for i in range(nw):
            ws[i].flush()
            data = bufs[i].getvalue()
            ws[i].fp = None
            try:
                got = list(RecordStreamReader(io.BytesIO(data)))
                err = None
            except Exception as e:
                got, err = [], type(e).__name__ + ": " + str(e)[:80]
            # the same stream read while the application keeps declaring equal descriptors of its own between records
            # (another reader on the same types, a module re-declaring its record types): the reader's bindings are its own
            got2, err2 = [], None
            try:
                from flow.record import GroupedRecord, RecordDescriptor
                for rec in RecordStreamReader(io.BytesIO(data)):
                    got2.append(rec)
                    for one in (rec.records if isinstance(rec, GroupedRecord) else [rec]):
                        RecordDescriptor(one._desc.name, list(one._desc.get_field_tuples()))
            except Exception as e:
                err2 = type(e).__name__ + ": " + str(e)[:80]
            kinds, clean = _frame_kinds(data)
            hashes = []
            for rec in created[i]:
                W.all_descs(rec, hashes)
            out["bin"].append({"stream": data.hex(), "error": err, "kinds": kinds,
                               "want_sig": [_desc_sig(r) for r in created[i]], "got_sig": [_desc_sig(r) for r in got],
                               "spec_sig": [_spec_sig(spec_of[id(r)]) for r in created[i]],
                               "want_obs": [V.observe(r) for r in created[i]], "got_obs": [V.observe(r) for r in got],
                               "pvs": [W.to_pv(r) for r in created[i]], "hashes": hashes,
                               "hist_pvs": [W.to_pv(r) for r, _ in attempts[i]], "hist_fails": [f for _, f in attempts[i]],
                               "redeclare_error": err2, "redeclare_sig": [_desc_sig(r) for r in got2]})
        # ---- the same histories through the stream ADAPTER (RecordWriter(path): adapter/stream.py's StreamWriter on a
        # real, seekable file), read back with RecordReader(path)
        import os
        import shutil
        import tempfile
        from flow.record import RecordReader, RecordWriter
        d0 = tempfile.mkdtemp(prefix="frv-c03a-")
        try:
            apaths = [os.path.join(d0, f"w{i}.records") for i in range(nw)]
            aw = [RecordWriter(p) for p in apaths]
            acreated = [[] for _ in range(nw)]
            for w, rec in recs:
                try:
                    aw[w].write(rec)
                    acreated[w].append(rec)
                except (UnicodeEncodeError, ValueError, OverflowError):
                    pass
            for i in range(nw):
                aw[i].flush()
                aw[i].close()
                data = open(apaths[i], "rb").read()
                try:
                    rd = RecordReader(apaths[i])
                    got = list(rd)
                    rd.close()
                    err = None
                except Exception as e:
                    got, err = [], type(e).__name__ + ": " + str(e)[:80]
                kinds, clean = _frame_kinds(data)
                out.setdefault("adp", []).append({
                    "error": err, "kinds": kinds, "spec_sig": [_spec_sig(spec_of[id(r)]) for r in acreated[i]],
                    "want_sig": [_desc_sig(r) for r in acreated[i]], "got_sig": [_desc_sig(r) for r in got],
                    "want_obs": [V.observe(r) for r in acreated[i]], "got_obs": [V.observe(r) for r in got]})
        finally:
            shutil.rmtree(d0, ignore_errors=True)
        # ---- JSON writers (nested records are not JSON-serialisable; a GROUP is: it goes out as one flat record of the
        # group's name whose fields are those of its members, each declared name once)
        def _is_group(x):
            return type(x).__name__ == "GroupedRecord"

        def _flat_spec(spec):
            fields, seen = [], set()
            for m_ in spec[2]:
                for t_, n_ in m_[1][1]:
                    if n_ not in seen:
                        seen.add(n_)
                        fields.append([t_, n_])
            return [spec[1], fields]

        def _jsig(r_):
            return _flat_spec(spec_of[id(r_)]) if _is_group(r_) else _spec_sig(spec_of[id(r_)])

        def _jobs(r_):
            if not _is_group(r_):
                return V.observe(r_)
            vals, seen = [], set()
            for m_ in r_.records:
                o_ = V.observe(m_)
                for (t_, n_), v_ in zip(o_[2], o_[3]):
                    if n_ not in seen:
                        seen.add(n_)
                        vals.append(v_)
            return ["flat", vals]

        def _jgot(g_, r_):
            if not _is_group(r_):
                return V.observe(g_)
            o_ = V.observe(g_)
            return ["flat", list(o_[3][:len(_flat_spec(spec_of[id(r_)])[1])])] if o_[0] == "rec" else o_

        flat = [(w, rec) for w, rec in recs
                if (_is_group(rec) and not any(t.startswith("record") for m_ in rec.records for t, _ in m_._desc.get_field_tuples()))
                or (not _is_group(rec) and not any(t.startswith("record") for t, _ in rec._desc.get_field_tuples()))]
        import os
        import shutil
        import tempfile
        d = tempfile.mkdtemp(prefix="frv-c03-")
        try:
            paths = [os.path.join(d, f"w{i}.jsonl") for i in range(nw)]
            jw = [JsonfileWriter(p) for p in paths]
            jcreated = [[] for _ in range(nw)]
            for w, rec in flat:
                try:
                    jw[w].write(rec)
                    jcreated[w].append(rec)
                except (UnicodeEncodeError, ValueError, OverflowError):
                    out["failed"] += 1
            for i in range(nw):
                jw[i].flush()
                jw[i].close()
                text = open(paths[i], encoding="utf-8", errors="surrogateescape").read()
                try:
                    rd = JsonfileReader(paths[i])
                    got = list(rd)
                    rd.close()
                    err = None
                except Exception as e:
                    got, err = [], type(e).__name__ + ": " + str(e)[:80]
                lines = ["D" if '"_type": "recorddescriptor"' in ln else "R" for ln in text.splitlines()]
                out["json"].append({"error": err, "kinds": lines,
                                    "spec_sig": [_jsig(r) for r in jcreated[i]],
                                    "want_sig": [_jsig(r) if _is_group(r) else _desc_sig(r) for r in jcreated[i]],
                                    "got_sig": [_desc_sig(r) for r in got],
                                    "want_obs": [_jobs(r) for r in jcreated[i]],
                                    "got_obs": [_jgot(g, r) for g, r in zip(got, jcreated[i])] + [V.observe(g) for g in got[len(jcreated[i]):]]})
        finally:
            shutil.rmtree(d, ignore_errors=True)
        return out


def has_inner_collision(case):
    def descs(spec, acc):
        if spec[0] == "grouped":
            for m in spec[2]:
                descs(m, acc)
        elif spec[0] == "rec":
            acc.append(spec[1])
            for v in spec[2]:
                if v[0] == "rec":
                    descs(v, acc)
                elif v[0] == "list":
                    for x in v[1]:
                        if x[0] == "rec":
                            descs(x, acc)
        return acc
    for _, spec in case["history"]:
        ds = descs(spec, [])
        if DA in ds and DB in ds:
            return True
    return False


def oracle(case, obs):
    tag = "[inner-collision] " if has_inner_collision(case) else ""
    for adapter in ("bin", "adp", "json"):
        for i, w in enumerate(obs.get(adapter, [])):
            who = f"{ {'adp': 'stream-adapter'}.get(adapter, adapter) } writer {i}"
            if w["error"]:
                return f"{tag}{who}: reading back raised {w['error']}"
            if len(w["got_sig"]) != len(w["want_sig"]):
                return f"{tag}{who}: wrote {len(w['want_sig'])} records, read {len(w['got_sig'])}"
            for k, (a, b) in enumerate(zip(w["want_sig"], w["got_sig"])):
                if a != b:
                    return f"{tag}{who}: record {k} created with descriptor {a} was read back with {b}"
            for k, (a, b) in enumerate(zip(w.get("spec_sig", []), w["got_sig"])):
                if a != b:
                    return f"{tag}{who}: record {k} declared as {a} was read back with {b}"
            for k, (a, b) in enumerate(zip(w["want_obs"], w["got_obs"])):
                if a != b:
                    return f"{tag}{who}: record {k} values differ after the round trip"
            if adapter == "bin" and not w["error"]:
                if w.get("redeclare_error"):
                    return (f"{tag}{who}: reading while equal descriptors are declared between records raised "
                            f"{w['redeclare_error']}")
                if w.get("redeclare_sig") != w["got_sig"]:
                    return f"{tag}{who}: reading while equal descriptors are declared between records yields other records"
            if w["kinds"] and adapter in ("bin", "adp"):
                if w["kinds"][0] != "H" or any(k.startswith("?") for k in w["kinds"]):
                    return f"{who}: unexpected frame kinds {w['kinds'][:6]}"
                if w["want_sig"] and w["kinds"][1][0] != "D":
                    return f"{who}: first frame after the header is not a descriptor: {w['kinds'][:4]}"
            if adapter == "json" and w["want_sig"] and w["kinds"] and w["kinds"][0] != "D":
                return f"{who}: first JSON line is not a descriptor"
    return None


def model_op(case, obs):
    # histories with a failing write go to the model's `writeHist` (C03_own_descriptor_failed_writes): the failed
    # attempt leaves its descriptor frames behind, exactly like the implementation's registration callback
    return [{"op": "wire_write", "objs": w["hist_pvs"], "fails": w["hist_fails"]} for w in obs["bin"]]


def compare(case, obs, mo):
    for i, (m, w) in enumerate(zip(mo, obs["bin"])):
        if not w["hist_pvs"]:
            continue
        if m.get("stream") != w["stream"]:
            a = bytes.fromhex(m.get("stream", ""))
            b = bytes.fromhex(w["stream"])
            j = next((q for q in range(min(len(a), len(b))) if a[q] != b[q]), min(len(a), len(b)))
            return (f"writer {i}: bytes differ at offset {j} (model {len(a)} bytes, implementation {len(b)}); "
                    f"implementation frame kinds {w['kinds'][:12]}")
    return None


def nontrivial(case, obs):
    if case["writers"] > 1 and len({w for w, _ in case["history"]}) > 1:
        return True
    names = [s[1][0] if s[0] == "rec" else "g" for _, s in case["history"]]
    return len(set(names)) < len(names) and len(case["history"]) >= 2


def classify(case, obs):
    out = [f"writers:{case['writers']}", f"len:{min(len(case['history']), 15)}"]
    for w in obs["bin"]:
        nd = sum(1 for k in w["kinds"] if k.startswith("D"))
        nr = sum(1 for k in w["kinds"] if k in ("R", "G"))
        if nr and nd > len({str(s[:2]) for s in w["want_sig"]}):
            out.append("re-emission")
    if case.get("exh"):
        out.append("exhaustive-block")
    return out


def shrink(case):
    h = case["history"]
    tee = case.get("tee", [])
    if len(h) > 1:
        for i in range(len(h)):
            yield dict(case, history=h[:i] + h[i + 1:], tee=[t if t < i else t - 1 for t in tee if t != i])
    if case["writers"] > 1:
        yield dict(case, writers=1, history=[[0, s] for _, s in h])


MATCHERS = {"inner_collision": lambda case, obs, failure: failure.startswith("[inner-collision]")}
