"""C02 — written bytes conform to the frozen RecordStream wire format; conforming streams are read.

impl2ref : implementation-encoded streams are (a) parsed by an independent Python walk over the published layout
           (oracle) and (b) decoded by the Lean reference reader to exactly the records written (compare).
ref2impl : streams assembled by harness/refcodec.py (independent encoder: free choice of msgpack size class, extra
           trailing reserved fields, no version field, name-only identifiers, repeated header) are decoded by the
           implementation (oracle: = the records they encode) and by the Lean reader (compare).
golden   : frozen corpus under /verif/golden written at the pinned revision, with the expected observations.
ident    : descriptor identifier = (name, first 4 bytes of SHA-256 over name + concat(fieldname + fieldtype)).
"""
import datetime as _dtm
import gzip
import io
import json
import os
import struct
import warnings

from .. import refcodec as RC
from .. import values as V
from .. import wire as W
from ..prng import Rng

ID = "C02"
VERIF = os.path.dirname(os.path.dirname(os.path.dirname(os.path.abspath(__file__))))
GOLDEN = os.path.join(VERIF, "golden")
CLAIM = dict(
    text="Kernel-checked: every wire constant / option / encoding-shape flag regenerated from packer.py, stream.py and "
         "base.py equals the hand-typed frozen specification (Spec/Wire.lean); header frame = published bytes; every "
         "frame is a 4-byte big-endian length + one msgpack document that decodes to the packed value (M1); the type-14 "
         "envelope payload is the document [sub-type, payload]; big-integer magnitude encoding is inverse to "
         "int.from_bytes for all naturals; compatibility rule for extra reserved fields / missing version; M2: EVERY "
         "encoding the msgpack format allows for a value (relation Encodes: any integer / length class wide enough, "
         "fixext for its exact sizes, float32) - what an independent conforming writer may emit - is decoded to that "
         "value, to any depth; the same at the ENVELOPE layer (C02_reencoded_payloads_same_value, "
         "C02_reencoded_frame_is_read: a frame whose extension payloads - and the payloads nested inside them, to "
         "any depth - were re-encoded by any conforming writer is decoded to exactly the object); M3: the packer's own "
         "output is one of them; the format is unambiguous; the identifier rule is executable inside the model (SHA-256, "
         "C02_sha256_vectors by kernel evaluation) and the model reader identifies descriptors with it. Tie: "
         "implementation bytes are decoded by the Lean reference reader to the records written; independently encoded "
         "conforming streams (non-minimal msgpack classes, older shapes) are decoded by the implementation; frozen "
         "golden corpus; identifiers re-computed with hashlib. FIELD VALUES: for every field whose encoding the Lean "
         "field layer states (Model/FieldPack.lean: text, integers, booleans, floats, bytes, digest, path, command, "
         "net.ipaddress, net.ipnetwork, typed lists - also lists that received elements in place) the typed value is "
         "observed through its public attributes, packed by the model (`packT`) and by a Python reference written from "
         "the format description, and both must equal what an independent msgpack decoder finds at that slot of the "
         "stream (the implementation's own _pack() is not consulted).",
    note="partial: 'streams archived from earlier releases' are represented by the shapes the compatibility code names "
         "(extra reserved fields, no version, name-only identifier) plus a golden corpus frozen at the pinned revision; "
         "no archive of historical files exists in the sandbox. SHA-256 is an executable definition inside the model, checked by the kernel on the standard vectors and against hashlib on every generated descriptor (no theorem relies on a property of the hash).",
    technique="Lean 4 `decide` obligations Gen = frozen Spec + induction over the msgpack format relation (all size "
              "classes) + reference decoder/encoder correspondence + golden corpus",
    design="8/C02")
RULE = ("impl2ref: record sequences as in C01; ref2impl: descriptor x records x shape{normal, extra reserved fields, "
        "unversioned, name-only id, bytes name id, repeated header} x PRNG-chosen msgpack size classes; golden: every "
        "file under golden/; ident: generated descriptor names/fields. Non-trivial = stream with >=1 record frame that "
        "uses >=1 ext sub-type besides record/descriptor, or a ref2impl stream with a non-minimal class or a "
        "compatibility shape; distinct by hash of the case.")
TRUSTED = ["msgpack-python as the *independent* parser in the impl2ref oracle", "hashlib SHA-256"]
ASSUMPTIONS = ["golden corpus was written by the pinned revision (+ fix: commits, none of which changes the format)"]
HEADER = b"\x00\x00\x00\x0f\xc4\x0dRECORDSTREAM\n"
SIMPLE = ["string", "varint", "bytes", "float", "boolean", "datetime", "uint16", "uint32", "wstring", "filesize"]


def EXHAUSTIVE(tier):
    return False


def gen_simple_value(r, t):
    if r.chance(10):
        return V.NONE
    if t == "datetime":
        return V.gen_dt_spec(r, tzkinds=("utc", "fixed"), fold_ok=False)
    return V.gen_value(r, t, none_chance=0)


def gen_cases(rng, tier):
    n = {"quick": 120, "thorough": 3000, "search": 500}[tier]
    cases = []
    r = rng.fork("impl2ref")
    types = list(V.SERIALISABLE)
    for _ in range(n):
        descs = [V.gen_descspec(r, types=types, nfields=r.choice([0, 1, 2, 3, 4, 5, 6])) for _ in range(r.randint(1, 2))]
        recs = [V.gen_record(r, descspec=r.choice(descs), types=types) for _ in range(r.randint(1, 5))]
        case = {"kind": "impl2ref", "records": recs}
        w = r.below(20)
        if w < 3:
            # comparison-ignore configuration in force while writing: it must not change what is stored
            names = [n for s_ in recs for _, n in s_[1][1]]
            case["ignore"] = r.choice([["_generated"], ["_source", "_classification"], names[:1], names + ["_version"]])
        elif w < 6:
            # grouped records: two groups with one name and the same flattened field list but different member types
            # (A(x)+B(y), then C(x, y)); member types may or may not have been written before
            fa, fb = [["string", "x"]], [["varint", "y"]]
            A, B, C = ["g/a", fa], ["g/b", fb], ["g/c", fa + fb]
            mk = lambda d: V.gen_record(r, descspec=d, types=types)   # noqa: E731
            g1 = ["grouped", "grp/same", [mk(A), mk(B)]]
            g2 = ["grouped", "grp/same", [mk(C)]]
            seq = [g1, g2] if r.chance(50) else [g2, g1]
            if r.chance(50):
                # one group holding two versions of ONE type name (a record and its extended form): both definitions
                # have to be in the stream before the group's frame
                A2 = ["g/a", fa + fb]
                seq.insert(r.randint(0, len(seq)), ["grouped", "grp/evo", [mk(A), mk(A2)] if r.chance(50) else [mk(A2), mk(A)]])
            if r.chance(30):
                seq.insert(r.randint(0, 2), mk(r.choice([A, B, C])))
            case["records"] = recs[:r.randint(0, 2)] + seq + recs[2:]
        elif w < 9:
            # list fields that received elements IN PLACE after the record was built (plain values: the typed list
            # converts them when the record is packed): the stream must hold the elements' published encodings
            lt = r.choice(["path[]", "net.ipaddress[]", "digest[]", "command[]", "uint16[]", "net.ipnetwork[]", "string[]"])
            ds = ["t/app", [["varint", "n"], [lt, "items"]]]
            raw = {"path[]": [V.S("/tmp/x"), V.S("rel/y"), V.S("")], "net.ipaddress[]": [["ip", "10.0.0.1"], ["ip", "::1"],
                   ["ip", "2001:db8::1"], ["ipint", str(2 ** 32)]], "digest[]": [["digest", ["d41d8cd98f00b204e9800998ecf8427e", None, None]]],
                   "command[]": [V.S("ls -la /tmp"), V.S("/bin/true")], "uint16[]": [V.I(7), V.I(65535)],
                   "net.ipnetwork[]": [["ipnet", "10.0.0.0/8"], ["ipnet", "2001:db8::/32"]], "string[]": [V.S("x"), V.S("")]}[lt]
            first = [r.choice(raw) for _ in range(r.randint(0, 2))]
            extra = [r.choice(raw) for _ in range(r.randint(1, 3))]
            case["records"] = recs[:r.randint(0, 1)] + [["rec", ds, [V.I(r.below(100)), ["list", first]], {"_append": {"items": extra}, "_generated": V.gen_dt_spec(r, tzkinds=("utc",), fold_ok=False)}]]
        elif w < 11:
            # two types of ONE name whose identifiers (name + first four bytes of the hash) coincide: each definition
            # has to be in the stream before the first record that uses it
            cx = [["t/x", [["stringlist", "a"], ["string", "b"]]], ["t/x", [["string", "a"], ["string", "listb"]]]]
            mk = lambda d: V.gen_record(r, descspec=d, types=types)   # noqa: E731
            seq = [mk(r.choice(cx)) for _ in range(r.randint(2, 5))]
            if len({repr(s_[1]) for s_ in seq}) == 1:
                seq.append(mk(cx[0] if seq[0][1] == cx[1] else cx[1]))
            case["records"] = recs[:r.randint(0, 1)] + seq
        elif w < 13:
            # the first record of a type cannot be serialised (the producer catches the error and carries on), then good
            # records of that type follow: the stream still holds each definition before its first record
            PF = ["t/pf", [["string", "s"], ["varint", "n"], ["dictlist", "d"]]]
            good = [["rec", PF, [V.S("ok%d" % i), V.I(i), ["list", []]], {"_generated": V.gen_dt_spec(r, tzkinds=("utc",), fold_ok=False)}]
                    for i in range(r.randint(1, 3))]
            case["records"] = recs[:r.randint(0, 1)] + good
            case["prefail"] = {"at": len(case["records"]) - len(good), "how": r.choice(["surrogate", "unpackable"])}
        elif 15 <= w < 17:
            # a record type made with the copy constructor RecordDescriptor(new name, descriptor in use): its identifier is
            # (new name, hash over the NEW name and the fields)
            base_ = V.gen_descspec(r, types=types, nfields=r.randint(1, 3))
            mkc = lambda: ["rec", ["clone/c" + str(r.below(3)), base_[1]], [V.gen_value(r, t_) for t_, _ in base_[1]],   # noqa: E731
                           {"_generated": V.gen_dt_spec(r, tzkinds=("utc",), fold_ok=False), "_clone_of": base_[0]}]
            case["records"] = recs[:r.randint(0, 1)] + [V.gen_record(r, descspec=base_, types=types)] + [mkc() for _ in range(r.randint(1, 2))]
        elif w < 15:
            # a grouped record written, one of its MEMBERS edited directly, the group written again: the second frame holds
            # the edited values
            fa, fb = [["string", "x"], ["varint", "n"]], [["string", "y"]]
            mk2 = lambda d, vals: ["rec", d, vals, {"_generated": V.gen_dt_spec(r, tzkinds=("utc",), fold_ok=False)}]   # noqa: E731
            g = ["grouped", "grp/rw", [mk2(["g/a", fa], [V.S("pending"), V.I(0)]), mk2(["g/b", fb], [V.S("y0")])]]
            case["records"] = recs[:r.randint(0, 1)] + [g]
            case["edit"] = [len(case["records"]) - 1, r.choice([[0, "x", V.S("done")], [0, "n", V.I(3)], [1, "y", V.S("y1")]])]
        cases.append(case)
    r = rng.fork("ref2impl")
    for _ in range(n):
        nf = r.randint(0, 5)          # 0: a type without declared fields (marker / heartbeat records)
        names = r.sample(V.FNAMES[:10], nf)
        fields = [[r.choice(SIMPLE), fn] for fn in names]
        ds = [r.choice(["test/ref", "a/b/c", "x"]), fields]
        recs = []
        for _ in range(r.randint(1, 4)):
            vals = [gen_simple_value(r, t) for t, _ in fields]
            meta = {"_source": r.choice([V.NONE, V.S("src")]), "_classification": r.choice([V.NONE, V.S("c")]),
                    "_generated": V.gen_dt_spec(r, tzkinds=("utc",), fold_ok=False)}
            recs.append({"vals": vals, "meta": meta,
                         "shape": r.choice(["normal", "normal", "extra", "unversioned", "name-only", "name-bytes"]),
                         "extra": r.randint(1, 3), "version": r.choice([1, 1, 1, 2, 255])})
        case = {"kind": "ref2impl", "desc": ds, "records": recs, "seed": r.below(2 ** 32),
                "minimal": r.chance(25), "rehdr": r.chance(15)}
        if nf and r.chance(12):
            # a descriptor that lists one (type, name) pair twice - what `desc.extend([...])` with an already present
            # field produced in earlier releases: the frame (and the identifier) carry the duplicate, records one value
            case["dup"] = r.below(nf)
        cases.append(case)
    # a field value larger than a megabyte (the format has no limit below 2^32 - 1 bytes per string / binary)
    for t, size in (("bytes", 1100000), ("string", 1048577)):
        cases.append({"kind": "ref2impl", "desc": ["test/big", [[t, "blob"], ["varint", "n"]]],
                      "records": [{"vals": [["zeros", size] if t == "bytes" else ["spaces", size], V.I(1)],
                                   "meta": {"_source": V.NONE, "_classification": V.NONE,
                                            "_generated": ["dt", [2020, 1, 2, 3, 4, 5, 6], "utc", 0]},
                                   "shape": "normal", "extra": 1, "version": 1}],
                      "seed": 1, "minimal": True, "rehdr": False, "big": True})
    for fn in sorted(os.listdir(GOLDEN)) if os.path.isdir(GOLDEN) else []:
        if fn.endswith(".json"):
            cases.append({"kind": "golden", "file": fn[:-5]})
    r = rng.fork("ident")
    for _ in range(n // 2):
        nf = r.randint(0, 6)
        names = r.sample(V.FNAMES, nf)
        cases.append({"kind": "ident", "name": r.choice(V.TNAMES + ["t/x", "a" * 40]),
                      "fields": [[r.choice(V.SERIALISABLE) + ("[]" if r.chance(20) else ""), fn] for fn in names]})
    for L in (1, 54, 55, 56, 57, 63, 64, 65, 118, 119, 120, 121, 128, 183, 184):
        # hash input lengths around the SHA-256 padding boundaries (one / two / three blocks)
        cases.append({"kind": "ident", "name": "t/" + "a" * (L - 2) if L > 2 else "t"[:L], "fields": []})
        if L > 12:
            cases.append({"kind": "ident", "name": "t/" + "b" * (L - 12), "fields": [["string", "abcd"]]})
    cases.append({"kind": "ident", "name": "t/x", "fields": [["stringlist", "a"], ["string", "b"]]})
    cases.append({"kind": "ident", "name": "t/x", "fields": [["string", "a"], ["string", "listb"]]})
    return cases


def spec_to_pv(v):
    """value spec -> packed-level PV JSON, written from the format description (no flow.record involved)"""
    k = v[0]
    if k == "none":
        return ["N"]
    if k == "bool":
        return ["B", bool(v[1])]
    if k == "int":
        return ["I", v[1]]
    if k == "float":
        return ["F", v[1]]
    if k == "str":
        return ["S", v[1]]
    if k == "bytes":
        return ["Y", v[1]]
    if k == "zeros":
        return ["Y", "00" * int(v[1])]
    if k == "spaces":
        return ["S", "00000020" * int(v[1])]
    if k == "dt":
        y, mo, d, h, mi, s, us = v[1]
        tz = v[2]
        if tz in ("utc", "naive"):
            return ["TU", [y, mo, d, h, mi, s, us]]
        dt = _dtm.datetime(y, mo, d, h, mi, s, us, tzinfo=V.tz_of(tz))
        if dt.utcoffset() == _dtm.timedelta(0):
            # the implementation's writer would use the tuple form; an independent writer may use either
            return ["TI", V.enc_str(dt.isoformat())]
        return ["TI", V.enc_str(dt.isoformat())]
    raise ValueError(k)


def _frame_fields(case):
    """the field list as the descriptor frame carries it (with the duplicated pair, if any)"""
    fields = list(case["desc"][1])
    if case.get("dup") is not None:
        fields = fields + [fields[case["dup"]]]
    return fields


def build_ref_stream(case):
    rng = Rng(case["seed"])
    choose = (lambda n: 0) if case.get("minimal") else (lambda n: rng.below(n))
    enc = RC.Enc(choose)
    name, fields = case["desc"]
    fields = _frame_fields(case)
    out = RC.header(enc) + RC.frame(enc.descriptor(name, fields))
    for i, rec in enumerate(case["records"]):
        if case.get("rehdr") and i == 1:
            out += RC.header(enc)          # concatenated streams repeat the header and the descriptors
            out += RC.frame(enc.descriptor(name, fields))
        vals = [spec_to_pv(v) for v in rec["vals"]]
        meta = [spec_to_pv(rec["meta"]["_source"]), spec_to_pv(rec["meta"]["_classification"]),
                spec_to_pv(rec["meta"]["_generated"])]
        shape = rec["shape"]
        version = ["I", str(rec["version"])]
        if shape == "extra":
            allv = vals + meta + [["S", V.enc_str("future")]] * rec["extra"] + [version]
        elif shape == "unversioned":
            allv = vals + meta
        else:
            allv = vals + meta + [version]
        style = {"name-only": "name-only", "name-bytes": "name-bytes"}.get(shape, "versioned")
        body = enc.envelope(RC.SUB_RECORD, enc.record_tuple(["R", [name, fields], allv], style))
        out += RC.frame(body)
    return out


def walk_stream(data):
    """independent conformance walk over an implementation-written stream; returns a problem string or None"""
    import msgpack
    if not data.startswith(HEADER):
        return "stream does not start with the published header frame"
    frames, clean = W.split_frames(data)
    if not clean:
        return "stream does not end on a frame boundary"
    reg = {}

    def unpack(b):
        return msgpack.unpackb(b, raw=False, use_list=False, unicode_errors="surrogateescape", strict_map_key=False,
                               ext_hook=lambda c, d: ("__ext__", c, d))

    def check_value(v, where):
        if isinstance(v, tuple) and len(v) == 3 and v[0] == "__ext__":
            if v[1] != 14:
                return f"{where}: extension type {v[1]} (published: 14)"
            inner = unpack(v[2])
            if not (isinstance(inner, tuple) and len(inner) == 2):
                return f"{where}: envelope payload is not [sub-type, payload]"
            sub, payload = inner
            if sub == 2:
                nm, fs = payload
                reg[nm] = [tuple(f) for f in fs]
                reg[(nm, RC.ident_hash(nm, fs))] = [tuple(f) for f in fs]
                return None
            if sub == 1:
                ident, values = payload
                if not (isinstance(ident, tuple) and len(ident) == 2):
                    return f"{where}: record identifier {ident!r} is not (name, hash)"
                if ident not in reg:
                    return (f"{where}: record identifier {ident!r} does not equal (name, first 4 bytes of SHA-256 over "
                            f"name+fields) of any descriptor defined before it in this stream")
                if len(values) != len(reg[ident]) + 4:
                    return f"{where}: {len(values)} values for {len(reg[ident])} fields + 4 reserved"
                if values[-1] != 1:
                    return f"{where}: version field is {values[-1]!r}"
                for x in values:
                    p = check_value(x, where)
                    if p:
                        return p
                return None
            if sub == 0x10:
                if not (isinstance(payload, tuple) and (len(payload) == 7 or (len(payload) == 1 and isinstance(payload[0], str)))):
                    return f"{where}: timestamp payload {payload!r}"
                return None
            if sub == 0x11:
                if not (isinstance(payload, tuple) and len(payload) == 2 and isinstance(payload[0], bool)
                        and isinstance(payload[1], bytes)):
                    return f"{where}: big integer payload {payload!r}"
                return None
            if sub == 0x12:
                gname, members = payload
                for m in members:
                    ident, values = m
                    if ident not in reg:
                        return f"{where}: grouped member identifier {ident!r} not defined before use"
                    for x in values:
                        p = check_value(x, where)
                        if p:
                            return p
                return None
            return f"{where}: unknown sub-type {sub}"
        if isinstance(v, tuple):
            for x in v:
                p = check_value(x, where)
                if p:
                    return p
        if isinstance(v, dict):
            for x in v.values():
                p = check_value(x, where)
                if p:
                    return p
        return None

    for i, (off, body) in enumerate(frames):
        try:
            top = unpack(body)
        except Exception as e:
            return f"frame {i}: not one msgpack document ({type(e).__name__})"
        if i == 0:
            if top != b"RECORDSTREAM\n":
                return "frame 0 is not the magic"
            continue
        if not (isinstance(top, tuple) and len(top) == 3 and top[0] == "__ext__"):
            return f"frame {i}: top-level value is not a type-14 extension"
        p = check_value(top, f"frame {i}")
        if p:
            return p
    return None


def decode_independent(data):
    """top-level records of an implementation-written stream as an independent msgpack decoder sees them: per record
    (or per member of a grouped record) the list of packed values in RV JSON; None where the walk cannot follow"""
    import msgpack

    def unpack(b):
        return msgpack.unpackb(b, raw=False, use_list=False, unicode_errors="surrogateescape", strict_map_key=False,
                               ext_hook=lambda c, d: ("__ext__", c, d))

    def rv(v):
        if v is None:
            return ["N"]
        if isinstance(v, bool):
            return ["B", v]
        if isinstance(v, int):
            return ["I", str(v)]
        if isinstance(v, float):
            return ["F", struct.pack(">d", v).hex()]
        if isinstance(v, str):
            return ["S", V.enc_str(v)]
        if isinstance(v, bytes):
            return ["Y", v.hex()]
        if isinstance(v, tuple) and len(v) == 3 and v[0] == "__ext__":
            sub, payload = unpack(v[2])
            if sub == 0x11:
                n = int.from_bytes(payload[1], "big")
                return ["I", str(-n if payload[0] else n)]
            return ["EXT", sub]
        if isinstance(v, tuple):
            return ["T", [rv(x) for x in v]]
        return ["?", type(v).__name__]

    out = []
    bound = {}           # identifier -> field list of the definition most recently seen for it
    try:
        frames, _ = W.split_frames(data)
        for off, body in frames[1:]:
            top = unpack(body)
            sub, payload = unpack(top[2])
            if sub == 2:
                nm, fs = payload
                bound[(nm, RC.ident_hash(nm, fs))] = [[t, n] for t, n in fs]
            elif sub == 1:
                out.append([None, [rv(x) for x in payload[1]], bound.get(tuple(payload[0]))])
            elif sub == 0x12:
                out.append(["G", [[rv(x) for x in m[1]] for m in payload[1]], [bound.get(tuple(m[0])) for m in payload[1]]])
    except Exception:          # noqa: BLE001
        return None
    return out


def ref_pack(kind, tv):
    """the published encoding of a typed field value, written from the format description (RV JSON); the Lean field
    layer states the same and is compared separately"""
    if tv[0] == "U":
        return ["N"]
    if isinstance(kind, list):
        return ["T", [ref_pack(kind[1], x) for x in tv[1]]]
    if kind == "text":
        return ["S", tv[1]]
    if kind in ("int", "float", "bool", "bytes"):
        return [{"int": "I", "float": "F", "bool": "B", "bytes": "Y"}[kind], tv[1]]
    if kind == "digest":
        return ["T", [["N"] if x is None else ["Y", bytes.fromhex(V.dec_str(x)).hex()] for x in tv[1:4]]]
    if kind == "path":
        return ["T", [["S", tv[2]], ["I", str(tv[1])]]]
    if kind == "command":
        if tv[2] is None:
            return ["T", [["N"], ["I", str(tv[1])]]]
        return ["T", [["T", [["S", tv[2]], ["T", [["S", a] for a in tv[3]]]]], ["I", str(tv[1])]]]
    if kind == "ip":
        return ["I", tv[2]]
    if kind == "ipnet":
        return ["S", tv[1]]
    raise ValueError(kind)


def _read(data):
    from flow.record import RecordStreamReader
    try:
        got = list(RecordStreamReader(io.BytesIO(data)))
        return got, None
    except Exception as e:
        return [], type(e).__name__ + ": " + str(e)[:100]


def run_real(case):
    from flow.record import RecordDescriptor, RecordStreamWriter

    k = case["kind"]
    with warnings.catch_warnings():
        warnings.simplefilter("ignore")
        if k == "ident":
            d = RecordDescriptor(case["name"], [tuple(f) for f in case["fields"]])
            return {"identifier": [d.identifier[0], d.identifier[1]]}
        if k == "impl2ref":
            recs = [V.build(s) for s in case["records"]]
            buf = io.BytesIO()
            w = RecordStreamWriter(buf)
            import flow.record.base as _B
            _saved = set(_B.IGNORE_FIELDS_FOR_COMPARISON)
            if case.get("ignore"):
                _B.set_ignored_fields_for_comparison(list(case["ignore"]))
            try:
                pf = case.get("prefail")
                for i_, r in enumerate(recs):
                    if pf and i_ == pf["at"]:
                        bad = r._desc(s="\ud800", n=1, d=[]) if pf["how"] == "surrogate" else r._desc(s="x", n=1, d=[{"k": {1, 2}}])
                        try:
                            w.write(bad)
                        except Exception:          # noqa: BLE001
                            pass
                    w.write(r)
                edited_rv = None
                if case.get("edit"):
                    gi, (mi, fname, vspec) = case["edit"]
                    first_rv = W.to_rv(recs[gi])
                    setattr(recs[gi].records[mi], fname, V.build(vspec))
                    w.write(recs[gi])
                    edited_rv = W.to_rv(recs[gi])
                w.flush()
            finally:
                _B.set_ignored_fields_for_comparison(_saved)
            data = buf.getvalue()
            w.fp = None
            hashes = []
            for r in recs:
                W.all_descs(r, hashes)
            # what the stream must hold is derived from records that had every element from the start
            eq = [V.build(V.merge_append(s)) if s[0] == "rec" and len(s) > 3 and (s[3] or {}).get("_append") else r
                  for s, r in zip(case["records"], recs)]
            exp = [W.to_rv(r) for r in eq]
            if edited_rv is not None:
                exp[case["edit"][0]] = first_rv          # as it was when it was written the first time
                exp.append(edited_rv)
            return {"stream": data.hex(), "expected_rvs": exp, "hashes": hashes,
                    "walk": walk_stream(data), "typed": _typed_fields(eq) if edited_rv is None else [],
                    "held": decode_independent(data), "n_written": len(exp)}
        if k == "ref2impl":
            data = build_ref_stream(case)
            got, err = _read(data)
            name, fields = case["desc"][0], _frame_fields(case)
            want = []
            for rec in case["records"]:
                spec = ["rec", [name, fields], rec["vals"], rec["meta"]]
                want.append(V.observe(V.build(spec)))
            hashes = [[V.enc_str(name), [[V.enc_str(t), V.enc_str(n)] for t, n in fields], RC.ident_hash(name, fields)]]
            return {"stream": data.hex(), "error": err, "got": [V.observe(r) for r in got], "want": want,
                    "rvs": [W.to_rv(r) for r in got], "hashes": hashes}
        if k == "golden":
            meta = json.load(open(os.path.join(GOLDEN, case["file"] + ".json")))
            raw = open(os.path.join(GOLDEN, meta["stream_file"]), "rb").read()
            data = gzip.decompress(raw) if meta["stream_file"].endswith(".gz") else raw
            from flow.record import RecordReader
            try:
                rd = RecordReader(os.path.join(GOLDEN, meta["stream_file"]))
                got = list(rd)
                rd.close()
                err = None
            except Exception as e:
                got, err = [], type(e).__name__ + ": " + str(e)[:100]
            return {"stream": data.hex(), "error": err, "got": [V.observe(r) for r in got], "want": meta["obs"],
                    "rvs": [W.to_rv(r) for r in got], "want_rvs": meta["rvs"], "hashes": meta["hashes"]}
    raise ValueError(k)


def _typed_fields(recs):
    """[[record index, member index or None, slot, kind, TVal]] for the fields whose published encoding the Lean
    field layer (Model/FieldPack.lean) states: the typed value is observed through its public attributes, NOT _pack()"""
    from flow.record import GroupedRecord
    from .C01 import FIELD_KINDS, kind_of, tval_of
    out = []
    for i, rec in enumerate(recs):
        members = list(enumerate(rec.records)) if isinstance(rec, GroupedRecord) else [(None, rec)]
        for mi, m in members:
            for slot, (t, name) in enumerate(m._desc.get_field_tuples()):
                if (t[:-2] if t.endswith("[]") else t) in FIELD_KINDS:
                    try:
                        out.append([i, mi, slot, kind_of(t), tval_of(getattr(m, name), t)])
                    except Exception:      # noqa: BLE001  (a value object that cannot be observed)
                        out.append([i, mi, slot, kind_of(t), ["?"]])
    return out


def _pv_as_rv(j):
    return ["T", [_pv_as_rv(x) for x in j[1]]] if j[0] == "L" else j


def _first_diff(a, b):
    from .C01 import first_diff
    return first_diff(a, b)


def oracle(case, obs):
    k = case["kind"]
    if k == "ident":
        want = [case["name"], RC.ident_hash(case["name"], case["fields"])]
        if obs["identifier"] != want:
            return f"descriptor identifier {obs['identifier']} != published rule {want}"
        return None
    if k == "impl2ref":
        if obs["walk"]:
            return "implementation-written stream does not conform to the published layout: " + obs["walk"]
        held = obs.get("held")
        if held is None:
            return "implementation-written stream cannot be followed by an independent msgpack decoder"
        tops = [h for h in held]
        nw = obs.get("n_written", len(case["records"]))
        if len(tops) != nw:
            return f"{nw} records written, an independent decoder finds {len(tops)} record frames"
        # the definition in force for each record frame (the one most recently written for its identifier) is the
        # definition of the record that was written
        for i, (spec, h) in enumerate(zip(case["records"], tops)):
            want_defs = [spec[1][1]] if spec[0] == "rec" else [m[1][1] for m in spec[2]]
            got_defs = [h[2]] if spec[0] == "rec" else h[2]
            uniq = lambda fs: [f for j, f in enumerate(fs) if f[1] not in [g[1] for g in fs[:j]]]   # noqa: E731
            for wd, gd in zip(want_defs, got_defs):
                if gd is None or uniq([list(f) for f in gd]) != uniq([list(f) for f in wd]) and [list(f) for f in gd] != [list(f) for f in wd]:
                    return (f"record {i}: the definition in force for its identifier when its frame is reached declares "
                            f"{gd}, the record was written with {wd}")
        if case.get("edit") and tops and tops[-1][0] == "G":
            want_members = [m[2] for m in obs["expected_rvs"][-1][2]]
            for mi_, (wv, hv) in enumerate(zip(want_members, tops[-1][1])):
                for sl_, (a_, b_) in enumerate(zip(wv, hv)):
                    if b_[0] != "EXT" and a_[0] in ("I", "S", "N", "B") and a_ != b_:
                        return (f"a grouped record written again after member {mi_} was edited: slot {sl_} of that member holds "
                                f"{json.dumps(b_)[:80]} in the second frame, the value at the time of writing is {json.dumps(a_)[:80]}")
        for i, mi, slot, kind, tv in obs.get("typed", []):
            if tv == ["?"]:
                continue
            try:
                vals = tops[i][1] if mi is None else tops[i][1][mi]
                got = vals[slot]
            except Exception:          # noqa: BLE001
                return f"record {i}: slot {slot} is missing from what an independent decoder reads"
            want = ref_pack(kind, tv)
            if got != want:
                return (f"record {i} slot {slot} ({kind if isinstance(kind, str) else kind[1] + '[]'}): the stream holds "
                        f"{json.dumps(got)[:140]}, the published encoding of the value written is {json.dumps(want)[:140]}")
        return None
    if obs["error"]:
        return f"conforming stream ({k}) is not read: {obs['error']}"
    if len(obs["got"]) != len(obs["want"]):
        return f"conforming stream ({k}) holds {len(obs['want'])} records, {len(obs['got'])} were read"
    d = _first_diff(obs["want"], obs["got"])
    if d:
        return f"conforming stream ({k}) is read as different records: {d}"
    return None


def model_op(case, obs):
    if case["kind"] == "ident":
        # the published identifier rule computed by the model's own SHA-256 (Spec.descriptorHash)
        return {"op": "ident", "name": V.enc_str(case["name"]),
                "fields": [[V.enc_str(t), V.enc_str(n)] for t, n in case["fields"]]}
    # no "hashes" table: the model reader identifies received descriptors by the published rule itself
    if case["kind"] == "impl2ref":
        return [{"op": "wire_read", "hex": obs["stream"]}] + \
            [{"op": "c01_field", "kind": k, "val": tv} for _, _, _, k, tv in obs.get("typed", [])]
    return {"op": "wire_read", "hex": obs["stream"]}


def compare(case, obs, mo):
    k = case["kind"]
    if k == "ident":
        if mo.get("hash") != obs["identifier"][1]:
            return f"descriptor hash: model (Spec.descriptorHash) {mo.get('hash')} vs implementation {obs['identifier'][1]}"
        return None
    packs = []
    if k == "impl2ref":
        mo, packs = mo[0], mo[1:]
    if "records" not in mo:
        return f"model error: {mo}"
    got = W.canon_model_rv(mo["records"])
    if k == "impl2ref":
        if mo["end"] != "eof":
            return f"reference reader ends with {mo['end']} on an implementation-written stream"
        d = _first_diff(obs["expected_rvs"], got)
        if d:
            return "reference decoder reads the implementation's bytes as different records than were written: " + d
        # field values: the model's field layer packs the typed value; the stream must hold exactly that
        for (i, mi, slot, kind, tv), pk in zip(obs.get("typed", []), packs):
            if not isinstance(pk, dict) or pk.get("packed") is None:
                return f"record {i} slot {slot}: the field layer of the model cannot pack {tv} as {kind}"
            try:
                rec = got[i] if mi is None else got[i][2][mi]
                held = rec[2][slot]
            except Exception:          # noqa: BLE001
                return f"record {i} slot {slot}: not present in what the reference decoder read"
            want = _pv_as_rv(pk["packed"])
            if held != want:
                return (f"record {i} slot {slot} ({kind}): the stream holds {json.dumps(held)[:160]}, the published "
                        f"encoding of the value written is {json.dumps(want)[:160]}")
        return None
    if obs["error"] is None:
        if mo["end"] != "eof":
            return f"reference reader ends with {mo['end']}, implementation reads cleanly"
        want = obs["want_rvs"] if k == "golden" else obs["rvs"]
        # the record constructor always stamps the current RECORD_VERSION (and supplies it when the stream has none):
        # the frame-level model keeps what the stream holds, so the version slot is normalised before comparing
        for rec in got:
            if isinstance(rec, list) and rec and rec[0] == "R":
                nslots = len({f[1] for f in rec[1][1]}) + 4      # a field name listed twice is one slot
                if len(rec[2]) == nslots - 1:
                    rec[2].append(["I", "1"])
                elif len(rec[2]) == nslots and rec[2][-1][0] == "I":
                    rec[2][-1] = ["I", "1"]
        d = _first_diff(want, got)
        return ("reference reader vs implementation (packed level): " + d) if d else None
    return None


def nontrivial(case, obs):
    k = case["kind"]
    if k == "impl2ref":
        s = json.dumps(obs["expected_rvs"])
        return '"DTC"' in s or '"R", [' in s[10:] or '"G"' in s
    if k == "ref2impl":
        return (not case.get("minimal")) or any(r["shape"] != "normal" for r in case["records"])
    return True


def classify(case, obs):
    k = case["kind"]
    if k == "ref2impl":
        return ["ref2impl"] + sorted({"shape:" + r["shape"] for r in case["records"]}) + \
            (["minimal-classes"] if case.get("minimal") else ["free-classes"]) + (["repeated-header"] if case.get("rehdr") else [])
    return k


def shrink(case):
    if case["kind"] in ("impl2ref", "ref2impl") and len(case["records"]) > 1:
        for i in range(len(case["records"])):
            yield dict(case, records=case["records"][:i] + case["records"][i + 1:])
