"""C09 — the interpreted selector is a sandbox.

hostile : a grammar of hostile call / attribute shapes (every AST spelling of a call target: name, attribute chain,
          call result, constant, parenthesised operator expression, generator variable, generator variable named like
          a whitelisted type / helper, lambda, subscript, starred / ** arguments, dunder attribute and dunder name)
          nested inside every supported construct, evaluated by the real interpreted engine over a real Record whose
          fields hold instrumented canaries (a generic object whose every attribute is a callable canary, and a str
          subclass whose methods log their caller). Oracle: no canary is invoked *directly by the engine*, no dunder
          attribute of a canary is read, tripwire file absent, record unchanged, and an error is raised for every
          refused shape.
benign  : allowed calls and attribute reads (helpers, constructors, str/any/all) — they must still work.
The instrumented Lean model (interpMatch: effect trace) is run on the same expression and record; its error class
and the sequence of whitelisted helpers it calls are compared with the real engine's (helpers are wrapped from the
outside by replacing selector.FUNCTION_WHITELIST for the duration of the call).
"""
import os
import sys
import tempfile

from harness import selector_ast as SA

ID = "C09"
CLAIM = dict(
    text="Kernel-checked safety invariant of an instrumented transcription of RecordContextMatcher._eval, for every "
         "expression, every fuel/state and every (adversarial) semantics of the primitives: every callable the engine "
         "invokes is one bound at namespace construction (str repr fields any all + FUNCTION_WHITELIST, read from the "
         "extracted key lists) or a constructor resolved through the extracted WHITELIST; a call whose target is "
         "anything else is refused before target or arguments are evaluated (state untouched); no attribute whose "
         "name starts with __ is read, and an unbound __ name is refused before the whitelist-module fallback; acceptance of a call target never depends on the namespace; the record "
         "component of the state is unchanged. Tie: translator (tables + structural flags of the Call/Attribute/"
         "GeneratorExp branches) + hostile-shape grammar on the real engine with canaries, compared with the "
         "model's trace.",
    note="partial: operators, str/repr, iteration and attribute reads run the operands' own special methods (outside "
         "the invariant, as the property says); whitelisted helpers may read any attribute name they are given "
         "(field_contains(r, ['__class__'], ...)); a non-dunder Name that is not in the namespace is looked up on the "
         "whitelist module object (nothing is callable through it); record immutability is by construction in the "
         "model and checked by observation.",
    technique="Lean 4 invariant proof over an effect trace + hostile-grammar correspondence with canaries",
    design="8/C09")
RULE = ("case = hostile or benign sub-expression H (shape) placed in a context (bare, comparison, chained comparison, "
        "not/and/or, list/tuple element, arithmetic, helper argument (positional / keyword), constructor argument, "
        "generator element / iterable / condition, membership, attribute base); quick: every shape x every context "
        "once (finite product) plus seeded deeper nestings; non-trivial = the expression contains at least one call "
        "whose target is not a bare whitelisted name, or a dunder access; distinct by hash of the case.")
TRUSTED = ["canary instrumentation (str subclass / generic object) observes every Python-level invocation; "
           "C-level special-method calls made by operators are outside the property"]
ASSUMPTIONS = ["the engine is driven through Selector(expr).match(record) (the public entry point)"]
EXPLANATION = "shape x context product is enumerated completely in every tier; deeper nestings are seeded"

HELPERS = ["lower", "upper", "name", "names", "get_type", "field_contains", "field_equals", "field_regex", "has_field"]

# (label, source, refused): refused = evaluation must end in an error
SHAPES = [
    # --- names
    ("name:unknown", "evil()", True), ("name:open", "open('{TRIP}', 'w')", True), ("name:eval", "eval('1')", True),
    ("name:getattr", "getattr(r, 's')", True), ("name:import", "__import__('os')", True),
    ("name:type", "type(r)", True), ("name:r", "r()", True), ("name:Type", "Type()", True),
    # --- attribute chains
    ("attr:canary", "r.c()", True), ("attr:canary2", "r.c.m()", True), ("attr:canary3", "r.c.a.b.d()", True),
    ("attr:strmethod", "r.s.upper()", True), ("attr:strmethod2", "r.s.strip().lower()", True),
    ("attr:fields", "r._desc.getfields('string')", True), ("attr:type", "Type.string.x()", True),
    ("attr:helper_attr", "upper.anything()", True), ("attr:net_bogus", "net.bogus()", True),
    ("attr:net_partial", "net.ipv4()", True),
    # --- call results
    ("callres:a", "lower(r.s).upper()", True), ("callres:b", "upper(r.c)()", True),
    ("callres:c", "str(r.s).strip()", True), ("callres:d", "r.c()()", True),
    ("callres:e", "net.ipaddress('1.2.3.4').val()", True),
    # a call result in the MIDDLE of a call target whose outer names, joined, spell a whitelisted type path
    ("callres:wl_join", "net.ipv4(r.c()).Subnet('10.0.0.0/8')", True), ("callres:wl_join2", "net(r.c.fire()).ipaddress('1.2.3.4')", True),
    ("callres:wl_join3", "net.tcp(r.c).Port(80)", True), ("callres:wl_join4", "net(upper.__globals__).ipnetwork('10.0.0.0/8')", True),
    ("callres:wl_join5", "net.ipv4(__import__('os').getpid()).Address('1.2.3.4')", True),
    # a method named like a whitelisted helper, with the helper's arity (a resolver that drops the receiver would
    # silently call the helper instead of refusing)
    ("callres:helper_named", "lower(r.s).upper(r.t)", True), ("const:helper_named", "'abc'.lower('X')", True),
    ("attr:helper_named", "r.c.upper('x')", True), ("attr:helper_named2", "r.s.name(r)", True),
    ("attr:helper_named3", "r.c.d.has_field(r, 's')", True), ("subscript:helper_named", "r.l[0].upper('x')", True),
    # --- constants
    ("const:str", "'abc'.upper()", True), ("const:int", "(1).bit_length()", True), ("const:bytes", "b'x'.hex()", True),
    ("const:none", "None()", True), ("const:strcall", "'abc'()", True), ("const:format", "'{}'.format(r.c)", True),
    # --- parenthesised operator expressions
    ("paren:add", "(r.s + 'x').upper()", True), ("paren:or", "(r.c or r.c)()", True), ("paren:not", "(not r.c)()", True),
    ("paren:cmp", "(r.c == 1)()", True), ("paren:tuple", "(r.c,)()", True), ("paren:list", "[r.c]()", True),
    # --- generator variables
    ("genvar:call", "any(f() for f in [r.c])", True), ("genvar:attr", "any(f.m() for f in [r.c])", True),
    ("genvar:method", "any(f() for f in [r.s.upper])", True), ("genvar:all", "all(f() for f in (r.c, r.c))", True),
    ("genvar:nested", "any(any(g() for g in [f]) for f in [r.c])", True),
    ("genvar:cond", "any(1 for f in [r.c] if f())", True),
    # a generator expression consumed by an operator, with no call evaluated before it
    ("genvar:in", "1 in (f() for f in [r.c])", True), ("genvar:in_method", "'ABC' in (f() for f in [r.s.upper])", True),
    ("genvar:notin", "1 not in (f() for f in [r.c])", True), ("genvar:in_attr", "1 in (f.m() for f in [r.c])", True), ("genvar:iter", "any(1 for f in [r.c] for g in f())", True),
    # --- generator variables named like whitelisted types / helpers / namespace keys
    ("gentype:path", "any(path() for path in [r.c])", True), ("gentype:string", "any(string('x') == 'x' for string in [r.c])", False),
    ("gentype:uri", "any(uri() for uri in [r.s.upper])", True), ("gentype:net", "any(net.ipaddress('1.2.3.4') == '1.2.3.4' for net in [r.c])", False),
    ("gentype:helper", "any(upper() for upper in [r.c])", True), ("gentype:str", "any(str() for str in [r.c])", True),
    ("gentype:r", "any(r() for r in [r.c])", True), ("gentype:any", "any(any() for any in [r.c])", True),
    # --- lambda, subscript, conditional, comprehension, starred (shapes that are neither a call of a foreign
    #     callable nor a dunder access carry no "must raise" expectation: only "nothing foreign is invoked")
    ("lambda:call", "(lambda: r.c())()", True), ("lambda:value", "(lambda: 1)", False),
    ("subscript:call", "[r.c][0]()", True), ("subscript:value", "r.l[0]", False), ("ifexp", "(r.c if True else 1)()", True),
    ("listcomp", "[f() for f in [r.c]]", True), ("dict", "{'a': r.c}['a']()", True), ("set", "{r.n}", False),
    ("starred", "upper(*[r.c])", False), ("starstar", "upper(**{'s': r.c})", False), ("fstring", "f'{r.c()}'", True),
    ("walrus", "(x := r.c)()", True), ("dunder:call", "r.c.__call__()", True),
    # --- dunder attribute access
    ("dunder:class", "r.__class__", True), ("dunder:chain", "r.s.__class__.__name__", True),
    ("dunder:canary", "r.c.__call__", True), ("dunder:globals", "upper.__globals__", True),
    ("dunder:subclasses", "str.__subclasses__()", True), ("dunder:dict", "r.__dict__", True),
    ("dunder:type", "Type.__class__", True), ("dunder:init", "r.c.__init__('x')", True),
    ("dunder:mid", "r.__class__.__mro__", True),
    # names that begin with two underscores but do not end with them (name-mangled / private attributes)
    ("dunder:leading_only", "r.c.__token", True), ("dunder:leading_only2", "r.c.__state_", True),
    ("dunder:leading_only3", "r.__private", True), ("dunder:leading_gen", "any(x.__tok for x in [r.c])", True),
    ("dunder:leading_helper", "lower(r.c.__token)", True), ("dunder:triple", "r.c.___x", True),
    # names with ONE leading underscore and a dunder tail (`_class__`): no alias may turn them into the dunder attribute
    ("under:class", "r._class__", False), ("under:reduce", "r._reduce_ex__", False), ("under:setattr", "r._setattr__", False),
    ("under:dict", "r._dict__", False), ("under:chain", "r._class__._desc", False), ("under:init", "r._init__", False),
    ("under:slots", "r._slots__", False), ("under:canary", "r.c._class__", False),
    # --- a bare double-underscore *name*: not in the namespace; must be refused before the whitelist-module fallback
    ("dundername:class", "__class__", True), ("dundername:dict", "__dict__", True),
    ("dundername:attr", "__class__.gettypename", True), ("dundername:init", "__init__", True),
    ("dundername:leading_only", "__token", True), ("dundername:leading_only2", "__x_.y", True),
    # --- "refused before anything is invoked": the arguments of a refused call hold PERMITTED invocations with an
    # observable effect on the canaries (str / repr / iteration / a helper); none of them may run
    ("argeffect:str", "r.c.detonate(str(r.c))", True), ("argeffect:repr", "unknown_function(repr(r.c))", True),
    ("argeffect:iter", "r.s.join(any(x for x in r.c))", True), ("argeffect:kw", "r.c.m(k=str(r.c))", True),
    ("argeffect:helper", "r.c.m(upper(r.s))", True), ("argeffect:nested", "evil(lower(str(r.c)), repr(r.c))", True),
    ("argeffect:method_arg", "r.s.upper(field_contains(r, ['s'], ['b']))", True),
]
BENIGN = [
    ("ok:upper", "upper(r.s)", False), ("ok:lower_cmp", "lower(r.s) == 'abc'", False), ("ok:str", "str(r.n)", False),
    ("ok:name", "name(r)", False), ("ok:has_field", "has_field(r, 's')", False),
    ("ok:field_contains", "field_contains(r, ['s'], ['b'])", False), ("ok:any", "any(x == 'a' for x in r.l)", False),
    ("ok:all", "all(upper(x) == 'A' for x in r.l if x)", False), ("ok:ctor", "net.ipaddress('1.2.3.4') == '1.2.3.4'", False),
    ("ok:string_ctor", "string('x') == 'x'", False), ("ok:attr_read", "r.c.a.b", False), ("ok:canary_value", "r.c", False),
    ("ok:canary_cmp", "r.c == 1", False), ("ok:helper_on_canary", "upper(r.c)", False),
    ("ok:field_contains_canary", "field_contains(r.c, ['a'], ['b'])", False), ("ok:kw", "field_equals(r, ['s'], ['ABC'], nocase=True)", False),
    # helpers handed a LIST FIELD of the record as their strings argument: whatever they do to fold case, the record's own
    # list keeps its entries
    ("ok:helper_strings_field", "field_equals(r, ['s'], r.l)", False), ("ok:helper_strings_field2", "field_contains(r, ['s'], r.l)", False),
    ("ok:helper_strings_field3", "field_contains(r, ['s'], r.l, word_boundary=True)", False),
    # whitelisted constructors / operators of the library's own classes applied to values of the record: no method of a
    # value is invoked, no field of the record is emptied or rewritten
    ("ok:stringlist_ctor", "stringlist(r.sl) == ['x', 'Y']", False), ("ok:stringlist_ctor2", "stringlist(r.sl) and stringlist(r.sl)", False),
    ("ok:in_subnet", "r.c in net.ipv4.Subnet('10.0.0.0/8')", False),
    ("ok:in_subnet2", "any(x in net.ipv4.Subnet('10.0.0.0/8') for x in [r.c, '10.1.1.1'])", False),
    ("ok:in_network", "r.c in net.ipnetwork('10.0.0.0/8')", False),
    # the `fields` helper handed values of the record instead of a type name: no method of the value is invoked
    ("ok:fields_canary", "fields(r.c)", False), ("ok:fields_canary2", "any(f.name == 's' for f in fields(r.c))", False),
    ("ok:fields_mixed", "fields('string') and fields(r.c)", False), ("ok:fields_gen", "any(fields(x) for x in [r.s, r.c])", False),
    ("ok:fields_type", "fields(net.ipaddress)", False), ("ok:fields_str", "fields('string')", False),
    # records compared with themselves (packs every field): a list that received a plain element in place keeps it
    ("ok:self_eq", "r == r", False), ("ok:self_ne", "r != r", False), ("ok:self_eq_gen", "any(x == r for x in [r])", False),
    ("ok:type", "Type.string == 'abc'", False), ("ok:missing_attr", "r.s.nosuch", False), ("ok:any_canary", "any(x for x in [r.c])", False),
]
# contexts: {H} is replaced by the shape; every context evaluates H at least once on the records used
CONTEXTS = [
    ("bare", "{H}"), ("cmp", "{H} == 1"), ("cmp_r", "1 != {H}"), ("chain", "0 < r.n < {H}"), ("not", "not {H}"),
    ("and", "{H} and True"), ("and_r", "True and {H}"), ("or_r", "False or {H}"), ("list", "[1, {H}]"),
    ("tuple", "({H}, 1)"), ("arith", "{H} + 1"), ("arith_r", "r.n * {H}"), ("helper_arg", "upper({H})"),
    ("helper_kw", "field_equals(r, ['s'], ['x'], nocase={H})"), ("helper_list", "field_contains(r, ['s'], [{H}])"),
    ("ctor_arg", "string({H})"), ("str_arg", "str({H})"), ("gen_elt", "any({H} for x in r.l)"),
    ("gen_iter", "any(x for x in {H})"), ("gen_if", "any(x for x in r.l if {H})"), ("in_l", "{H} in r.l"),
    ("in_r", "r.s in {H}"), ("attr_base", "({H}).real"), ("nested_call", "lower(upper({H}))"),
    ("all_list", "all([{H}])"),
]


def EXHAUSTIVE(tier):
    return False


def WORKERS(tier):
    return 1


def gen_cases(rng, tier):
    cases = []
    for label, src, refused in SHAPES + BENIGN:
        for cl, ctx in CONTEXTS:
            cases.append({"kind": "hostile" if refused else "benign", "shape": label, "ctx": cl,
                          "src": ctx.replace("{H}", "(" + src + ")"), "refused": refused})
    # every refused shape also through make_selector(text) after make_selector(text, force_compiled=True)
    for label, src, refused in SHAPES:
        if refused and "{TRIP}" not in src:
            cases.append({"kind": "hostile", "shape": label, "ctx": "bare", "src": "(" + src + ")", "refused": True, "via_make": True})
    # the benign shapes once more on a GROUPED record (fields resolve through the group's members)
    for label, src, refused in BENIGN:
        if label.startswith("ok:self") or "fields" in label:
            continue
        cases.append({"kind": "benign", "shape": label, "ctx": "bare", "src": "(" + src + ")", "refused": refused, "grouped": True})
        cases.append({"kind": "benign", "shape": label, "ctx": "and", "src": "(" + src + ") and r.extra == 'e'", "refused": refused,
                      "grouped": True})
    # seeded deeper nestings: contexts composed 2-3 deep around a random shape
    n = {"quick": 300, "thorough": 6000, "search": 2500}[tier]
    r = rng.fork("deep")
    for _ in range(n):
        label, src, refused = r.choice(SHAPES + BENIGN if r.chance(85) else BENIGN)
        s = src
        labels = []
        for _ in range(r.randint(2, 4)):
            cl, ctx = r.choice(CONTEXTS)
            s = ctx.replace("{H}", "(" + s + ")")
            labels.append(cl)
        cases.append({"kind": "hostile" if refused else "benign", "shape": label, "ctx": "/".join(labels), "src": s,
                      "refused": refused})
    return cases


# ---- canaries ------------------------------------------------------------------------------------------------

class Canary:
    """Every non-dunder attribute is another canary, calling it is logged."""

    def __init__(self, log, name):
        object.__setattr__(self, "_log", log)
        object.__setattr__(self, "_name", name)

    def __call__(self, *a, **k):
        self._log.append(["call", self._name, _caller()])
        return Canary(self._log, self._name + "()")

    def __getattr__(self, attr):
        if attr.startswith("__"):
            self._log.append(["dunder", self._name, attr])
            raise AttributeError(attr)
        self._log.append(["getattr", self._name, attr])
        return Canary(self._log, self._name + "." + attr)

    def __setattr__(self, attr, value):
        self._log.append(["setattr", self._name, attr])

    def __iter__(self):
        self._log.append(["iter", self._name, _caller()])
        return iter([Canary(self._log, self._name + "[0]")])

    def __str__(self):
        self._log.append(["str", self._name, _caller()])
        return "<canary %s>" % self._name

    def __repr__(self):
        self._log.append(["repr", self._name, _caller()])
        return "<canary %s>" % self._name


def _caller():
    """(file tail, function) of the nearest frame outside this module: who invoked the canary."""
    f = sys._getframe(2)
    while f is not None and f.f_code.co_filename == __file__:
        f = f.f_back
    if f is None:
        return ["?", "?"]
    return [os.path.basename(f.f_code.co_filename), f.f_code.co_name]


def _make_canary_str(log):
    def wrap(mname):
        orig = getattr(str, mname)

        def m(self, *a, **k):
            log.append(["strmethod", mname, _caller()])
            return orig(self, *a, **k)
        m.__name__ = mname
        return m

    ns = {n: wrap(n) for n in ("upper", "lower", "strip", "format", "encode", "join", "split", "title", "replace",
                               "startswith", "endswith")}
    return type("CanaryStr", (str,), ns)


def direct_invocations(log):
    """Canary invocations made by the engine itself (a frame of selector.py that is not one of the whitelisted
    helper functions, which legitimately call e.g. x.lower())."""
    out = []
    for ev in log:
        if ev[0] == "call":
            if ev[1] == "c._pack" and ev[2] == ["base.py", "_pack"]:
                continue      # Record.__eq__ packs its own field values (the canary poses as a field-type value)
            out.append(ev)
        elif ev[0] == "strmethod":
            fn, func = ev[2]
            if not (fn == "selector.py" and func in HELPERS):
                out.append(ev)
    return out


_state = {}


def _record(log, trip):
    import datetime

    from flow.record import RecordDescriptor
    if "desc" not in _state:
        _state["desc"] = RecordDescriptor("t/c09", [("string", "s"), ("varint", "n"), ("string[]", "l"), ("string", "c"),
                                                    ("stringlist", "sl")])
        from flow.record.base import FieldType
        # the canary is a field-type value as far as isinstance goes (operators of the library's own classes may look)
        _state["canary_cls"] = type("CanaryFT", (Canary, FieldType), {})
    rec = _state["desc"](s="abc", n=5, l=["a", "B"], c="placeholder", sl=["x", "Y"],
                         _generated=datetime.datetime(2020, 1, 1, tzinfo=datetime.timezone.utc))
    rec.l.append("zz")          # a plain str added in place (the typed list converts it only when the record is packed)
    if not _state.get("spy"):
        # dunder attributes of the RECORD fetched by library code (selector.py / base.py frames) are logged
        cls = type(rec)
        base_ga = cls.__getattribute__

        def spy(self, name, _ga=base_ga):
            if name.startswith("__") and _state.get("log") is not None:
                f = sys._getframe(1)
                fn = os.path.basename(f.f_code.co_filename)
                # the engine itself, or an attribute-resolution hook of the record class acting on its behalf (the
                # record's own methods reading self.__slots__ etc. are not the engine's doing)
                if fn == "selector.py" or (fn == "base.py" and f.f_code.co_name in ("__getattr__", "__getattribute__")):
                    _state["log"].append(["dunder", "r", name, [fn, f.f_code.co_name]])
            return _ga(self, name)
        cls.__getattribute__ = spy
        _state["spy"] = True
    _state["log"] = log
    cs = _make_canary_str(log)
    object.__setattr__(rec, "s", cs("abc"))
    object.__setattr__(rec, "c", _state["canary_cls"](log, "c"))
    return rec


def _snapshot(rec):
    def elems(v):
        return [(type(e).__name__, id(e)) for e in v] if isinstance(v, list) else None
    return [(n, type(getattr(rec, n)).__name__, id(getattr(rec, n)), str(getattr(rec, n)) if n != "c" else "",
             elems(getattr(rec, n))) for n in rec._desc.get_all_fields()]


MODEL_RECORD = ["rec", "t/c09", [["s", "string", ["str", "abc"]], ["n", "varint", ["int", "5"]],
                                ["l", "string[]", ["list", [["str", "a"], ["str", "B"], ["str", "zz"]]]], ["c", "string", ["foreign", 100]],
                                ["sl", "stringlist", ["list", [["str", "x"], ["str", "Y"]]]],
                                ["_source", "string", ["none"]], ["_classification", "string", ["none"]],
                                ["_generated", "datetime", ["fval", "datetime", ["int", "1577836800000000"]]],
                                ["_version", "varint", ["int", "1"]]]]


def run_real(case):
    import flow.record.selector as sel

    d = tempfile.mkdtemp(prefix="frv-c09-")
    trip = os.path.join(d, "tripwire")
    src = case["src"].replace("{TRIP}", trip)
    log, helper_log = [], []
    rec = _record(log, trip)
    inner = rec
    if case.get("grouped"):
        # the same record as first member of a grouped record: reading fields through the group leaves group and member alone
        from flow.record import GroupedRecord, RecordDescriptor
        other = RecordDescriptor("t/c09b", [("string", "extra"), ("varint", "n")])(extra="e", n=9)
        rec = GroupedRecord("grp/c09", [inner, other])
    before = [_snapshot(inner), sorted(getattr(rec, "__dict__", {}))]

    def wrap(fn):
        def w(*a, **k):
            helper_log.append(fn.__name__)
            return fn(*a, **k)
        w.__name__ = fn.__name__
        return w

    saved = sel.FUNCTION_WHITELIST
    sel.FUNCTION_WHITELIST = [wrap(f) for f in saved]
    try:
        try:
            s = sel.Selector(src)
        except SyntaxError:
            return {"syntax_error": True}
        try:
            v = s.match(rec)
            res = {"value": _canon_value(SA.value_json(v))}
        except Exception as e:
            res = {"error": type(e).__name__, "msg": str(e)[:140]}
        n_helpers_first = len(helper_log)
        # the same Selector object once more (a consumer that caught the refusal and goes on to the next record): the
        # verdict about the EXPRESSION does not change
        try:
            s.match(rec)
            res["second"] = "value"
        except Exception as e:          # noqa: BLE001
            res["second"] = type(e).__name__
        # the same expression through Selector.explain_selector() (the tracing entry point builds a matcher of its own)
        try:
            s.explain_selector(rec)
            res["explain"] = "value"
        except Exception as e:          # noqa: BLE001
            res["explain"] = type(e).__name__
        if case.get("via_make"):
            # the expression text handed to make_selector() after some other part of the process asked for the compiled
            # engine with the same text: text means the sandboxed interpreter
            try:
                sel.make_selector(src, True)
            except Exception:          # noqa: BLE001
                pass
            try:
                ms = sel.make_selector(src)
                res["make_class"] = type(ms).__name__
                ms.match(rec)
                res["make"] = "value"
            except Exception as e:          # noqa: BLE001
                res["make"] = type(e).__name__
    finally:
        sel.FUNCTION_WHITELIST = saved
    res["direct"] = direct_invocations(log)
    res["dunder"] = [ev for ev in log if ev[0] == "dunder"]
    res["setattr"] = [ev for ev in log if ev[0] == "setattr"]
    res["canary_events"] = len(log)
    # permitted invocations that reached a canary (str / repr / iteration, a str method called from a helper)
    res["effects"] = [ev for ev in log if ev[0] in ("str", "repr", "iter", "strmethod")]
    res["helpers"] = helper_log[:n_helpers_first]
    res["tripwire"] = os.path.exists(trip)
    res["record_changed"] = [_snapshot(inner), sorted(getattr(rec, "__dict__", {}))] != before
    try:
        if os.path.exists(trip):
            os.remove(trip)
        os.rmdir(d)
    except OSError:
        pass
    return res


def _canon_value(vj):
    """Opaque objects (canaries, bound methods, modules, generators of canaries) compare as one class."""
    if isinstance(vj, list) and vj:
        if vj[0] in ("obj", "foreign", "ftype"):
            return ["opaque"]
        if vj[0] in ("list", "tuple"):
            return [vj[0], [_canon_value(x) for x in vj[1]]]
    return SA.canon(vj)


def oracle(case, obs):
    if obs.get("syntax_error"):
        return None
    if obs["direct"]:
        return f"`{case['src']}`: the engine invoked a non-whitelisted callable: {obs['direct'][:3]}"
    if obs["dunder"]:
        return f"`{case['src']}`: a double-underscore attribute of a value was read: {obs['dunder'][:3]}"
    if obs["setattr"] or obs["record_changed"]:
        return f"`{case['src']}`: evaluation modified the record"
    if obs["tripwire"]:
        return f"`{case['src']}`: the tripwire file was created"
    if case["shape"].startswith("argeffect") and (obs.get("effects") or obs.get("helpers")):
        return (f"`{case['src']}`: the arguments of a refused call were evaluated before the refusal "
                f"(invoked: {(obs.get('effects') or obs.get('helpers'))[:3]})")
    if case["shape"].startswith("under:") and case["shape"] != "under:canary" and case["ctx"] == "bare" \
            and "error" not in obs and obs.get("value") != ["missing"]:
        return (f"`{case['src']}`: a name with one leading underscore and a dunder tail resolved to {obs.get('value')} "
                f"instead of the missing-field sentinel (an alias reaching the record's dunder attributes)")
    if case["refused"] and "error" in obs and obs.get("second") == "value":
        return (f"`{case['src']}`: refused on the first match() of a Selector object, evaluated without error on the second "
                f"match() of the same object")
    if case["refused"] and "error" in obs and obs.get("explain") == "value":
        return (f"`{case['src']}`: refused by match() but evaluated without error by explain_selector() of the same Selector "
                f"object")
    if case["refused"] and obs.get("make") == "value":
        return (f"`{case['src']}`: make_selector(text) hands out a {obs.get('make_class')} that evaluates the refused shape "
                f"({case['shape']}) after the compiled engine was requested for the same text")
    if case["refused"] and "error" not in obs:
        return f"`{case['src']}`: a refused shape ({case['shape']}) evaluated to {obs.get('value')} without error"
    return None


def model_op(case, obs):
    if obs.get("syntax_error") or case.get("grouped"):
        return None
    return {"op": "sel_eval", "engine": "interpreted", "expr": SA.expr_json(case["src"].replace("{TRIP}", "/nonexistent/t")),
            "record": MODEL_RECORD}


def compare(case, obs, m):
    # the model's own trace must satisfy the invariant the theorems state (a model that logs a foreign callee would
    # falsify C09_calls_allowed — this is a consistency check of driver and theorem, and it ties `calls` to reality)
    for c in m.get("calls", []):
        if c[0] == "foreign":
            return f"model trace contains a call of a foreign callable: {c}"
    if any(a.startswith("__") for a in m.get("getattrs", []) + m.get("modattrs", [])):
        return "model trace contains a dunder attribute read"
    if m.get("error") == "unmodelled":
        return None
    if "error" in obs:
        if m.get("error") != obs["error"]:
            return f"implementation raises {obs['error']} ({obs.get('msg')}), model gives {({k: m[k] for k in m if k in ('value', 'error')})}"
    else:
        if "value" not in m:
            return f"implementation gives {obs['value']}, model raises {m.get('error')}"
        if _canon_value(m["value"]) != obs["value"]:
            return f"value: model {_canon_value(m['value'])} vs implementation {obs['value']}"
    mh = [c[1] for c in m.get("calls", []) if c[0] == "builtin" and c[1] in HELPERS]
    if mh != obs["helpers"]:
        return f"helpers invoked: model {mh} vs implementation {obs['helpers']}"
    return None


def nontrivial(case, obs):
    return not obs.get("syntax_error") and (case["refused"] or case["shape"] in (
        "ok:attr_read", "ok:canary_value", "ok:canary_cmp", "ok:helper_on_canary", "ok:field_contains_canary",
        "ok:any_canary", "ok:ctor", "ok:string_ctor", "gentype:string", "gentype:net"))


def classify(case, obs):
    if obs.get("syntax_error"):
        return "syntax-error"
    return [f"shape:{case['shape'].split(':')[0]}", f"outcome:{obs.get('error', 'value')}",
            "canary-touched" if obs["canary_events"] else "canary-untouched"]


def shrink(case):
    # try the bare shape
    for label, src, refused in SHAPES + BENIGN:
        if label == case["shape"] and case["ctx"] != "bare":
            yield {"kind": case["kind"], "shape": label, "ctx": "bare", "src": src, "refused": refused}


MATCHERS = {}
