"""C12 — record equality and hashing obey the value-object contract.

Correspondence: `==` (both ways), reflexivity, `hash()` availability and hash equality of generated record pairs under an
ignored-field set vs Model/Equality.lean (recEq / hashRec over the packed-value trees; primitive leaves travel as
equivalence-class ids under Python's own `==`), the descriptor hash input vs hashlib, and the ignored-fields global with
its context manager vs the model's state machine.
Property oracle (real code only): ==, !=, hash, set/dict membership never raise; == symmetric, reflexive, != its
negation; equal => equal hash and found in set/dict; an independently rebuilt copy is equal; a single-field variation
with a semantically different value is unequal unless the field is ignored; records of other descriptors and
non-records are unequal; the ignored-field override is undone after every scope, also on exception (checked
behaviourally with probe records against an independent stack interpreter).
"""
import hashlib
import json
import math

from harness import values as V
from harness.values import enc_str

ID = "C12"
CLAIM = dict(
    text="Kernel-checked theorems for every primitive equality/hash satisfying HashLaws (CPython's contract, a "
         "hypothesis structure), every digest behind the identifier, every ignored-field set and every tree of packed "
         "values (lists, tuples, dicts, nested and grouped records): == <=> same identifier and pairwise == of the "
         "non-ignored packed values; reflexive; symmetric; equal => equal hash; hash total when leaves are hashable; "
         "'same descriptor' holds under the explicit no-collision hypothesis, with the colliding pair as counterexample "
         "for every digest; scoped override restored for every body and exit kind. Tie: translator (hash input order) "
         "+ correspondence on generated pairs over all field types + real-code oracle incl. set/dict membership.",
    note="partial: HashLaws for builtins and the hash combiners are CPython's; field-type _pack() is taken from the "
         "real objects (the model starts at packed values); two known findings: IPv4/IPv6 addresses with the same "
         "integer pack identically, descriptors with colliding hash input share an identifier.",
    technique="Lean 4 theorems over an executable model + model/implementation correspondence",
    design="8/C12")
RULE = ("kinds: cmp (pair a,b with relation copy | vary one field | other descriptor | nested | grouped | non-record | "
        "colliding descriptors | ip family, under an ignored-field set drawn from: none, each single field, pairs, "
        "metadata, all fields) and scope (programs of set / with-scope / raise / compare, nesting depth <= 3). "
        "Non-trivial = cmp whose records hold >= 1 non-None value of a non-string type or that is not a plain copy; "
        "scope with >= 1 scope. Distinct by case hash.")
TRUSTED = ["CPython ==/hash on builtin values and the tuple/frozenset hash combiners (HashLaws, Combine: hypotheses)",
           "field-type _pack() methods (packed values are read off the real objects)",
           "hashlib.sha256 (the identifier digest; theorems hold for every digest)"]
ASSUMPTIONS = ["callers change the configuration through the API only (set_ignored_fields_for_comparison / the context "
               "manager) - possibly with an iterable derived from the active configuration itself"]
EXPLANATION = "seeded samples; the ignored-field sets per pair enumerate every subset of the first three slot names for a share of the pairs"

TYPES = [t for t in V.SERIALISABLE]
PROBE_NAMES = ["a", "b", "c"]


def EXHAUSTIVE(tier):
    return False


# ------------------------------------------------------------------ generation

def _vary(r, rec, which=None):
    """same record spec with the value of one declared field replaced; returns (spec, field index)"""
    _, ds, vals, meta = rec
    if not ds[1]:
        return rec, None
    i = which if which is not None else r.below(len(ds[1]))
    t = ds[1][i][0]
    new = V.gen_value(r, t, depth=1, none_chance=10)
    for _ in range(5):
        if new != vals[i]:
            break
        new = V.gen_value(r, t, depth=1, none_chance=10)
    return ["rec", ds, vals[:i] + [new] + vals[i + 1:], meta], i


def _ig_choices(r, rec, exhaustive=False):
    names = [n for _, n in rec[1][1]] if rec[0] == "rec" else ["a", "b"]
    if exhaustive:
        base = (names + ["_generated"])[:3]
        out = []
        for m in range(1 << len(base)):
            out.append([base[i] for i in range(len(base)) if m >> i & 1])
        return out
    pool = [[], [], ["_generated"], ["_source", "_classification"], list(names), names[:1], names[-1:], names[:2],
            ["nonexistent"], names + ["_generated", "_source", "_classification", "_version"]]
    return [r.choice(pool)]


def _reorder(spec):
    """the same value with the key order of every dict reversed (equal dicts, different insertion order)"""
    if isinstance(spec, list):
        if spec and spec[0] == "dict":
            return ["dict", [[k, _reorder(v)] for k, v in reversed(spec[1])]]
        return [_reorder(x) for x in spec]
    return spec


def _cmp(a, b, ig, rel, varied=None):
    c = {"kind": "cmp", "a": a, "b": b, "ig": ig, "rel": rel}
    if varied is not None:
        c["varied"] = varied
    return c


def gen_cases(rng, tier):
    n = {"quick": 1200, "thorough": 12000, "search": 3000}[tier]
    cases = []
    G = ["dt", [2020, 1, 2, 3, 4, 5, 6], "utc", 0]
    M = {"_generated": G}
    # --- fixed shapes first: every type once (scalar and list form), command field, grouped, collision, ip family
    for t in TYPES:
        r0 = rng.fork("type-" + t)
        for lt in ([t] + ([t + "[]"] if t in V.LISTABLE else [])):
            ds = ["t/" + "x", [[lt, "a"], ["string", "b"]]]
            va = [V.gen_value(r0, lt, none_chance=0), V.S("k")]
            rec = ["rec", ds, va, M]
            cases.append(_cmp(rec, rec, [], "copy"))
            vb, i = _vary(r0, rec, 0)
            cases.append(_cmp(rec, vb, [], "vary", i))
            cases.append(_cmp(rec, vb, ["a"], "vary", i))
    cmd = ["rec", ["t/c", [["command", "c"], ["string", "s"]]], [["cmd", "posix", enc_str("/bin/ls -l /tmp")], V.S("x")], M]
    cases.append(_cmp(cmd, cmd, [], "copy"))
    ga = ["grouped", "g/x", [cmd, ["rec", ["t/d", [["varint", "n"]]], [V.I(5)], M]]]
    gb = ["grouped", "g/x", [cmd, ["rec", ["t/d", [["varint", "n"]]], [V.I(6)], M]]]
    cases.append(_cmp(ga, ga, [], "grouped-copy"))
    cases.append(_cmp(ga, gb, [], "grouped-vary"))
    cases.append(_cmp(ga, gb, ["n"], "grouped-vary"))
    cases.append(_cmp(ga, cmd, [], "other"))
    c1 = ["rec", ["t/x", [["stringlist", "a"], ["string", "b"]]], [V.NONE, V.NONE], M]
    c2 = ["rec", ["t/x", [["string", "a"], ["string", "listb"]]], [V.NONE, V.NONE], M]
    cases.append(_cmp(c1, c2, [], "collide"))
    ip4 = ["rec", ["t/ip", [["net.ipaddress", "ip"]]], [["ip", "1.2.3.4"]], M]
    ip6 = ["rec", ["t/ip", [["net.ipaddress", "ip"]]], [["ip", "::102:304"]], M]
    cases.append(_cmp(ip4, ip6, [], "vary", 0))
    dl = ["rec", ["t/dl", [["dictlist", "d"], ["string", "s"]]],
          [["list", [["dict", [[V.S("a"), V.I(1)], [V.S("b"), V.S("x")], [V.S("c"), V.I(3)]]], ["dict", [[V.S("k"), V.S("v")], [V.S("j"), V.I(0)]]]]],
           V.S("k")], M]
    cases.append(_cmp(dl, _reorder(dl), [], "copy"))          # equal dicts built in another key order
    cases.append(_cmp(dl, _reorder(dl), ["s"], "copy"))
    cases.append(_cmp(["grouped", "g/d", [dl, cmd]], ["grouped", "g/d", [_reorder(dl), cmd]], [], "grouped-copy"))
    # grouped records that differ only in an IGNORED field of a member that is not the first provider of that name
    # (the second member's own `s`, its metadata, a field only it has): ignored names apply to every member
    G2 = ["dt", [2021, 5, 6, 7, 8, 9, 0], "utc", 0]
    mA = ["rec", ["g/a", [["varint", "x"], ["string", "s"]]], [V.I(1), V.S("one")], M]
    mB = ["rec", ["g/b", [["varint", "y"], ["string", "s"]]], [V.I(2), V.S("two")], M]
    for mB2, igs in ((["rec", mB[1], mB[2], {"_generated": G2}], [["_generated"], []]),
                     (["rec", mB[1], [V.I(2), V.S("TWO")], M], [["s"], ["s", "x"], []]),
                     (["rec", mB[1], [V.I(3), V.S("two")], M], [["y"], ["y", "_generated"], ["x"]]),
                     (["rec", mB[1], [V.I(2), V.S("two")], {"_generated": G, "_source": V.S("elsewhere")}], [["_source"], []])):
        for ig in igs:
            cases.append(_cmp(["grouped", "g/pair", [mA, mB]], ["grouped", "g/pair", [mA, mB2]], ig, "grouped"))
    # the copy is rebuilt after the library's cache of generated record classes (lru_cache, 4096 entries) has turned
    # over: same descriptor, same values, but a freshly generated class
    cases.append(dict(_cmp(cmd, cmd, [], "copy"), evict=4200))
    # list fields that received elements IN PLACE (plain values appended after the record was built) against a record
    # that held every element from the start: same descriptor, equal field values -> equal, same hash
    RAW = {"path[]": [V.S("/tmp/x"), V.S("rel/y")], "net.ipaddress[]": [["ip", "10.0.0.1"], ["ip", "2001:db8::1"]],
           "digest[]": [["digest", ["d41d8cd98f00b204e9800998ecf8427e", None, None]]], "command[]": [V.S("ls -la /tmp")],
           "uint16[]": [V.I(7)], "string[]": [V.S("x")], "net.ipnetwork[]": [["ipnet", "10.0.0.0/8"]],
           "datetime[]": [G]}
    for lt, raw in sorted(RAW.items()):
        for first, extra in (([], raw[:1]), (raw[:1], raw), (raw, raw[-1:])):
            ra = ["rec", ["t/app", [[lt, "items"], ["string", "s"]]], [["list", first], V.S("k")], dict(M, _append={"items": extra})]
            rb = V.merge_append(ra)
            for ig in ([], ["s"]):
                cases.append(_cmp(ra, rb, ig, "copy"))
                cases.append(_cmp(rb, ra, ig, "copy"))
    # addresses that embed another address: the IPv4-mapped IPv6 form of an IPv4 address is a different value
    for pa, pb in (("::ffff:10.0.0.1", "10.0.0.1"), ("10.0.0.1", "::ffff:10.0.0.1"), ("::ffff:1.2.3.4", "1.2.3.4"),
                   ("::ffff:255.255.255.255", "255.255.255.255"), ("64:ff9b::10.0.0.1", "10.0.0.1")):
        for lt, mk in (("net.ipaddress", lambda x: ["ip", x]), ("net.ipaddress[]", lambda x: ["list", [["ip", "9.9.9.9"], ["ip", x]]])):
            ds = ["t/ipm", [[lt, "ip"], ["string", "s"]]]
            cases.append(_cmp(["rec", ds, [mk(pa), V.S("k")], M], ["rec", ds, [mk(pb), V.S("k")], M], [], "vary", 0))
    # one instant under different UTC offsets (and the two wall clocks of a repeated hour): the values are equal as
    # Python datetimes, so the records are equal - and equal records must hash alike
    c7 = [2021, 3, 4, 12, 30, 15, 123456]
    same = [["dt", c7, "utc", 0], ["dt", [2021, 3, 4, 14, 30, 15, 123456], ["fixed", 7200, 0], 0],
            ["dt", [2021, 3, 4, 7, 30, 15, 123456], ["fixed", -18000, 0], 0],
            ["dt", [2021, 3, 4, 13, 0, 15, 123456], ["fixed", 1800, 0], 0]]
    for x in same:
        for y in same:
            if x is y:
                continue
            ds = ["t/inst", [["datetime", "ts"], ["datetime[]", "tl"], ["string", "s"]]]
            cases.append(_cmp(["rec", ds, [x, ["list", [x, y]], V.S("k")], M], ["rec", ds, [y, ["list", [y, x]], V.S("k")], M],
                              [], "same-instant"))
            cases.append(_cmp(["rec", ds, [V.NONE, ["list", []], V.S("k")], {"_generated": x}],
                              ["rec", ds, [V.NONE, ["list", []], V.S("k")], {"_generated": y}], [], "same-instant"))
    # two descriptors with the same fields whose NAMES differ only in '/' versus '_' (they map to one Python class name):
    # different descriptors, so their records are unequal, whichever was declared last
    F2 = [["string", "h"], ["varint", "p"]]
    for na, nb in (("net/conn_log", "net_conn/log"), ("net_conn/log", "net/conn_log"), ("a/b_c", "a_b/c")):
        ra = ["rec", [na, F2], [V.S("x"), V.I(1)], M]
        rb = ["rec", [nb, F2], [V.S("x"), V.I(1)], M]
        cases.append(_cmp(ra, rb, [], "other"))
        cases.append(_cmp(ra, rb, ["h"], "other"))
    # grouped records (and plain ones) compared once, then edited through a MEMBER, then compared again
    eA = ["rec", ["g/a", [["varint", "count"], ["string", "s"]]], [V.I(1), V.S("one")], M]
    eB = ["rec", ["g/b", [["varint", "y"]]], [V.I(2)], M]
    ge = ["grouped", "g/edit", [eA, eB]]
    for ed in ([0, "count", V.I(2)], [1, "y", V.I(9)], [0, "s", V.S("other")]):
        cases.append(dict(_cmp(ge, ge, [], "grouped"), edit=ed))
        cases.append(dict(_cmp(ge, ge, ["s"], "grouped"), edit=ed))
    cases.append(dict(_cmp(eA, eA, [], "vary", 0), edit=[0, "count", V.I(5)]))
    nanr = ["rec", ["t/f", [["float", "f"]]], [["float", "7ff8000000000000"]], M]
    cases.append(_cmp(nanr, nanr, [], "copy"))
    # --- random pairs
    r = rng.fork("pairs")
    for k in range(n):
        a = V.gen_record(r, nfields=r.randint(1, 5))
        w = r.below(10)
        exhaustive = (k % 8 == 0)
        if w < 3:
            for ig in _ig_choices(r, a, exhaustive):
                cases.append(_cmp(a, a, ig, "copy"))
            if any(t == "dictlist" for t, _ in a[1][1]) and _reorder(a) != a:
                cases.append(_cmp(a, _reorder(a), [], "copy"))
        elif w < 7:
            b, i = _vary(r, a)
            for ig in _ig_choices(r, a, exhaustive):
                cases.append(_cmp(a, b, ig, "vary", i))
        elif w < 8:
            b = V.gen_record(r, nfields=r.randint(1, 4))
            if r.chance(40):      # same values under another name / extra field
                b = ["rec", [a[1][0] + "2" if r.chance(50) else a[1][0], a[1][1] + [["string", "extra"]]], a[2] + [V.NONE], a[3]]
            cases.append(_cmp(a, b, _ig_choices(r, a)[0], "other"))
        elif w < 9:
            inner = V.gen_record(r, depth=1, nfields=r.randint(1, 3))
            ds = ["t/n", [["record", "child"], ["varint", "n"], ["record[]", "kids"]]]
            na = ["rec", ds, [inner, V.I(1), ["list", [inner]]], M]
            inner2, _ = _vary(r, inner)
            nb = ["rec", ds, [inner2 if r.chance(60) else inner, V.I(1), ["list", [inner]]], M]
            ig = r.choice([[], [n_ for _, n_ in inner[1][1]][:1], ["n"]])
            cases.append(_cmp(na, nb, ig, "nested"))
        else:
            ms = [V.gen_record(r, nfields=r.randint(1, 3)) for _ in range(r.randint(1, 3))]
            ms2 = list(ms)
            if r.chance(60):
                j = r.below(len(ms))
                ms2[j], _ = _vary(r, ms[j])
            gname = r.choice(["g/x", "g/y"])
            cases.append(_cmp(["grouped", gname, ms], ["grouped", gname if r.chance(85) else "g/z", ms2],
                              _ig_choices(r, ms[0])[0], "grouped"))
        if r.chance(6):
            cases.append({"kind": "cmp", "a": a, "b": r.choice([["none"], ["int", "5"], ["str", enc_str("x")], ["list", []]]),
                          "ig": [], "rel": "nonrecord"})
    # --- scopes
    r = rng.fork("scope")

    def prog(depth):
        out = []
        for _ in range(r.randint(1, 4)):
            w = r.below(10)
            s = r.sample(PROBE_NAMES, r.randint(0, 3))
            if w < 3:
                out.append(["observe"])
            elif w < 5:
                ww = r.below(10)
                if ww < 6:
                    out.append(["set", s])
                elif ww < 9:
                    out.append(["extend", s])      # set(chain(<the active configuration>, names)): extend what is in force
                else:
                    out.append(["reapply"])        # set(<the active configuration itself>)
            elif w < 6 and depth > 0:
                out.append(["raise"])
            elif depth < 3 and r.chance(20):
                # a scope object made EARLY (`cm = ignore_fields_for_comparison(names)`), entered after the configuration
                # changed: what is restored at exit is what was in force when the scope was ENTERED
                pre = [r.choice([["set", r.sample(PROBE_NAMES, r.randint(0, 3))], ["extend", r.sample(PROBE_NAMES, r.randint(1, 2))],
                                 ["observe"]]) for _ in range(r.randint(1, 2))]
                out.append(["prepared", s, pre, prog(depth + 1)])
            elif depth < 3:
                out.append([r.choice(["scope", "scope", "scope_extend"]), s, prog(depth + 1)])
            else:
                out.append(["observe"])
        return out

    for _ in range(n // 2):
        p = prog(0)
        if r.chance(30):
            p = [["scope", r.sample(PROBE_NAMES, r.randint(0, 3)), prog(1) + [["raise"]]]] + p
        if r.chance(20):
            # a scope whose argument is unusual - a non-name among the names, a bare string, an iterator: whether the
            # library accepts or refuses it, nothing of it may be in force once the statement is over
            bad = ["badscope", r.sample(PROBE_NAMES, r.randint(1, 3)), r.choice(["nonname", "none", "barestring", "iterator"])]
            tgt = p
            if p and p[0][0] in ("scope", "scope_extend") and r.chance(50):
                tgt = p[0][2]
            tgt.insert(r.below(len(tgt) + 1), bad)
        cases.append({"kind": "scope", "glob": r.sample(PROBE_NAMES, r.randint(0, 2)), "prog": p + [["observe"]]})
        if any(c_[0] in ("scope", "scope_extend", "prepared") for c_ in p) and "raise" in json.dumps(p) and r.chance(50):
            cases[-1]["base_exc"] = True
    return cases


# ------------------------------------------------------------------ real code

class _Classes:
    """equivalence classes of primitive leaves under Python's own =="""

    def __init__(self):
        self.reps, self.unhashable = [], []

    def of(self, p):
        for i, q in enumerate(self.reps):
            try:
                if p is q or p == q:
                    return i
            except Exception:
                continue
        self.reps.append(p)
        i = len(self.reps) - 1
        try:
            hash(p)
        except Exception:
            self.unhashable.append(i)
        return i


def _tree(v, cl, descs):
    from flow.record import GroupedRecord, Record
    from flow.record.base import FieldType
    if isinstance(v, GroupedRecord):
        return ["g", enc_str(v.name), [_tree(x, cl, descs) for x in v.records]]
    if isinstance(v, Record):
        d = v._desc
        key = (d.name, d.get_field_tuples())
        if key not in descs["index"]:
            descs["index"][key] = len(descs["list"])
            descs["list"].append({"name": enc_str(d.name), "fields": [[enc_str(t), enc_str(n)] for t, n in d.get_field_tuples()],
                                  "hash": d.descriptor_hash})
        vals = []
        for k in v.__slots__:
            x = getattr(v, k)
            vals.append(_tree(x._pack() if isinstance(x, FieldType) else x, cl, descs))
        return ["r", descs["index"][key], vals]
    if isinstance(v, list):
        return ["l", [_tree(x, cl, descs) for x in v]]
    if isinstance(v, tuple):
        return ["t", [_tree(x, cl, descs) for x in v]]
    if isinstance(v, dict):
        items = sorted(((cl.of(k), _tree(x, cl, descs)) for k, x in v.items()), key=lambda kv: kv[0])
        return ["d", [k for k, _ in items], [x for _, x in items]]
    return ["p", cl.of(v)]


def _try(fn):
    try:
        return fn()
    except Exception as e:
        return {"raised": type(e).__name__, "msg": str(e)[:100]}


def _probe_records():
    from flow.record import RecordDescriptor
    import datetime
    g = datetime.datetime(2020, 1, 1, tzinfo=datetime.timezone.utc)
    d = RecordDescriptor("probe/c12", [("varint", n) for n in PROBE_NAMES])
    base = d(*([0] * len(PROBE_NAMES)), _generated=g)
    others = {}
    for i, n in enumerate(PROBE_NAMES):
        v = [0] * len(PROBE_NAMES)
        v[i] = 1
        others[n] = d(*v, _generated=g)
    return base, others


def _behavioural_ignored():
    """which probe fields the library ignores right now, observed through == only"""
    base, others = _probe_records()
    return sorted(n for n in PROBE_NAMES if base == others[n])


class _Boom(Exception):
    pass


class _BoomBase(BaseException):
    """a scope may also be left by something that is not an Exception (KeyboardInterrupt, SystemExit, GeneratorExit)"""


def run_real(case):
    import flow.record.base as B
    k = case["kind"]
    saved = set(B.IGNORE_FIELDS_FOR_COMPARISON)
    try:
        if k == "cmp":
            a = V.build(case["a"])
            if case.get("evict"):
                from flow.record import RecordDescriptor
                for i in range(case["evict"]):
                    RecordDescriptor("evict/t%d" % i, [("string", "f%d" % (i % 7))])
                V._desc_cache.clear() if hasattr(V, "_desc_cache") else None
            b = V.build(case["b"])        # independently rebuilt even when the spec is the same
            B.set_ignored_fields_for_comparison(list(case["ig"]))
            if case.get("edit"):
                # the objects were compared and hashed ONCE, then a member of `a` is edited directly: what follows is
                # about the values they hold now
                _try(lambda: (a == b, hash(a), hash(b), a in {b}))
                mi, fname, vspec = case["edit"]
                setattr(a.records[mi] if hasattr(a, "records") else a, fname, V.build(vspec))
            obs = {
                "eq_ab": _try(lambda: a == b), "eq_ba": _try(lambda: b == a), "ne_ab": _try(lambda: a != b),
                "eq_aa": _try(lambda: a == a), "eq_bb": _try(lambda: b == b),
                "hash_a": _try(lambda: isinstance(hash(a), int)),
                "hash_b": _try(lambda: isinstance(hash(b), int)) if case["rel"] != "nonrecord" else True,
                "hash_equal": _try(lambda: hash(a) == hash(b)) if case["rel"] != "nonrecord" else None,
                "in_set": _try(lambda: b in {a}) if case["rel"] != "nonrecord" else None,
                "dict_get": _try(lambda: {a: 1}.get(b) == 1) if case["rel"] != "nonrecord" else None,
                "global_after": sorted(B.IGNORE_FIELDS_FOR_COMPARISON),
            }
            from flow.record import GroupedRecord
            if isinstance(a, GroupedRecord) and isinstance(b, GroupedRecord):
                # the members, compared one by one as plain records under the same configuration
                obs["group_names_equal"] = a.name == b.name
                obs["group_sizes"] = [len(a.records), len(b.records)]
                obs["members_eq"] = [_try(lambda x=x, y=y: x == y) for x, y in zip(a.records, b.records)]
            B.set_ignored_fields_for_comparison([])
            if case["rel"] != "nonrecord":
                cl = _Classes()
                descs = {"index": {}, "list": []}
                obs["tree_a"] = _tree(a, cl, descs)
                obs["tree_b"] = _tree(b, cl, descs)
                obs["descs"] = descs["list"]
                obs["unhashable"] = cl.unhashable
                obs["obs_a"] = V.observe(a)
                obs["obs_b"] = V.observe(b)
            return obs
        if k == "scope":
            B.set_ignored_fields_for_comparison(list(case["glob"]))
            trace = []

            def run(cmds):
                for c in cmds:
                    if c[0] == "set":
                        B.set_ignored_fields_for_comparison(list(c[1]))
                    elif c[0] == "extend":
                        import itertools
                        B.set_ignored_fields_for_comparison(itertools.chain(B.IGNORE_FIELDS_FOR_COMPARISON, list(c[1])))
                    elif c[0] == "reapply":
                        B.set_ignored_fields_for_comparison(B.IGNORE_FIELDS_FOR_COMPARISON)
                    elif c[0] == "scope_extend":
                        import itertools
                        with B.ignore_fields_for_comparison(itertools.chain(B.IGNORE_FIELDS_FOR_COMPARISON, list(c[1]))):
                            run(c[2])
                    elif c[0] == "observe":
                        trace.append(_behavioural_ignored())
                    elif c[0] == "raise":
                        raise (_BoomBase if case.get("base_exc") else _Boom)()
                    elif c[0] == "scope":
                        with B.ignore_fields_for_comparison(list(c[1])):
                            run(c[2])
                    elif c[0] == "badscope":
                        arg = {"nonname": lambda: list(c[1]) + [5], "none": lambda: [None] + list(c[1]),
                               "barestring": lambda: "".join(c[1]), "iterator": lambda: iter(list(c[1]) + [5])}[c[2]]()
                        try:
                            with B.ignore_fields_for_comparison(arg):
                                pass
                        except (TypeError, ValueError):
                            pass                # refused: fine, as long as nothing of it stays in force
                    elif c[0] == "prepared":
                        cm = B.ignore_fields_for_comparison(list(c[1]))     # made now ...
                        run(c[2])
                        with cm:                                            # ... entered later
                            run(c[3])

            try:
                run(case["prog"])
                ex = "normal"
            except (_Boom, _BoomBase):
                ex = "raised"
            return {"trace": trace, "exit": ex, "glob": _behavioural_ignored(),
                    "global": sorted(x for x in B.IGNORE_FIELDS_FOR_COMPARISON)}
    finally:
        B.set_ignored_fields_for_comparison(saved)
    raise ValueError(k)


# ------------------------------------------------------------------ oracle

def _has_nan(o):
    if isinstance(o, list):
        if len(o) == 3 and o[0] == "float":
            bits = int(o[2], 16)
            return (bits >> 52) & 0x7FF == 0x7FF and bits & ((1 << 52) - 1) != 0
        return any(_has_nan(x) for x in o)
    return False


def _sem(o):
    """semantic key of an observation: different keys => the values mean something different; None = cannot tell"""
    import datetime
    import struct
    if not isinstance(o, list):
        return ["atom", o]
    if not o:
        return ["empty"]
    tag = o[0]
    if tag == "dt":
        y, mo, d, h, mi, s, us = o[2]
        try:
            inst = datetime.datetime(y, mo, d, h, mi, s, us) - datetime.timedelta(microseconds=o[3] or 0)
        except OverflowError:
            return None
        return ["instant", inst.isoformat()]
    if tag == "float":
        x = struct.unpack(">d", bytes.fromhex(o[2]))[0]
        if math.isnan(x):
            return None
        return ["num", repr(0.0 if x == 0 else x)]
    if tag in ("rec", "grouped", "other"):
        return None
    out = []
    for x in o:
        k = _sem(x)
        if k is None:
            return None
        out.append(k)
    return out


def _field_obs(spec_obs, i):
    # observation of a plain record: ["rec", name, fields, [values...]]
    return spec_obs[3][i]


def _desugar(cmds):
    """a prepared scope means: the commands in between, then an ordinary scope"""
    out = []
    for c in cmds:
        if c[0] == "prepared":
            out += _desugar(c[2]) + [["scope", c[1], _desugar(c[3])]]
        elif c[0] in ("scope", "scope_extend"):
            out.append([c[0], c[1], _desugar(c[2])])
        elif c[0] == "badscope":
            out.append(["scope", c[1], []])          # accepted or refused: an empty scope, nothing observed inside
        else:
            out.append(c)
    return out


def oracle(case, obs):
    k = case["kind"]
    if k == "scope":
        case = dict(case, prog=_desugar(case["prog"]))
        # independent stack interpreter (try/finally discipline), no model involved
        want = []
        state = {"g": sorted(case["glob"])}

        def run(cmds):
            for c in cmds:
                if c[0] == "set":
                    state["g"] = sorted(c[1])
                elif c[0] == "extend":
                    state["g"] = sorted(set(state["g"]) | set(c[1]))
                elif c[0] == "reapply":
                    pass
                elif c[0] == "observe":
                    want.append(state["g"])
                elif c[0] == "raise":
                    raise _Boom()
                else:
                    before = state["g"]
                    state["g"] = sorted(c[1]) if c[0] == "scope" else sorted(set(state["g"]) | set(c[1]))
                    try:
                        run(c[2])
                    finally:
                        state["g"] = before     # the property: after the scope, the value from before the scope

        try:
            run(case["prog"])
            ex = "normal"
        except _Boom:
            ex = "raised"
        glob = state["g"]
        if obs["exit"] != ex:
            return f"program exit {obs['exit']} instead of {ex}"
        if obs["trace"] != want:
            return f"comparisons saw ignored sets {obs['trace']} instead of {want}: a scope was not set up or not undone"
        if obs["glob"] != glob:
            return f"after the program the ignored set is {obs['glob']} instead of {glob}: a scope was not undone"
        return None
    for key in ("eq_ab", "eq_ba", "ne_ab", "eq_aa", "eq_bb", "hash_a", "hash_b", "hash_equal", "in_set", "dict_get"):
        v = obs.get(key)
        if isinstance(v, dict) and "raised" in v:
            return f"{key} raised {v['raised']}: {v['msg']}"
    if obs["global_after"] != sorted(case["ig"]):
        return "comparison changed the ignored-fields configuration"
    if obs["eq_ab"] != obs["eq_ba"]:
        return f"== is not symmetric: a==b is {obs['eq_ab']}, b==a is {obs['eq_ba']}"
    if obs["ne_ab"] != (not obs["eq_ab"]):
        return "!= is not the negation of =="
    if obs["eq_aa"] is not True or obs["eq_bb"] is not True:
        return "a record is not equal to itself"
    rel = case["rel"]
    if rel == "nonrecord":
        return "record equals a non-record" if obs["eq_ab"] else None
    if obs["eq_ab"]:
        if not obs["hash_equal"]:
            return "equal records have different hashes"
        if not obs["in_set"] or not obs["dict_get"]:
            return "equal record not found in a set / dict keyed by the other"
    if rel in ("copy", "grouped-copy"):
        if not obs["eq_ab"] and not _has_nan(obs["obs_a"]):
            return "an independently rebuilt copy is not equal"
    if rel == "same-instant" and not obs["eq_ab"]:
        return "records whose timestamps denote the same instants (equal datetime values) are not equal"
    if "members_eq" in obs and not _has_nan(obs["obs_a"]) and not _has_nan(obs["obs_b"]):
        same = (obs["group_names_equal"] and obs["group_sizes"][0] == obs["group_sizes"][1]
                and all(m is True for m in obs["members_eq"]))
        if same and not obs["eq_ab"]:
            return ("grouped records with the same name whose members are pairwise equal (ignored fields not counted) "
                    "are not equal")
        if not same and obs["eq_ab"] and all(isinstance(m, bool) for m in obs["members_eq"]):
            return "grouped records that differ in name, size or a member compare equal"
    if rel == "other" and obs["eq_ab"]:
        return "records of different descriptors compare equal"
    if rel == "collide" and obs["eq_ab"]:
        return "records of different descriptors (same name, colliding hash input) compare equal"
    if rel == "vary" and case.get("varied") is not None and obs["obs_a"][0] == "rec":
        i = case["varied"]
        name = obs["obs_a"][2][i][1]
        ftype = obs["obs_a"][2][i][0]
        oa, ob = _field_obs(obs["obs_a"], i), _field_obs(obs["obs_b"], i)
        if name in case["ig"] or oa == ob:
            if not obs["eq_ab"] and not _has_nan(obs["obs_a"]) and not _has_nan(obs["obs_b"]):
                return f"records differing only in ignored/identical field {name} are not equal"
        elif ftype not in ("dynamic",):
            sa, sb = _sem(oa), _sem(ob)
            if sa is not None and sb is not None and sa != sb and obs["eq_ab"]:
                return (f"records differing in field {name} ({ftype}: {json.dumps(oa)[:60]} vs {json.dumps(ob)[:60]}) "
                        f"compare equal")
    return None


# ------------------------------------------------------------------ model

def model_op(case, obs):
    k = case["kind"]
    if k == "scope":
        # extend / reapply / scope_extend are rewritten to explicit sets (commands after a `raise` are dead code, so
        # tracking the configuration as if nothing was raised names the same sets for everything that executes)
        st = {"g": sorted(case["glob"])}

        def conv(c):
            if c[0] == "set":
                st["g"] = sorted(c[1])
                return ["set", [enc_str(x) for x in st["g"]]]
            if c[0] == "extend":
                st["g"] = sorted(set(st["g"]) | set(c[1]))
                return ["set", [enc_str(x) for x in st["g"]]]
            if c[0] == "reapply":
                return ["set", [enc_str(x) for x in st["g"]]]
            if c[0] in ("scope", "scope_extend"):
                before = st["g"]
                st["g"] = sorted(c[1]) if c[0] == "scope" else sorted(set(st["g"]) | set(c[1]))
                names = [enc_str(x) for x in st["g"]]
                body = [conv(x) for x in c[2]]
                st["g"] = before
                return ["scope", names, body]
            return [c[0]]
        return {"op": "c12_scope", "glob": [enc_str(x) for x in case["glob"]], "prog": [conv(c) for c in _desugar(case["prog"])]}
    if case["rel"] == "nonrecord" or "tree_a" not in obs:
        return None
    return {"op": "c12_cmp", "descs": obs["descs"], "ig": [enc_str(x) for x in case["ig"]], "a": obs["tree_a"],
            "b": obs["tree_b"], "unhashable": obs["unhashable"]}


def compare(case, obs, m):
    if "error" in m and len(m) == 1:
        return f"model error {m['error']}"
    k = case["kind"]
    if k == "scope":
        mt = [sorted(V.dec_str(x) for x in s if V.dec_str(x) in PROBE_NAMES) for s in m["trace"]]
        if mt != obs["trace"]:
            return f"trace: model {mt} vs implementation {obs['trace']}"
        if m["exit"] != obs["exit"]:
            return f"exit: model {m['exit']} vs implementation {obs['exit']}"
        if sorted(V.dec_str(x) for x in m["glob"]) != obs["global"]:
            return f"final global: model {m['glob']} vs implementation {obs['global']}"
        return None
    for key in ("eq_ab", "eq_ba", "eq_aa"):
        if isinstance(obs[key], dict) or m[key] != obs[key]:
            return f"{key}: model {m[key]} vs implementation {obs[key]}"
    if m["hash_a_ok"] != (obs["hash_a"] is True) or m["hash_b_ok"] != (obs["hash_b"] is True):
        return f"hashability: model {m['hash_a_ok']},{m['hash_b_ok']} vs implementation {obs['hash_a']},{obs['hash_b']}"
    if m["hash_equal"] and obs["hash_equal"] is not True:
        return "model: equal hashes, implementation: different hashes"
    if m["conflict"]:
        return "model hash input identifies descriptors the implementation gives different hashes"
    for d, hi in zip(obs["descs"], m["hash_inputs"]):
        s = V.dec_str(hi)
        try:
            want = int.from_bytes(hashlib.sha256(s.encode()).digest()[:4], "big")
        except UnicodeEncodeError:
            continue
        if want != d["hash"]:
            return f"descriptor hash input: sha256 of the model's input {s!r:.60} is not the implementation's descriptor_hash"
    return None


def nontrivial(case, obs):
    if case["kind"] == "scope":
        return any(c[0] in ("scope", "prepared") for c in case["prog"])
    if case["rel"] != "copy":
        return True
    return any(v[0] not in ("none", "str") for v in case["a"][2]) if case["a"][0] == "rec" else True


def classify(case, obs):
    if case["kind"] == "scope":
        return f"scope:{obs.get('exit')}"
    tags = [f"cmp:{case['rel']}:{'eq' if obs.get('eq_ab') is True else 'ne' if obs.get('eq_ab') is False else 'raised'}",
            f"ig:{min(len(case['ig']), 3)}"]
    if case["a"][0] == "rec":
        for t, _ in case["a"][1][1]:
            tags.append("type:" + t)
    return tags


def _m_ipfam(case, obs, failure):
    if case.get("kind") != "cmp" or case.get("rel") != "vary" or case.get("varied") is None:
        return False
    i = case["varied"]
    try:
        oa, ob = obs["obs_a"][3][i], obs["obs_b"][3][i]
    except Exception:
        return False
    return (isinstance(oa, list) and isinstance(ob, list) and oa[:1] == ["ip"] and ob[:1] == ["ip"]
            and oa[3] == ob[3] and oa[2] != ob[2] and "compare equal" in (failure or ""))


def _m_collide(case, obs, failure):
    if case.get("kind") != "cmp" or "descs" not in obs or len(obs["descs"]) < 2:
        return False
    ids = {}
    for d in obs["descs"]:
        ids.setdefault((d["name"], d["hash"]), []).append(json.dumps(d["fields"]))
    return any(len(set(v)) > 1 for v in ids.values()) and "different descriptors" in (failure or "")


MATCHERS = {"ip_family_same_integer": _m_ipfam, "identifier_collision": _m_collide}


def shrink(case):
    if case["kind"] == "cmp" and case["a"][0] == "rec" and case["b"][0] == "rec" and case["a"][1] == case["b"][1]:
        nm, fs = case["a"][1]
        for i in range(len(fs)):
            if len(fs) > 1 and case.get("varied") != i:
                def cut(rec):
                    return ["rec", [nm, fs[:i] + fs[i + 1:]], rec[2][:i] + rec[2][i + 1:], rec[3]]
                c = dict(case, a=cut(case["a"]), b=cut(case["b"]))
                if case.get("varied") is not None and case["varied"] > i:
                    c["varied"] = case["varied"] - 1
                yield c
    if case["kind"] == "cmp" and case["ig"]:
        yield dict(case, ig=[])
