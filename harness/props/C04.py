"""C04 — a damaged stream yields an intact prefix, never altered records.

Per case one generated stream; inside the case EVERY byte offset at which the file can end is tried on the real reader
(raw streams: file object and path; gzip: every offset of the compressed file), plus every index of a failing / short
write call on the writer's file object. The Lean model reader is run on every cut of the same bytes (wire_cuts).
"""
import gzip
import io
import os
import shutil
import tempfile
import warnings

from .. import values as V
from .. import wire as W

ID = "C04"
CLAIM = dict(
    text="Kernel-checked: C04_records_prefix - for EVERY admissible history of records written by a fresh writer (any "
         "number of records and grouped records, any descriptors, nesting to any depth) and EVERY cut position k, the reader run over the "
         "first k bytes yields exactly the first n records written, unaltered and in order, where n is precisely the "
         "number of records whose frames lie completely within k bytes (no complete record skipped, none invented, "
         "none partly filled), and then stops with EOF (frame boundary / inside a 4-byte length), 'incomplete input' "
         "(inside a frame body; msgpack prefix lemma M5: no proper prefix of an encoding decodes) or 'not a record "
         "stream' (inside the header frame); at or past the end everything is yielded and the end is clean. "
         "C04_failing_or_short_write: for ANY chunking of the stream into write calls (the implementation's own, two "
         "calls per frame, is one: C04_writeCalls), a call that accepts only j of its bytes (0 = failed) after which "
         "nothing is written leaves exactly such a prefix, with the same conclusion. Also the "
         "frame-level theorems (splitting inverts framing for every frame list and cut) and M1. Tie: length format / "
         "header length / short-length-is-EOF regenerated from stream.py; the model reader is compared with "
         "RecordStreamReader on EVERY cut of every generated stream; real-code oracle: records yielded = written "
         "records whose frames are complete, then clean end exactly at frame boundaries (or inside a length prefix), "
         "else an error; gzip cuts and failing/short writes give an intact prefix.",
    note="partial: that msgpack's C unpacker rejects a truncated document the way the model's decoder does (M5 is proved "
         "for the model) is exercised on every cut; zlib's behaviour on truncated input is the hypothesis "
         "CodecLaws.truncation (exercised over every cut of the compressed file). Holes (a producer that carries on "
         "after a failed write) are outside the theorem's fault model and are covered by the real-code oracle only.",
    technique="Lean 4 induction over write histories and frame lists (every cut position) + msgpack prefix lemma + "
              "exhaustive-cut model/implementation correspondence",
    design="8/C04")
RULE = ("one case = one generated stream (3-10 records incl. nested/grouped, 200-3000 bytes); within it every cut 0..len "
        "(exhaustive per stream) through RecordStreamReader on BytesIO, a sample of cuts through RecordReader(path), "
        "every cut of the gzip file, and every failing/short write index. evaluations counts streams; 'cuts' in the "
        "distribution counts reader runs. Non-trivial = stream with >=3 record frames and >=1 descriptor frame after the "
        "first record; distinct by hash of the case.")
TRUSTED = ["zlib/gzip truncation behaviour (hypothesis, exercised on every cut)", "msgpack C unpacker on truncated input"]
ASSUMPTIONS = ["fault model: the writer's calls on its file object append, in order, a chunking of the stream it produces, and "
               "after a crash / failing / short call nothing more is written (then the disk content is a byte prefix: proved, "
               "C04_failing_or_short_write; that the implementation's calls are such a chunking is checked on every fault index)"]


def EXHAUSTIVE(tier):
    return False


def gen_cases(rng, tier):
    n = {"quick": 8, "thorough": 160, "search": 30}[tier]
    r = rng.fork("streams")
    cases = []
    # a stream whose record frames contain the stream magic / a whole header frame as field *content*
    ds = ["t/magic", [["bytes", "b"], ["string", "s"], ["varint", "n"]]]
    g = {"_generated": ["dt", [2020, 1, 1, 0, 0, 0, 0], "utc", 0]}
    cases.append({"kind": "cuts", "gz": True, "faults": True, "records": [
        ["rec", ds, [V.B(b"x"), V.S("plain"), V.I(1)], g],
        ["rec", ds, [V.B(b"\x00\x00\x00\x0f\xc4\x0dRECORDSTREAM\n"), V.S("a"), V.I(2)], g],
        ["rec", ds, [V.B(b"y"), V.S("RECORDSTREAM\n"), V.I(3)], g],
        ["rec", ds, [V.B(b"RECORDSTREAM\n"), V.S("zzRECORDSTREAM\nzz"), V.I(4)], g],
        ["rec", ds, [V.B(b"z"), V.S("end"), V.I(5)], g]]})
    # an evolved record type: the same name with the fields in another order / of other types, interleaved
    e1 = ["t/evolved", [["string", "hostname"], ["string", "username"], ["varint", "n"]]]
    e2 = ["t/evolved", [["string", "username"], ["string", "hostname"], ["varint", "n"]]]
    e3 = ["t/evolved", [["varint", "n"], ["string", "hostname"]]]
    ev = lambda d, a, b, k: ["rec", d, [V.S(a), V.S(b), V.I(k)] if len(d[1]) == 3 else [V.I(k), V.S(a)], g]  # noqa: E731
    cases.append({"kind": "cuts", "gz": False, "faults": True, "records": [
        ev(e1, "db-1", "alice", 1), ev(e1, "db-2", "bob", 2), ev(e2, "carol", "web-1", 3), ev(e2, "dave", "web-2", 4),
        ev(e1, "db-3", "erin", 5), ev(e3, "mail", "", 6), ev(e2, "frank", "web-3", 7)]})
    for i in range(n):
        ndesc = r.randint(1, 3)
        types = [t for t in V.SERIALISABLE if t not in ("net.ipaddress", "net.IPAddress")]  # C01's known finding
        descs = [V.gen_descspec(r, nfields=r.randint(1, 4), types=types) for _ in range(ndesc)]
        recs = []
        for _ in range(r.randint(3, 9)):
            if r.chance(10):
                recs.append(["grouped", "grp/x", [V.gen_record(r, descspec=r.choice(descs), types=types)
                                                  for _ in range(2)]])
            else:
                recs.append(V.gen_record(r, descspec=r.choice(descs), types=types))
        cases.append({"kind": "cuts", "records": shrink_big(recs), "gz": i % 2 == 0, "faults": i % 3 == 0})
    # frames far larger than any buffer (1-5 MiB values) with ordinary frames behind them, cut at a handful of positions
    # around every frame boundary and inside the large bodies (every byte would take hours)
    rb = rng.fork("big")
    bigcases = []
    for _ in range({"quick": 2, "thorough": 10, "search": 3}[tier]):
        dsb = ["t/big", [["bytes", "blob"], ["string", "txt"], ["varint", "n"]]]
        recs = []
        for i in range(rb.randint(3, 5)):
            big = rb.chance(40) or i == 1
            size = rb.choice([2 ** 20 - 30, 2 ** 20 + 1, 2 ** 20 + 4097, 3 * 2 ** 20 + 17, 5 * 2 ** 20]) if big else rb.randint(0, 40)
            recs.append(["rec", dsb, [["zeros", size] if rb.chance(50) else V.B(b"b"),
                                      ["spaces", size] if big else V.S("t%d" % i), V.I(i)], g])
        bigcases.append({"kind": "bigcuts", "records": recs, "gz": rb.chance(50)})
    # a comparison-ignore configuration in force while the stream is written (a de-duplicating producer): it concerns ==
    # and hash() only - the frames written are the same
    for c in cases:
        names = [n_ for s_ in c["records"] if s_[0] == "rec" for _, n_ in s_[1][1]]
        c["ignore"] = r.choice([["_generated"], names[:1] + ["_generated"], names[-1:] or ["_source"], ["_source", "_classification"]])
    return cases + bigcases


def shrink_big(recs):
    """keep streams small: replace very long strings (the 64k boundary values belong to C01)"""
    def fix(v):
        if isinstance(v, list):
            if len(v) == 2 and v[0] in ("str", "bytes") and isinstance(v[1], str) and len(v[1]) > 2400:
                return [v[0], v[1][:2400 - 2400 % 8]]
            return [fix(x) for x in v]
        if isinstance(v, dict):
            return {k: fix(x) for k, x in v.items()}
        return v
    return fix(recs)


def _read_all(fp_factory):
    """records yielded before the iteration ends or raises + how it ended"""
    from flow.record import RecordStreamReader
    out = []
    try:
        rd = RecordStreamReader(fp_factory())
    except Exception as e:
        return out, "error:" + type(e).__name__
    try:
        for rec in rd:
            out.append(rec)
        return out, "eof"
    except Exception as e:
        return out, "error:" + type(e).__name__


class FailingFile(io.BytesIO):
    """fails (mode 'fail') or writes only half of the data and then fails (mode 'short') at the i-th write call"""

    def __init__(self, at, mode, once=True, err=None):      # the fault hits exactly one call; later calls succeed
        super().__init__()
        self.at, self.mode, self.calls, self.err = at, mode, 0, err

    def write(self, data):
        self.calls += 1
        if self.calls == self.at:
            if self.mode == "short":
                super().write(data[: len(data) // 2])
            if self.err is not None:
                raise OSError(self.err, os.strerror(self.err))      # EAGAIN / EINTR / ENOSPC ...: the kind of failure
            raise OSError("injected write failure")                 # changes nothing about what is on disk
        return super().write(data)

    def close(self):
        pass


def _light(rec):
    """a cheap fingerprint of a (possibly huge) record: type, fields and a digest of every value"""
    import hashlib
    return [rec._desc.name, [[n, type(v).__name__, hashlib.sha256(repr(v).encode("utf-8", "surrogatepass")).hexdigest()]
                             for n, v in rec._asdict().items()]]


def _run_bigcuts(case):
    from flow.record import RecordReader, RecordStreamWriter
    recs = [V.build(s_) for s_ in case["records"]]
    buf = io.BytesIO()
    w = RecordStreamWriter(buf)
    ends = []
    for r in recs:
        w.write(r)
        ends.append(buf.tell())
    data = buf.getvalue()
    w.fp = None
    want = [_light(r) for r in recs]
    frames, _ = W.split_frames(data)
    bounds = [0] + [off + 4 + len(body) for off, body in frames]
    cuts = {len(data)}
    for b in bounds:
        for dlt in (-1, 0, 1, 3, 4, 5, 4100):
            if 19 <= b + dlt <= len(data):
                cuts.add(b + dlt)
    for (off, body) in frames:
        if len(body) > 2 ** 19:
            cuts.update({off + 4 + len(body) // 2, off + 4 + 2 ** 20, off + 4 + 2 ** 20 + 1} & set(range(len(data) + 1)))
    problems, per_cut = [], []
    d = tempfile.mkdtemp(prefix="frv-c04-")
    try:
        for k in sorted(cuts):
            n_expected = sum(1 for e in ends if e <= k)
            last = max(b for b in bounds if b <= k)
            want_clean = (k - last) < 4
            p = os.path.join(d, "cut.records" + (".gz" if case.get("gz") and k == len(data) else ""))
            with (gzip.open(p, "wb", compresslevel=1) if p.endswith(".gz") else open(p, "wb")) as fh:
                fh.write(data[:k])
            for via in ("fileobj", "path"):
                got, end = [], "eof"
                try:
                    rd = RecordReader(p) if via == "path" else RecordReader(fileobj=io.BytesIO(data[:k]))
                    try:
                        for rec in rd:
                            got.append(_light(rec))
                    finally:
                        rd.close()
                except Exception as e:          # noqa: BLE001
                    end = "error:" + type(e).__name__
                per_cut.append([k, via, len(got), end])
                if got != want[:len(got)]:
                    problems.append(f"cut {k} of {len(data)} ({via}): a yielded record differs from the record written")
                elif len(got) != n_expected:
                    problems.append(f"cut {k} of {len(data)} ({via}): {len(got)} records yielded, {n_expected} frames were "
                                    f"completely written (frame sizes {[len(b_) for _, b_ in frames]}; {end})")
                elif want_clean and end != "eof":
                    problems.append(f"cut {k} ({via}, frame boundary / inside a length prefix): reader raised {end}")
                elif not want_clean and end == "eof":
                    problems.append(f"cut {k} ({via}, inside a frame body): reader ended silently instead of raising")
    finally:
        shutil.rmtree(d, ignore_errors=True)
    return {"len": len(data), "per_cut": per_cut, "ncuts": len(per_cut), "nfaults": 0, "n_records": len(recs),
            "n_frames": len(frames), "full_end": "eof", "problems": problems[:5], "n_problems": len(problems),
            "same_under_ignore": None, "frame_sizes": [len(b_) for _, b_ in frames]}


def run_real(case):
    from flow.record import RecordReader, RecordStreamWriter

    if case.get("kind") == "bigcuts":
        with warnings.catch_warnings():
            warnings.simplefilter("ignore")
            return _run_bigcuts(case)

    with warnings.catch_warnings():
        warnings.simplefilter("ignore")
        recs = [V.build(s) for s in case["records"]]
        buf = io.BytesIO()
        w = RecordStreamWriter(buf)
        ends = []
        for r in recs:
            w.write(r)
            ends.append(buf.tell())
        data = buf.getvalue()
        w.fp = None
        same_under_ignore = None
        if case.get("ignore"):
            import flow.record.base as _B
            saved = set(_B.IGNORE_FIELDS_FOR_COMPARISON)
            _B.set_ignored_fields_for_comparison(list(case["ignore"]))
            try:
                buf2 = io.BytesIO()
                w2 = RecordStreamWriter(buf2)
                for r in recs:
                    w2.write(r)
                same_under_ignore = buf2.getvalue() == data
                w2.fp = None
            except Exception as e:          # noqa: BLE001
                same_under_ignore = "raised " + type(e).__name__
            finally:
                _B.set_ignored_fields_for_comparison(saved)
        hashes = []
        for r in recs:
            W.all_descs(r, hashes)
        full, end_full = _read_all(lambda: io.BytesIO(data))
        full_obs = [V.observe(r) for r in full]
        frames, _ = W.split_frames(data)
        bounds = [0] + [off + 4 + len(body) for off, body in frames]
        problems = []
        per_cut = []
        for k in range(len(data) + 1):
            got, end = _read_all(lambda: io.BytesIO(data[:k]))
            n_expected = sum(1 for e in ends if e <= k)
            per_cut.append([len(got), end])
            gobs = [V.observe(r) for r in got]
            if gobs != full_obs[:len(gobs)]:
                problems.append(f"cut {k}: a yielded record differs from the record written")
            elif len(got) != n_expected:
                problems.append(f"cut {k}: {len(got)} records yielded, {n_expected} frames were completely written")
            else:
                if k < 19:
                    want_clean = False
                else:
                    last = max(b for b in bounds if b <= k)
                    want_clean = (k - last) < 4
                if want_clean and end != "eof":
                    problems.append(f"cut {k} (frame boundary / inside a length prefix): reader raised {end}")
                if not want_clean and end == "eof":
                    problems.append(f"cut {k} (inside a frame body): reader ended silently instead of raising")
        ncuts = len(data) + 1
        # a sample of cuts through the path-based reader
        d = tempfile.mkdtemp(prefix="frv-c04-")
        try:
            step = max(1, len(data) // 25)
            for k in list(range(0, len(data) + 1, step)) + [len(data)]:
                p = os.path.join(d, "cut.records")
                open(p, "wb").write(data[:k])
                got, end = [], "eof"
                try:
                    rd = RecordReader(p)
                    try:
                        for rec in rd:
                            got.append(rec)
                    finally:
                        rd.close()
                except Exception as e:
                    end = "error:" + type(e).__name__
                ncuts += 1
                if [len(got), end.split(":")[0]] != [per_cut[k][0], per_cut[k][1].split(":")[0]]:
                    problems.append(f"path reader at cut {k}: {len(got)} records/{end}, file-object reader "
                                    f"{per_cut[k]}")
                # the same truncated file among the sources of record_stream() (what rdump iterates): it logs the damage
                # and goes on to the next source, but the records in front of the damage come out first
                import logging
                from flow.record.stream import record_stream
                logging.disable(logging.CRITICAL)
                try:
                    got2 = list(record_stream([p]))
                except Exception as e:          # noqa: BLE001
                    got2 = None
                    problems.append(f"record_stream over the file cut at {k} raised {type(e).__name__}")
                finally:
                    logging.disable(logging.NOTSET)
                ncuts += 1
                if got2 is not None and [V.observe(r) for r in got2] != [V.observe(r) for r in got]:
                    problems.append(f"record_stream over the file cut at {k} yields {len(got2)} records, the reader on the "
                                    f"same file yields {len(got)} before it ends")
            if case.get("gz"):
                gzdata = gzip.compress(data)
                for k in range(len(gzdata) + 1):
                    p = os.path.join(d, "cut.records.gz")
                    open(p, "wb").write(gzdata[:k])
                    got, end = [], "eof"
                    try:
                        rd = RecordReader(p)
                        try:
                            for rec in rd:
                                got.append(rec)
                        finally:
                            rd.close()
                    except Exception as e:
                        end = "error:" + type(e).__name__
                    ncuts += 1
                    gobs = [V.observe(r) for r in got]
                    if gobs != full_obs[:len(gobs)]:
                        problems.append(f"gzip cut {k}: a yielded record differs from / is not a prefix of the written ones")
                    # what an independent inflater recovers from the same truncated file decides how many frames
                    # are completely on disk
                    import zlib
                    try:
                        plain = zlib.decompressobj(wbits=31).decompress(gzdata[:k])
                    except zlib.error:
                        plain = b""
                    n_rec = sum(1 for e in ends if e <= len(plain)) if len(plain) >= 19 else 0
                    if len(got) != n_rec:
                        problems.append(f"gzip cut {k}: {len(got)} records yielded, but {n_rec} complete record frames "
                                        f"are recoverable from the truncated file ({len(plain)} plaintext bytes)")
                    if k == len(gzdata) and (len(got) != len(full_obs) or end != "eof"):
                        problems.append(f"complete gzip file: {len(got)} of {len(full_obs)} records, {end}")
                    # the same truncated file through a FILE OBJECT under a neutral name (compression sniffed from
                    # the leading bytes, as for stdin): the same records must come out
                    p2 = os.path.join(d, "cut.bin")
                    open(p2, "wb").write(gzdata[:k])
                    got2 = []
                    fh = open(p2, "rb")
                    try:
                        for rec in RecordReader(fileobj=fh):
                            got2.append(rec)
                    except Exception:
                        pass
                    finally:
                        fh.close()
                    ncuts += 1
                    g2 = [V.observe(r) for r in got2]
                    if g2 != full_obs[:len(g2)]:
                        problems.append(f"gzip cut {k} via file object: a yielded record differs from the written ones")
                    elif len(got2) != n_rec:
                        problems.append(f"gzip cut {k} via file object: {len(got2)} records yielded, but {n_rec} complete "
                                        f"record frames are recoverable from the truncated file")
        finally:
            shutil.rmtree(d, ignore_errors=True)
        nfaults = 0
        if case.get("faults"):
            total_calls = 2 * (len(frames))
            for mode in ("fail", "short"):
                for at in range(1, total_calls + 1):
                    f = FailingFile(at, mode)
                    w2 = RecordStreamWriter(f)
                    done = 0
                    try:
                        for r in recs:
                            w2.write(r)
                            done += 1
                    except OSError:
                        pass
                    w2.fp = None
                    disk = f.getvalue()
                    got, end = _read_all(lambda: io.BytesIO(disk))
                    nfaults += 1
                    gobs = [V.observe(r) for r in got]
                    if not data.startswith(disk):
                        problems.append(f"write fault {mode}@{at}: bytes on disk are not a prefix of the stream")
                    if gobs != full_obs[:len(gobs)]:
                        problems.append(f"write fault {mode}@{at}: a yielded record differs from the record written")
                    if len(got) != done:
                        problems.append(f"write fault {mode}@{at}: {done} write() calls returned, {len(got)} records read")
            # a producer that CARRIES ON after one failed write call (ENOSPC on one call, nothing of it written): the
            # file has a hole - a whole frame, or the body after its length prefix, is missing. Whatever the reader
            # yields must still be records that were written, unmodified and in order (then it ends or raises).
            import errno as _errno
            from flow.record.adapter.stream import StreamWriter
            variants = [(RecordStreamWriter, None, "")] + [(StreamWriter, e_, f" (stream adapter, {_errno.errorcode[e_]})")
                                                           for e_ in (_errno.EAGAIN, _errno.EINTR, _errno.ENOSPC)]
            for mk, err_, label in variants:
              for at in range(1, total_calls + 1):
                f = FailingFile(at, "fail", once=True, err=err_)
                w2 = mk(f)
                okidx = []
                for i, r in enumerate(recs):
                    try:
                        w2.write(r)
                        okidx.append(i)
                    except OSError:
                        pass
                w2.fp = None
                got, end = _read_all(lambda: io.BytesIO(f.getvalue()))
                nfaults += 1
                gobs = [V.observe(r) for r in got]
                # exactly the records whose write() returned, in order, as a PREFIX: the reader may stop with an error at
                # the hole (or at the first record whose descriptor frame was lost), it may not skip over it and go on
                want = [full_obs[i] for i in okidx]
                if gobs != want[:len(gobs)]:
                    k_ = next((i for i, (a_, b_) in enumerate(zip(gobs, want)) if a_ != b_), min(len(gobs), len(want)))
                    problems.append(f"write fault fail@{at}{label}, producer carried on: records yielded are not a prefix of the "
                                    f"completely written ones (first difference at position {k_}: "
                                    f"{str(gobs[k_] if k_ < len(gobs) else None)[:120]})")
                elif end == "eof" and len(gobs) != len(want):
                    problems.append(f"write fault fail@{at}{label}, producer carried on: the reader ended cleanly after "
                                    f"{len(gobs)} of {len(want)} completely written records")
                elif len(okidx) == len(recs) and f.calls >= at and (end != "eof" or len(gobs) != len(recs)):
                    # the file object failed one call, yet every write() returned normally: the writer claims that all
                    # records are complete, so all of them must be there
                    problems.append(f"write fault fail@{at}{label}: no write() call reported the failure, but only "
                                    f"{len(gobs)} of {len(recs)} records are read back ({end})")
        return {"len": len(data), "stream": data.hex(), "hashes": hashes, "per_cut": per_cut, "ncuts": ncuts,
                "nfaults": nfaults, "n_records": len(recs), "n_frames": len(frames), "full_end": end_full,
                "problems": problems[:5], "n_problems": len(problems), "same_under_ignore": same_under_ignore}


def oracle(case, obs):
    if obs["full_end"] != "eof":
        return f"the complete stream does not read cleanly: {obs['full_end']}"
    if obs.get("same_under_ignore") not in (None, True):
        return (f"with the comparison-ignore configuration {case.get('ignore')} in force the writer emits other bytes for "
                f"the same records ({obs['same_under_ignore']}): what a reader yields from them is not the records written")
    if obs["n_problems"]:
        return f"{obs['n_problems']} cut/fault positions violate the prefix property; first: {obs['problems'][0]}"
    return None


def model_op(case, obs):
    if case.get("kind") == "bigcuts":
        return None               # megabytes of frame: the oracle decides (the Lean cut model runs on the small streams)
    return {"op": "wire_cuts", "hex": obs["stream"]}     # identifiers by the model's own SHA-256 (Spec.descriptorHash)


def compare(case, obs, mo):
    if "cuts" not in mo:
        return f"model error: {mo}"
    mc = mo["cuts"]
    if len(mc) != len(obs["per_cut"]):
        return f"model evaluated {len(mc)} cuts, implementation {len(obs['per_cut'])}"
    for k, (m, i) in enumerate(zip(mc, obs["per_cut"])):
        mi = [m[0], m[1].split(":")[0] if m[1] != "notastream" else "error"]
        ii = [i[0], i[1].split(":")[0]]
        if mi != ii:
            return f"cut {k}: model {m} vs implementation {i}"
    return None


def nontrivial(case, obs):
    return obs["n_records"] >= 3 and obs["n_frames"] > obs["n_records"] + 1


def classify(case, obs):
    if case.get("kind") == "bigcuts":
        return ["bigcuts", f"bigcuts:largest-frame>={max(obs['frame_sizes']) // 2 ** 20}MiB"]
    out = [f"cuts:{obs['ncuts'] // 500 * 500}+", f"faults:{obs['nfaults'] > 0}", f"gz:{bool(case.get('gz'))}"]
    return out


def shrink(case):
    recs = case["records"]
    if len(recs) > 1:
        for i in range(len(recs)):
            yield dict(case, records=recs[:i] + recs[i + 1:])
