"""C05 — record fields always hold values of their declared type.

Correspondence: every field-type constructor (scalar and T[] form) on candidate pools (valid, boundary, +-1 outside,
wrong kind) and histories of construct / assign / failed assign / _replace on real records vs Model/Coerce.lean
(accept/reject, exception class, stored class and content, the state after every step, serialisability). What CPython's
builtins and stdlib answer (int(str), float(x), str(obj), fromisoformat, fromtimestamp, ip_address, urlparse, shlex,
pathlib) is computed by the harness by calling those functions directly and handed to the model as annotations.
Property oracle (real code only): after every operation each slot is None or an instance of the declared class (list
elements of the element class); accepted values are representable (unsigned range, boolean 0/1, bytes only from bytes,
digest hex/length, address range); naive datetimes become UTC, bytes become text with surrogate escapes; a raising
operation leaves the deep observation unchanged; RecordPacker().pack(record) succeeds after every accepted operation.
"""
import datetime as _dtm
import ipaddress as _ipm
import json
import os
import math
import pathlib
import shlex
import socket
import struct
import urllib.parse

from harness import values as V
from harness.values import dec_str, enc_str

ID = "C05"
CLAIM = dict(
    text="Kernel-checked theorems over a transcription of every field-type constructor and of Record.__setattr__ / "
         "__init__ / _replace as a state machine (library answers enter as annotations the theorems quantify over): every "
         "accepted value has the declared class, list elements the element class; the WellTyped invariant is preserved "
         "by every successful operation and lifted to every history by induction; a failed operation leaves the state "
         "unchanged; exact boundaries over all of Z (uint16/uint32/boolean) instantiated at the extracted constants; "
         "bytes only from bytes; naive datetime -> UTC; typed lists default to []; serialisability with the lone-surrogate "
         "counterexample and the partial theorem. Tie: translator (bounds, __setattr__ tests, defaults) + correspondence "
         "of constructors and op sequences + real-code oracle incl. RecordPacker.pack after every accepted step.",
    note="partial: builtins/stdlib behaviour is a quantified annotation, exercised not proved; `record` is a documented "
         "pass-through type; decoding (`_unpack`) is exercised by the oracle on packed round trips, not modelled; "
         "known findings: string('\\ud800') accepted but unserialisable; net.ipv4.Address accepts any int.",
    technique="Lean 4 theorems over an executable model + model/implementation correspondence",
    design="8/C05")
RULE = ("kinds: coerce (every whitelist type and its list form x the complete candidate pool: valid, boundary, +-1 "
        "outside, wrong kinds None/bool/int/float/nan/inf/str/bytes/bytearray/list/tuple/dict/record/path/datetime) and "
        "seq (records of 1-4 typed fields, construct + up to 12 assign/_replace operations drawn from the pools, "
        "including unknown slot names and None). Non-trivial = the candidate is not a plain valid value of the type (coerce) "
        "or the history contains >= 1 rejected and >= 1 accepted operation (seq). Distinct by case hash.")
TRUSTED = ["CPython builtins and stdlib (int, float, str, datetime.fromisoformat/fromtimestamp, ipaddress, urlparse, shlex, "
           "pathlib, binascii): enter the model as annotations computed by calling them directly",
           "msgpack packer acceptance (exercised by the oracle)"]
ASSUMPTIONS = ["candidates for `record` fields are records and None (documented pass-through type)",
               "dict candidates for digest fields do not carry md5/sha1/sha256 keys; path/command candidates carry no "
               "lone surrogates (their text lives inside library objects)"]
EXPLANATION = "the coerce kind enumerates type x pool completely on every run; seq histories are seeded"

G = ["dt", [2020, 1, 2, 3, 4, 5, 6], "utc", 0]
SCALARS = ["boolean", "command", "dynamic", "datetime", "filesize", "uint16", "uint32", "float", "string", "stringlist",
           "dictlist", "unix_file_mode", "varint", "wstring", "net.ipv4.Address", "net.ipv4.Subnet", "net.tcp.Port",
           "net.udp.Port", "uri", "digest", "bytes", "record", "net.ipaddress", "net.ipnetwork", "net.IPAddress",
           "net.IPNetwork", "path"]
LISTABLE = [t for t in SCALARS if t not in ("stringlist", "dictlist", "dynamic", "net.ipv4.Subnet")]
FNAMES = ["a", "b", "c", "d"]


def WORKERS(tier):
    return 8 if tier == "quick" else 16


def EXHAUSTIVE(tier):
    return False


def F(x):
    return ["float", struct.pack(">d", x).hex()]


S, I, B, NONE = V.S, V.I, V.B, V.NONE
REC0 = ["rec", ["c05/inner", [["string", "s"]]], [S("x")], {"_generated": G}]
WRONG = [NONE, ["bool", 1], ["bool", 0], I(0), I(1), I(-1), I(2), I(255), I(65535), I(65536), I(2 ** 32 - 1), I(2 ** 32),
         I(-2 ** 63), I(2 ** 64), I(10 ** 30), F(3.7), F(0.5), F(1.0), F(0.0), F(-0.0), F(-0.5), F(65535.0), F(65535.5), F(65536.0),
         F(4294967295.0), F(4294967296.0), F(1e20), F(float("nan")), F(float("inf")), F(float("-inf")),
         S(""), S("abc"), S("12"), S(" 1_0 "), S("1.5"), S("0"), S("1"), S("2020-01-02T03:04:05"), S("2020-01-02 03:04:05+01:00"),
         S("1.2.3.4"), S("::1"), S("10.0.0.0/8"), S("1.2.3.4/24"), S("/bin/ls -l"), S("'unbalanced"), S("http://["),
         S("d41d8cd98f00b204e9800998ecf8427e"), S("\ud800"), S("caf\udce9"), S("héllo"),
         B(b""), B(b"ab"), B(b"12"), B(b"\xff\xfe"), B(b"2020-01-02T03:04:05"), B(b"\x01\x02\x03\x04"), ["bytearray", "6162"],
         ["list", []], ["list", [I(1)]], ["list", [I(1), S("2")]], ["list", [NONE]], ["list", [S("a"), S("b")]], ["list", [I(65536)]],
         ["list", [F(0.5)]], ["list", [B(b"x")]], ["tuple", [I(1), I(2)]], ["tuple", [NONE, NONE, NONE]],
         ["tuple", [S("d41d8cd98f00b204e9800998ecf8427e"), NONE, NONE]], ["tuple", [S("zz"), NONE, NONE]],
         ["tuple", [S("d4"), NONE, NONE]], ["tuple", [S("d41d8cd98f00b204e9800998ecf8427"), NONE, NONE]],
         ["tuple", [S("d41d8cd98f00b204e9800998ecf8427e\n"), NONE, NONE]], ["tuple", [S(" d41d8cd98f00b204e9800998ecf8427e"), NONE, NONE]],
         ["tuple", [S("d41d8cd9 8f00b204 e9800998 ecf8427e"), NONE, NONE]], ["tuple", [S("d41d8cd98f00b204e9800998ecf8427e\r\n"), NONE, NONE]],
         ["tuple", [NONE, S("da39a3ee5e6b4b0d3255bfef95601890afd80709\t"), NONE]],
         ["dict", [[S("md5"), S("d41d8cd98f00b204e9800998ecf8427e\n")]]],
         ["tuple", [NONE, S("da39a3ee5e6b4b0d3255bfef95601890afd80709"), S("e3b0c44298fc1c149afbf4c8996fb92427ae41e4649b934ca495991b7852b855")]],
         # well-formed hex of ANOTHER hash's length in a slot (hashes given in the wrong order)
         ["tuple", [S("da39a3ee5e6b4b0d3255bfef95601890afd80709"), S("d41d8cd98f00b204e9800998ecf8427e"), NONE]],
         ["tuple", [S("e3b0c44298fc1c149afbf4c8996fb92427ae41e4649b934ca495991b7852b855"), NONE, NONE]],
         ["tuple", [NONE, S("d41d8cd98f00b204e9800998ecf8427e"), NONE]],
         ["tuple", [NONE, NONE, S("da39a3ee5e6b4b0d3255bfef95601890afd80709")]],
         ["tuple", [I(5), NONE, NONE]], ["tuple", [S("é" * 32), NONE, NONE]], ["list", [S("D41D8CD98F00B204E9800998ECF8427E"), NONE, NONE]],
         ["dict", [[S("a"), I(1)]]], ["dict", []], REC0, ["pathobj", "posix", enc_str("/a/b")], ["pathobj", "windows", enc_str("c:\\x")],
         ["dt", [2020, 1, 2, 3, 4, 5, 6], "naive", 0], ["dt", [2020, 1, 2, 3, 4, 5, 6], "utc", 0],
         ["dt", [2020, 1, 2, 3, 4, 5, 6], ["fixed", 3600, 0], 0], ["dt", [1, 1, 1, 0, 0, 0, 0], "naive", 0],
         ["dt", [9999, 12, 31, 23, 59, 59, 999999], "naive", 0]]


def _own_pool(r, t):
    """valid and boundary candidates of the type itself"""
    out = []
    if t.endswith("[]"):
        for _ in range(3):
            out.append(V.gen_value(r, t, none_chance=0))
        return out
    if t == "net.ipv4.Subnet":
        return [S("1.2.3.0/24"), S("10.0.0.0/8"), S("1.2.3.4"), S("0.0.0.0/0"),
                # prefix lengths an IPv4 network cannot have
                S("10.1.2.3/33"), S("10.0.0.0/40"), S("1.2.3.4/99"), S("0.0.0.0/64")]
    for _ in range(4):
        out.append(V.gen_value(r, t, none_chance=0))
    return out


def _unpre(spec):
    """the raw candidate behind a pre-converted one (`["pre", type, spec]` = an instance of the field type made from spec)"""
    while isinstance(spec, list) and spec and spec[0] == "pre":
        spec = spec[2]
    if isinstance(spec, list) and spec and spec[0] == "dtvia":
        return ["dt", list(spec[2]), "naive", 0]       # the same wall clock as a plain naive datetime
    if isinstance(spec, list) and spec and spec[0] == "prelist":
        return ["list", [_unpre(x) for x in spec[2]]]
    if isinstance(spec, list) and spec and spec[0] in ("list", "tuple"):
        return [spec[0], [_unpre(x) for x in spec[1]]]
    return spec


def _build(spec):
    k = spec[0]
    if k == "prelist":
        # a typed list instance of element type spec[1] (falls back to the plain list if that type refuses a value)
        raw = [_build(x) for x in spec[2]]
        try:
            from flow.record.base import fieldtype
            return fieldtype(spec[1] + "[]")(raw)
        except Exception:
            return raw
    if k == "pre":
        # an element / value that already IS an instance of the field type (taken from another record, a slice of a
        # typed list, ...): the isinstance shortcuts of typedlist._convert and Record.__setattr__ keep it as it is.
        # If the constructor refuses the candidate it stays raw.
        raw = _build(spec[2])
        try:
            from flow.record.base import fieldtype
            return fieldtype(spec[1])(raw)
        except Exception:
            return raw
    if k == "dtvia":
        # an instance of the datetime FIELD TYPE obtained through another door than `datetime(value)`: components with
        # an explicit tzinfo=None, the inherited alternative constructors, or `.replace(tzinfo=None)` of a value
        from flow.record import fieldtypes
        y, mo, d, h, mi, sec, us = spec[2]
        how = spec[1]
        FT = fieldtypes.datetime
        if how == "kw_none":
            return FT(y, mo, d, h, mi, sec, us, tzinfo=None)
        if how == "pos_none":
            return FT(y, mo, d, h, mi, sec, us, None)
        if how == "combine":
            return FT.combine(_dtm.date(y, mo, d), _dtm.time(h, mi, sec, us))
        if how == "fromisoformat":
            return FT.fromisoformat(_dtm.datetime(y, mo, d, h, mi, sec, us).isoformat())
        if how == "strptime":
            return FT.strptime("%04d-%02d-%02d %02d:%02d:%02d.%06d" % (y, mo, d, h, mi, sec, us), "%Y-%m-%d %H:%M:%S.%f")
        if how == "replace_naive":
            return FT(y, mo, d, h, mi, sec, us).replace(tzinfo=None)
        raise ValueError(how)
    if k == "bytearray":
        return bytearray(bytes.fromhex(spec[1]))
    if k == "pathobj":
        return (pathlib.PureWindowsPath if spec[1] == "windows" else pathlib.PurePosixPath)(dec_str(spec[2]))
    if k in ("list", "tuple"):
        xs = [_build(x) for x in spec[1]]
        return xs if k == "list" else tuple(xs)
    if k == "dict":
        return {_build(a): _build(b) for a, b in spec[1]}
    if k in ("path", "cmd"):
        return dec_str(spec[2])          # as text: the field type itself has to build the object
    return V.build(spec)


DTVIA = ["kw_none", "pos_none", "combine", "fromisoformat", "strptime", "replace_naive"]


def _has_dtvia(spec, how=None):
    if isinstance(spec, dict):
        return any(_has_dtvia(x, how) for x in spec.values())
    if isinstance(spec, list):
        if spec and spec[0] == "dtvia":
            return how is None or spec[1] == how
        return any(_has_dtvia(x, how) for x in spec)
    return False


def _is_record_candidate(spec):
    return spec[0] in ("none", "rec")


def _pool_for(r, t):
    base = t[:-2] if t.endswith("[]") else t
    pool = _own_pool(r, t)
    if base == "record":
        return pool + [NONE, REC0] + ([["list", [REC0, NONE]], ["list", []]] if t.endswith("[]") else [])
    pool += WRONG
    if t.endswith("[]") and base not in ("record",):
        # mixed lists: head already converted (an instance of the element type), tail raw - valid, boundary and wrong
        heads = [V.gen_value(r, base, none_chance=0) for _ in range(3)]
        tails = [V.gen_value(r, base, none_chance=0) for _ in range(2)] + [w for w in WRONG if w[0] not in ("list", "tuple", "dict")
                                                                           and not (base in ("path", "command") and w[0] == "str" and not V.is_text(dec_str(w[1])))]
        for i, w in enumerate(tails):
            pool.append(["list", [["pre", base, heads[i % 3]], w]])
        pool.append(["list", [["pre", base, heads[0]], ["pre", base, heads[1]]]])
        pool.append(["tuple", [["pre", base, heads[2]], heads[0], ["pre", base, heads[1]]]])
    if t.endswith("[]"):
        # a typed list taken from a field of ANOTHER element type (records of two types / versions sharing a field name):
        # every element has to be converted to this field's element type - or the value refused
        foreign = {"uint16": ["uint32", "varint", "filesize"], "uint32": ["varint", "uint16"], "varint": ["uint16", "uint32"],
                   "string": ["bytes"], "bytes": ["string"], "path": ["string"], "uri": ["string"],
                   "boolean": ["varint", "uint16"], "float": ["varint"], "net.ipaddress": ["string", "varint"],
                   "net.tcp.Port": ["uint32", "varint"]}.get(base, [])
        for ft in foreign:
            for vals in ([V.gen_value(r, ft, none_chance=0) for _ in range(2)],
                         {"uint32": [I(70000), I(5)], "varint": [I(-5), I(1), I(2 ** 40)], "filesize": [I(65536)],
                          "bytes": [B(b"caf\xe9"), B(b"ok")], "string": [S("not-an-address"), S("1.2.3.4")],
                          "uint16": [I(2), I(0)]}.get(ft, [])):
                if vals:
                    pool.append(["prelist", ft, vals])
    if not t.endswith("[]") and base not in ("record", "dynamic", "stringlist", "dictlist", "net.ipv4.Subnet"):
        pool += [["pre", base, V.gen_value(r, base, none_chance=0)] for _ in range(2)]
    if base in ("net.ipaddress", "net.IPAddress"):
        # an instance of the SIBLING field type (a network taken from another record's net.ipnetwork field)
        pre = [["pre", "net.ipnetwork", S("10.0.0.0/8")], ["pre", "net.ipnetwork", S("1.2.3.4/32")], ["pre", "net.ipnetwork", S("fe80::/10")]]
        pool += [["list", [x, S("1.2.3.4")]] for x in pre] if t.endswith("[]") else pre
    if base == "datetime":
        comps = r.choice([[2020, 1, 2, 3, 4, 5, 6], [1999, 12, 31, 23, 59, 59, 999999], [2024, 2, 29, 0, 0, 0, 0]])
        for how in DTVIA:
            if t.endswith("[]"):
                pool.append(["list", [["dtvia", how, comps], ["dt", comps, "naive", 0]]])
            else:
                pool.append(["dtvia", how, comps])
    if base == "digest":
        pool = [p for p in pool if not (p[0] == "dict" and any(dec_str(kk[1]) in ("md5", "sha1", "sha256") for kk, _ in p[1] if kk[0] == "str"))]
    if base == "bytes":
        pool = [p for p in pool if not (p[0] == "int" and 10 ** 6 < int(p[1]) < 2 ** 63)]
    if base in ("path", "command"):
        pool = [p for p in pool if not (p[0] == "str" and not V.is_text(dec_str(p[1])))]
    return pool


def gen_cases(rng, tier):
    n = {"quick": 500, "thorough": 6000, "search": 1500}[tier]
    cases = []
    # --- every type (scalar and list form) x the whole pool
    for t in SCALARS + [x + "[]" for x in LISTABLE]:
        r = rng.fork("pool-" + t)
        for spec in _pool_for(r, t):
            if spec[0] in ("pre", "dtvia"):   # T(instance of T) is not the isinstance shortcut of __setattr__: histories only
                continue
            cases.append({"kind": "coerce", "type": t, "value": spec})
    # --- grouped records whose members declare one field name with DIFFERENT types, and list types whose element classes
    # share a class name (net.tcp.Port / net.udp.Port are both called `port`)
    G0 = {"_generated": ["dt", [2020, 1, 2, 3, 4, 5, 6], "utc", 0]}
    for (ta, va), (tb, vb) in ((("varint", I(70000)), ("uint16", I(5))), (("varint", I(-5)), ("uint16", I(7))),
                               (("string", S("not a time")), ("datetime", ["dt", [2020, 1, 2, 3, 4, 5, 6], "utc", 0])),
                               (("uint16", I(5)), ("varint", I(70000))), (("float", F(0.5)), ("varint", I(3)))):
        ma = ["rec", ["g/a", [[ta, "count"], ["string", "s"]]], [va, S("a")], G0]
        mb = ["rec", ["g/b", [[tb, "count"], ["string", "u"]]], [vb, S("b")], G0]
        cases.append({"kind": "grpflat", "name": "grp/c05", "members": [ma, mb]})
        cases.append({"kind": "grpflat", "name": "grp/c05", "members": [mb, ma, mb]})
        for asg in ([["count", I(7)]], [["count", I(65536)], ["s", B(b"raw")]], [["count", I(-1)]], [["u", B(b"x")], ["count", S("12")]],
                    [["count", ["dt", [2020, 1, 2, 3, 4, 5, 6], "naive", 0]]]):
            cases.append({"kind": "grpflat", "name": "grp/c05", "members": [ma, mb], "assign": asg})
            cases.append({"kind": "grpflat", "name": "grp/c05", "members": [mb, ma], "assign": asg})
    for types in (["net.tcp.Port[]", "net.udp.Port[]"], ["net.udp.Port[]", "net.tcp.Port[]"], ["string[]", "wstring[]", "uri[]"],
                  ["uint16[]", "net.tcp.Port[]", "uint32[]"]):
        cases.append({"kind": "listcls", "types": types, "values": [I(80), I(443)] if "string[]" not in types else [S("a")]})
    # --- the hashes of a digest that already sits in a record, assigned one by one: a refused value changes nothing
    MD5, SHA1 = "d41d8cd98f00b204e9800998ecf8427e", "da39a3ee5e6b4b0d3255bfef95601890afd80709"
    for start in (["digest", [MD5, SHA1, None]], ["digest", [None, None, None]]):
        for target in ("d", "dl"):
            cases.append({"kind": "digestsub", "start": start, "ops": [
                [target, "md5", "zz" * 16], [target, "md5", "abc"], [target, "md5", "abcd"], [target, "sha1", MD5], [target, "sha256", SHA1],
                [target, "md5", "900150983cd24fb0d6963f7d28e17f72"], [target, "sha1", "xyz"], [target, "md5", None], [target, "md5", MD5 + "00"]]})
    # --- histories in a FRESH interpreter whose very first construction of a type is a REFUSED one
    for fields, args, ops in (
            ([["boolean", "a"], ["boolean[]", "l"]], [NONE, ["list", []]],
             [["assign", "a", I(2)], ["assign", "a", ["bool", 1]], ["assign", "l", ["list", [["bool", 1], ["bool", 0]]]], ["replace", [["a", ["bool", 1]]]]]),
            ([["uint16", "a"], ["uint16[]", "l"]], [NONE, ["list", []]],
             [["assign", "a", I(70000)], ["assign", "a", I(7)], ["assign", "l", ["list", [I(7), I(70000)]]], ["assign", "l", ["list", [I(7)]]]]),
            ([["uint32", "a"], ["varint", "b"]], [NONE, NONE],
             [["assign", "a", I(-1)], ["assign", "a", I(1)], ["assign", "b", S("x")], ["assign", "b", I(1)]]),
            ([["digest", "d"]], [NONE], [["assign", "d", ["tuple", [S("zz"), NONE, NONE]]],
                                         ["assign", "d", ["tuple", [S("d41d8cd98f00b204e9800998ecf8427e"), NONE, NONE]]]])):
        cases.append({"kind": "seq", "fields": fields, "args": args, "ops": ops, "fresh": True})
    # --- naive timestamps handed over in a process whose DISPLAY zone (FLOW_RECORD_TZ, read at import) is not UTC: the
    # display zone is for printing - a naive value still means UTC, whatever door it comes through
    for tz_ in ("Europe/Amsterdam", "Asia/Tokyo", "America/New_York", "NONE"):
        c7a, c7b = [2021, 6, 1, 12, 0, 0, 0], [2020, 10, 25, 2, 30, 0, 5]
        nv = lambda c: ["dt", c, "naive", 0]      # noqa: E731
        cases.append({"kind": "seq", "fields": [["datetime", "a"], ["datetime[]", "l"]],
                      "args": [nv(c7a), ["list", [nv(c7b), nv(c7a)]]],
                      "ops": [["assign", "a", nv(c7b)], ["replace", [["a", nv(c7a)], ["l", ["list", [nv(c7a)]]]]],
                              ["assign", "l", ["list", [nv(c7b), ["dt", c7a, "utc", 0]]]]],
                      "fresh": True, "tz": tz_})
    # --- fixed histories
    cases.append({"kind": "seq", "fields": [["boolean", "a"], ["uint16", "b"]], "args": [["bool", 1], I(5)],
                  "ops": [["assign", "a", F(0.5)], ["assign", "a", I(0)], ["assign", "b", I(65536)], ["assign", "b", I(65535)],
                          ["assign", "b", I(-1)], ["assign", "a", I(2)], ["assign", "zz", I(1)], ["assign", "b", NONE]]})
    cases.append({"kind": "seq", "fields": [["string", "s"], ["bytes", "b"], ["datetime", "t"]],
                  "args": [B(b"\xff"), B(b"x"), ["dt", [2020, 1, 2, 3, 4, 5, 6], "naive", 0]],
                  "ops": [["assign", "s", S("\ud800")], ["assign", "s", S("ok")], ["assign", "b", S("text")],
                          ["replace", [["s", B(b"caf\xe9")], ["t", S("2021-01-01T00:00:00")]]], ["replace", [["nope", I(1)]]]]})
    # the datetime field type through its other doors (explicit tzinfo=None, inherited alternative constructors)
    c7 = [2020, 1, 2, 3, 4, 5, 6]
    for how in DTVIA:
        if how == "replace_naive":
            continue             # the recorded finding; its witness runs from known_findings.json
        cases.append({"kind": "seq", "fields": [["datetime", "a"], ["datetime[]", "l"]],
                      "args": [["dtvia", how, c7], ["list", [["dtvia", how, c7]]]],
                      "ops": [["assign", "a", ["dtvia", how, [1999, 12, 31, 23, 59, 59, 999999]]],
                              ["replace", [["a", ["dtvia", how, c7]], ["l", ["list", [["dt", c7, "naive", 0], ["dtvia", how, c7]]]]]]]})
    # a network (instance of the sibling field type, taken from another record) offered where an ADDRESS is declared
    for net in ("10.0.0.0/8", "1.2.3.4/32", "fe80::/10"):
        cases.append({"kind": "seq", "fields": [["net.ipaddress", "a"], ["net.ipaddress[]", "l"]],
                      "args": [S("1.2.3.4"), ["list", [S("::1")]]],
                      "ops": [["assign", "a", ["pre", "net.ipnetwork", S(net)]],
                              ["replace", [["l", ["list", [S("10.0.0.1"), ["pre", "net.ipnetwork", S(net)]]]]]],
                              ["assign", "a", S("10.0.0.2")]]})
    # --- random histories
    r = rng.fork("seq")
    for _ in range(n):
        nf = r.randint(1, 4)
        fields = []
        for fn in FNAMES[:nf]:
            t = r.choice(SCALARS)
            if t in LISTABLE and r.chance(30):
                t += "[]"
            fields.append([t, fn])
        pools = {fn: _pool_for(r, t) for t, fn in fields}

        def pick(fn, valid_bias=50):
            p = pools[fn]
            own = 3 if not dict((b, a) for a, b in fields)[fn].endswith("[]") else 3
            return r.choice(p[:own + 1]) if r.chance(valid_bias) else r.choice(p)

        args = [pick(fn, 75) for _, fn in fields]
        ops = []
        for _ in range(r.randint(1, 12)):
            w = r.below(10)
            if w < 7:
                fn = r.choice([f for _, f in fields] + (["nope"] if r.chance(10) else []))
                ops.append(["assign", fn, pick(fn) if fn in pools else I(1)])
            else:
                ks = r.sample([f for _, f in fields], r.randint(0, nf))
                kvs = [[fn, pick(fn, 65)] for fn in ks]
                if r.chance(10):
                    kvs.append(["nope", I(1)])
                ops.append(["replace", kvs])
        cases.append({"kind": "seq", "fields": fields, "args": args, "ops": ops})
    return cases


# ------------------------------------------------------------------ real code

def _exc(e):
    return {"error": type(e).__name__, "msg": str(e)[:120]}


def _typed_flags(rec, fields):
    from flow.record import Record
    from flow.record.base import fieldtype
    out = []
    for t, fn in fields:
        v = getattr(rec, fn)
        cls = fieldtype(t)
        if v is None:
            out.append("none")
        elif t == "record":
            out.append("ok" if isinstance(v, Record) else "pass-through:" + type(v).__name__)
        elif t == "dynamic":
            from flow.record.base import FieldType
            out.append("ok" if isinstance(v, FieldType) else "wrong-class:" + type(v).__name__)
        elif not isinstance(v, cls):
            out.append("wrong-class:" + type(v).__name__)
        elif t.endswith("[]"):
            et = cls.__type__
            bad = [type(x).__name__ for x in v if not (isinstance(x, et) or (t == "record[]" and (x is None or isinstance(x, Record))))]
            out.append("ok" if not bad else "wrong-element-class:" + bad[0])
        else:
            out.append("ok")
    return out


def _state(rec, fields):
    from flow.record import RecordPacker
    st = {"slots": [V.observe(getattr(rec, fn)) for _, fn in fields], "typed": _typed_flags(rec, fields)}
    try:
        packer = RecordPacker()
        blob = packer.pack(rec)
        st["pack"] = "ok" if isinstance(blob, (bytes, bytearray)) and len(blob) > 0 else "empty"
    except Exception as e:
        st["pack"] = type(e).__name__
        return st
    # decoding: the record read back from the packed form must be typed as well
    try:
        back = packer.unpack(blob)
        st["decoded"] = _typed_flags(back, fields)
    except Exception as e:
        st["decoded"] = "raised " + type(e).__name__
    return st


def run_real(case):
    import warnings
    warnings.simplefilter("ignore")
    from flow.record import RecordDescriptor
    from flow.record.base import fieldtype
    k = case["kind"]
    if case.get("fresh"):
        # the whole history runs in a FRESH interpreter (nothing was constructed before its first step)
        import subprocess
        import sys as _sys
        verif = os.path.dirname(os.path.dirname(os.path.dirname(os.path.abspath(__file__))))
        code = ("import sys, json; sys.path.insert(0, %r); sys.path.insert(0, %r)\n"
                "from harness.props import C05\n"
                "print('\\n' + json.dumps(C05.run_real(json.loads(sys.stdin.read()))))\n") % (verif, os.environ.get("VERIF_REPO", "/repo"))
        p_ = subprocess.run([_sys.executable, "-c", code], input=json.dumps({k_: v_ for k_, v_ in case.items() if k_ != "fresh"}),
                            capture_output=True, text=True, timeout=120,
                            env=dict(os.environ, PYTHONDONTWRITEBYTECODE="1",
                                     **({"FLOW_RECORD_TZ": case["tz"]} if case.get("tz") else {})))
        if p_.returncode != 0:
            raise RuntimeError("fresh interpreter failed: " + p_.stderr[-300:])
        return json.loads(p_.stdout.strip().splitlines()[-1])
    if k == "grpflat":
        # a grouped record: every field of its FLAT descriptor holds a value of the type that descriptor declares
        from flow.record import GroupedRecord
        from harness import values as _V
        g = GroupedRecord(case["name"], [_V.build_record(m) for m in case["members"]])
        out = []
        # assignments made THROUGH the group reach the member that provides the field - and are converted or refused
        # there like any other assignment
        for fname, vspec in case.get("assign", []):
            try:
                setattr(g, fname, _V.build(vspec))
            except Exception:          # noqa: BLE001
                pass
        for t, n in g._desc.get_field_tuples():
            v = getattr(g, n)
            out.append([n, t, type(v).__name__, v is None or isinstance(v, fieldtype(t))])
        # ... and the two port list types resolved in one process keep their own element classes
        return {"flat": out}
    if k == "digestsub":
        # assignments to the hashes of a digest that already sits in a record (`rec.d.md5 = value`)
        d = RecordDescriptor("t/dg", [("digest", "d"), ("digest[]", "dl")])
        from harness import values as _V
        rec = d(d=_V.build(case["start"]), dl=[_V.build(case["start"])])
        steps = []
        for target, attr, val in case["ops"]:
            obj = rec.d if target == "d" else rec.dl[0]
            before = [obj.md5, obj.sha1, obj.sha256, [None if x is None else x.hex() for x in obj._pack()]]
            try:
                setattr(obj, attr, val)
                ok = True
            except Exception as e:          # noqa: BLE001
                ok = type(e).__name__
            after = [obj.md5, obj.sha1, obj.sha256, [None if x is None else x.hex() for x in obj._pack()]]
            steps.append({"ok": ok, "before": before, "after": after})
        return {"dsteps": steps}
    if k == "listcls":
        out = []
        for t in case["types"]:
            d = RecordDescriptor("t/lc", [(t, "v")])
            rec = d(v=[_build(x) for x in case["values"]])
            el = fieldtype(t[:-2])
            out.append([t, [type(e).__module__ + "." + type(e).__name__ for e in rec.v], all(type(e) is el for e in rec.v)])
        return {"lists": out}
    if k == "coerce":
        t = case["type"]
        x = _build(case["value"])
        try:
            v = fieldtype(t)(x)
        except Exception as e:
            return _exc(e)
        cls = fieldtype(t)
        obs = {"ok": True, "value": V.observe(v), "class": type(v).__name__,
               "isinstance": isinstance(v, cls) or t in ("record", "dynamic")}
        if t.endswith("[]"):
            obs["elem_isinstance"] = all(isinstance(e, cls.__type__) or t == "record[]" for e in v)
        # serialisability inside a record
        d = RecordDescriptor("c05/one", [(t, "f")])
        try:
            rec = d.recordType(_generated=V.build(G))
            object.__setattr__(rec, "f", v)
            obs["state"] = _state(rec, [[t, "f"]])
        except Exception as e:
            obs["state"] = _exc(e)
        return obs
    if k == "seq":
        fields = case["fields"]
        d = RecordDescriptor("c05/seq", [tuple(f) for f in fields])
        try:
            rec = d.recordType(*[_build(a) for a in case["args"]], _generated=V.build(G))
        except Exception as e:
            return {"construct": _exc(e), "steps": []}
        out = {"construct": {"ok": True, "state": _state(rec, fields)}, "steps": []}
        for op in case["ops"]:
            before = _state(rec, fields)
            step = {}
            try:
                if op[0] == "assign":
                    setattr(rec, op[1], _build(op[2]))
                else:
                    new = rec._replace(**{kk: _build(v) for kk, v in op[1]})
                    step["new_object"] = new is not rec
                    step["old_after"] = _state(rec, fields)
                    rec = new
                step["ok"] = True
            except Exception as e:
                step.update(_exc(e))
                step["ok"] = False
            step["before"] = before
            step["state"] = _state(rec, fields)
            out["steps"].append(step)
        return out
    raise ValueError(k)


# ------------------------------------------------------------------ oracle

def _lone_surrogate(o):
    """a str spec / observation somewhere inside holds a surrogate that is not a surrogate escape"""
    if isinstance(o, dict):
        return any(_lone_surrogate(x) for x in o.values())
    if isinstance(o, list):
        if len(o) in (2, 3) and o[0] == "str" and isinstance(o[-1], str):
            try:
                s = dec_str(o[-1])
            except Exception:
                return False
            return any(0xD800 <= ord(c) <= 0xDFFF and not (0xDC80 <= ord(c) <= 0xDCFF) for c in s)
        return any(_lone_surrogate(x) for x in o)
    return False


def _num_of(spec):
    k = spec[0]
    if k == "bool":
        return bool(spec[1])
    if k == "int":
        return int(spec[1])
    if k == "float":
        return struct.unpack(">d", bytes.fromhex(spec[1]))[0]
    return None


def _check_value(t, spec, o):
    """accepted input `spec` stored as observation `o` in a field of (scalar) type t: is it representable / converted?"""
    spec = _unpre(spec)
    if o == ["none"]:
        return None
    if t in ("uint16", "net.tcp.Port", "net.udp.Port", "uint32"):
        hi = 0xFFFF if t != "uint32" else 0xFFFFFFFF
        n = int(o[1])
        if not (0 <= n <= hi):
            return f"{t} field holds {n}, outside 0..{hi}"
        x = _num_of(spec)
        if x is not None and not (isinstance(x, float) and math.isnan(x)) and not (0 <= x <= hi):
            return f"{t} accepted out-of-range value {x!r}"
    if t == "boolean":
        if o[1] not in (0, 1):
            return f"boolean field holds {o[1]}"
        x = _num_of(spec)
        if x is not None and not (x == 0 or x == 1):
            return f"boolean accepted {x!r}, which is neither 0 nor 1"
    if t == "bytes":
        if spec[0] != "bytes":
            return f"bytes field accepted a {spec[0]}"
    if t == "digest" and o[0] == "digest":
        for v, ln in zip(o[1:], (32, 40, 64)):
            if v is not None and not (isinstance(v, str) and len(v) == ln and all(c in "0123456789abcdefABCDEF" for c in v)):
                return f"digest field holds malformed hash {v!r}"
    if t == "net.ipv4.Address" and o[0] == "ipv4.address" and o[1].lstrip("-").isdigit():
        if not (0 <= int(o[1]) < 2 ** 32):
            return f"net.ipv4.Address field holds {o[1]}, not an IPv4 address"
    if t == "net.ipv4.Subnet" and spec[0] == "str":
        txt = dec_str(spec[1])
        if "/" in txt:
            bits = txt.rpartition("/")[2]
            if bits.lstrip("-").isdigit() and not (0 <= int(bits) <= 32):
                return f"net.ipv4.Subnet accepted {txt!r}: an IPv4 network has no prefix length {bits}"
    if t in ("net.ipaddress", "net.IPAddress") and o[0] == "ip":
        if not (0 <= int(o[3]) < (2 ** 32 if o[2] == 4 else 2 ** 128)):
            return "address out of range"
    if t in ("net.ipaddress", "net.IPAddress", "net.ipnetwork", "net.IPNetwork") and spec[0] not in ("rec", "pathobj"):
        # "malformed address ... is rejected": well-formed = what the standard library's parser accepts (the
        # reference is evaluated here, independently of the field type and of anything it may have cached)
        try:
            x = _build(spec)
            (_ipm.ip_address if "address" in t.lower() else _ipm.ip_network)(x)
        except (ValueError, TypeError) as e:
            return f"{t} accepted {json.dumps(spec)[:60]}, which is not a well-formed {'address' if 'address' in t.lower() else 'network'} ({type(e).__name__})"
        except Exception:
            pass
    if t == "datetime" and o[0] == "dt":
        if o[3] is None:
            return "datetime field holds a naive datetime"
        if spec[0] == "dt" and spec[2] == "naive" and (o[2] != list(spec[1]) or o[3] != 0):
            return "naive datetime was not taken as UTC"
    if t in ("string", "wstring") and spec[0] == "bytes":
        want = bytes.fromhex(spec[1]).decode(errors="surrogateescape")
        if o != ["str", "string", enc_str(want)]:
            return "bytes were not converted to text with surrogate escapes"
    return None


def _check_state(fields, st, what):
    for (t, fn), flag in zip(fields, st["typed"]):
        if flag not in ("ok", "none"):
            return f"{what}: field {fn} ({t}) holds {flag}"
    if st["pack"] != "ok":
        return f"{what}: record accepted all assignments but cannot be serialised ({st['pack']})"
    return _check_decoded(fields, st, what)


def _check_decoded(fields, st, what):
    dec = st.get("decoded")
    if isinstance(dec, str):
        return None          # whether the packed form reads back at all is C01's subject
    for (t, fn), flag in zip(fields, dec or []):
        if flag not in ("ok", "none") and not flag.startswith("pass-through"):
            return f"{what}: after decoding, field {fn} ({t}) holds {flag}"
    return None


def oracle(case, obs):
    k = case["kind"]
    if k == "grpflat":
        for n, t, cls, ok in obs["flat"]:
            if not ok:
                return (f"grouped record: flat field {n} is declared {t} but holds a {cls} (members declare the name with "
                        f"different types: the first member provides the value AND the type)")
        return None
    if k == "digestsub":
        LEN = {"md5": 32, "sha1": 40, "sha256": 64}
        for (target, attr, val), st in zip(case["ops"], obs["dsteps"]):
            valid = val is None or (isinstance(val, str) and len(val) == LEN[attr] and all(c in "0123456789abcdefABCDEF" for c in val))
            if valid and st["ok"] is not True:
                return f"digest.{attr} = {val!r} (a well-formed hash) was refused with {st['ok']}"
            if not valid:
                if st["ok"] is True:
                    return f"digest.{attr} = {val!r} (not a {attr} hash) was accepted"
                if st["after"] != st["before"]:
                    return (f"digest.{attr} = {val!r} was refused ({st['ok']}) but the digest changed all the same: "
                            f"{st['before'][:3]} -> {st['after'][:3]} (packed {st['after'][3]})")
        return None
    if k == "listcls":
        for t, classes, ok in obs["lists"]:
            if not ok:
                return f"{t}: the list holds elements of class {classes} instead of the element type's own class"
        return None
    if k == "coerce":
        if "error" in obs:
            return None
        t = case["type"]
        if not obs["isinstance"]:
            return f"{t}({json.dumps(case['value'])[:60]}) returned a {obs['class']}"
        if t.endswith("[]"):
            if not obs.get("elem_isinstance", True):
                return f"{t} list holds an element that is not of the element type"
            base = t[:-2]
            o = obs["value"]
            els = _unpre(case["value"])[1] if _unpre(case["value"])[0] in ("list", "tuple") else None
            if els is not None and o[0] == "list" and len(o[2]) == len(els):
                for e_spec, e_obs in zip(els, o[2]):
                    f = _check_value(base, e_spec, e_obs)
                    if f:
                        return f
        else:
            f = _check_value(t, case["value"], obs["value"])
            if f:
                return f
        st = obs["state"]
        if "error" in st:
            return None
        if st["pack"] != "ok" and (t not in ("record",) or _is_record_candidate(case["value"])):
            return f"{t} accepted {json.dumps(case['value'])[:60]} but the record cannot be serialised ({st['pack']})"
        return _check_decoded([[t, "f"]], st, f"{t}({json.dumps(case['value'])[:40]})")
    if k == "seq":
        fields = case["fields"]
        if "error" in obs["construct"]:
            return None
        f = _check_state(fields, obs["construct"]["state"], "after construction")
        if f:
            return f
        for (t, fn), spec, o in zip(fields, case["args"], obs["construct"]["state"]["slots"]):
            f = _check_scalar_or_list(t, spec, o)
            if f:
                return "after construction: " + f
        for i, (op, st) in enumerate(zip(case["ops"], obs["steps"])):
            what = f"after step {i} ({op[0]})"
            if not st["ok"]:
                if st["state"] != st["before"]:
                    return f"{what}: the operation raised {st['error']} but the record changed"
                continue
            f = _check_state(fields, st["state"], what)
            if f:
                return f
            if op[0] == "assign":
                types = dict((fn, t) for t, fn in fields)
                if op[1] not in types:
                    return f"{what}: assignment to unknown field {op[1]} was accepted"
                idx = [fn for _, fn in fields].index(op[1])
                f = _check_scalar_or_list(types[op[1]], op[2], st["state"]["slots"][idx])
                if f:
                    return f"{what}: {f}"
                for j, (a, b) in enumerate(zip(st["before"]["slots"], st["state"]["slots"])):
                    if j != idx and a != b:
                        return f"{what}: another field changed"
            else:
                names = [fn for _, fn in fields]
                if any(kk not in names for kk, _ in op[1]):
                    return f"{what}: _replace accepted an unknown field name"
                if st.get("old_after") != st["before"]:
                    return f"{what}: _replace modified the original record"
                given = dict((kk, v) for kk, v in op[1])
                for j, (t, fn) in enumerate(fields):
                    if fn in given:
                        f = _check_scalar_or_list(t, given[fn], st["state"]["slots"][j])
                        if f:
                            return f"{what}: {f}"
                    elif st["state"]["slots"][j] != st["before"]["slots"][j] and st["before"]["slots"][j] != ["none"]:
                        return f"{what}: _replace changed field {fn} that was not named"
        return None
    return None


def _check_scalar_or_list(t, spec, o):
    spec = _unpre(spec)
    if t.endswith("[]"):
        if o[0] == "list" and spec[0] in ("list", "tuple") and len(o[2]) == len(spec[1]):
            for e_spec, e_obs in zip(spec[1], o[2]):
                f = _check_value(t[:-2], e_spec, e_obs)
                if f:
                    return f
        return None
    return _check_value(t, spec, o)


# ------------------------------------------------------------------ model input: values with library annotations

class Toks:
    def __init__(self):
        self.items = []

    def add(self, o):
        self.items.append(o)
        return len(self.items) - 1


def _lib(fn, toks):
    """run a builtin / stdlib call -> LibRes JSON"""
    try:
        r = fn()
    except Exception as e:
        return ["err", type(e).__name__]
    if isinstance(r, bool) or r is None:
        return ["tok", toks.add(None)]
    if isinstance(r, int):
        return ["int", str(r)]
    if isinstance(r, str):
        return ["str", enc_str(r)]
    if isinstance(r, _dtm.datetime):
        off = r.utcoffset()
        return ["dt", [r.year, r.month, r.day, r.hour, r.minute, r.second, r.microsecond],
                None if off is None else str((off.days * 86400 + off.seconds) * 1000000 + off.microseconds)]
    return ["tok", toks.add(r)]


def _is_windows_cmd(value):
    stripped = value.lstrip("\"'")
    return value.startswith(("\\\\", "%")) or (len(stripped) >= 2 and stripped[1] == ":")


def _cmd(value):
    executable, *args = shlex.split(value, posix=not _is_windows_cmd(value))
    return ("cmd", executable, args)


def _subnet(addr):
    ip, sep, mask = addr.partition("/")
    m = ((0xFFFFFFFF << (32 - int(mask))) & 0xFFFFFFFF) if mask else 0xFFFFFFFF
    net = struct.unpack(">I", socket.inet_aton(ip))[0]
    if net & m != net:
        raise ValueError("Not a valid subnet")
    return ("subnet", net, m)


def _ann(x, toks):
    a = {}
    if not isinstance(x, (int, float, list, tuple, dict, _dtm.datetime)):
        a["int"] = _lib(lambda: int(x), toks)
    if not isinstance(x, (list, tuple, dict, _dtm.datetime)):
        a["float"] = _lib(lambda: ("float", struct.pack(">d", float(x)).hex()), toks)
    if isinstance(x, bytes):
        a["decode"] = _lib(lambda: x.decode(errors="surrogateescape"), toks)
        a["fromisoformat"] = _lib(lambda: _dtm.datetime.fromisoformat(x.decode(errors="surrogateescape")), toks)
    elif not isinstance(x, str):
        a["str"] = _lib(lambda: str(x), toks)
    if isinstance(x, str):
        a["fromisoformat"] = _lib(lambda: _dtm.datetime.fromisoformat(x), toks)
        a["command"] = _lib(lambda: _cmd(x), toks)
        a["subnet"] = _lib(lambda: _subnet(x), toks)
    if isinstance(x, (int, float)):
        a["fromtimestamp"] = _lib(lambda: _dtm.datetime.fromtimestamp(x, _dtm.timezone.utc), toks)
    if not isinstance(x, bytes):
        def bytes_new():
            if isinstance(x, int) and not isinstance(x, bool) and x > 10 ** 6:
                if x > 2 ** 63 - 1:
                    raise OverflowError("cannot fit 'int' into an index-sized integer")
                return ("bytes", "big")
            return ("bytes", len(bytes(x)))
        a["bytes_new"] = _lib(bytes_new, toks)
    a["urlparse"] = _lib(lambda: ("url", bool(urllib.parse.urlparse(x))), toks)
    a["path"] = _lib(lambda: ("path", "windows" if isinstance(x, pathlib.PureWindowsPath) else "posix",
                              str((pathlib.PureWindowsPath if isinstance(x, pathlib.PureWindowsPath) else pathlib.PurePosixPath)(x))), toks)
    a["ip_address"] = _lib(lambda: (lambda r: ("ip", r.version, int(r)))(_ipm.ip_address(x)), toks)
    a["ip_network"] = _lib(lambda: (lambda r: ("ipnet", r.version, str(r)))(_ipm.ip_network(x)), toks)
    a["inet_aton"] = _lib(lambda: struct.unpack(">I", socket.inet_aton(x))[0], toks)
    return a


def to_inp(x, toks, deep=True):
    from flow.record import Record
    if x is None:
        return ["none", _ann(x, toks)]
    if isinstance(x, bool):
        return ["num", ["bool", int(x)], _ann(x, toks)]
    if isinstance(x, int):
        return ["num", ["int", str(x)], _ann(x, toks)]
    if isinstance(x, float):
        if math.isnan(x):
            num = ["nan"]
        elif math.isinf(x):
            num = ["inf", int(x < 0)]
        else:
            p, q = x.as_integer_ratio()
            num = ["rat", str(p), str(q)]
        return ["num", num, _ann(x, toks)]
    if isinstance(x, str):
        return ["str", enc_str(x), [to_inp(c, toks, False) for c in x] if deep and len(x) <= 64 else [], _ann(x, toks)]
    if isinstance(x, bytes):
        return ["bytes", x.hex(), [to_inp(c, toks, False) for c in x] if deep and len(x) <= 64 else [], _ann(x, toks)]
    if isinstance(x, _dtm.datetime):
        off = x.utcoffset()
        return ["dt", [x.year, x.month, x.day, x.hour, x.minute, x.second, x.microsecond],
                None if off is None else str((off.days * 86400 + off.seconds) * 1000000 + off.microseconds), _ann(x, toks)]
    if isinstance(x, list):
        return ["list", [to_inp(e, toks, deep) for e in x], _ann(x, toks)]
    if isinstance(x, tuple):
        return ["tuple", [to_inp(e, toks, deep) for e in x], _ann(x, toks)]
    if isinstance(x, dict):
        return ["dict", [to_inp(e, toks, deep) for e in x], _ann(x, toks)]
    kind = "record" if isinstance(x, Record) else "path" if isinstance(x, pathlib.PurePath) else type(x).__name__
    it = None
    if isinstance(x, bytearray):
        it = [to_inp(c, toks, False) for c in x] if deep else []
    return ["other", kind, toks.add(x), it, _ann(x, toks)]


def _strip(inp):
    """input JSON without annotations (as the driver echoes it)"""
    k = inp[0]
    if k == "none":
        return ["none"]
    if k in ("num", "str", "bytes"):
        return inp[:2]
    if k == "dt":
        return inp[:3]
    if k in ("list", "tuple", "dict"):
        return [k, [_strip(e) for e in inp[1]]]
    return inp[:3]


def _py_num(n):
    if n[0] == "int":
        return int(n[1])
    if n[0] == "bool":
        return bool(n[1])
    if n[0] == "rat":
        return int(n[1]) / int(n[2])
    if n[0] == "nan":
        return float("nan")
    return float("-inf") if n[1] else float("inf")


def exp_obs(fv, tname, toks, pyinput):
    """expected deep observation of a model value; None = not comparable in detail (class is still compared)"""
    k = fv[0]
    if k == "unset":
        return ["none"]
    if k == "boolean":
        return ["boolean", fv[1], ["pybool", fv[1]]]
    if k == "int":
        return ["int", fv[1], fv[2]]
    if k == "uint":
        return ("uint", fv[1], fv[2], repr(_py_num(fv[3])))
    if k == "float":
        return ["float", "float", toks.items[fv[1]][1]]
    if k == "str":
        return ["str", fv[1], fv[2]]
    if k == "bytes":
        return ["bytes", "bytes", fv[1], fv[1]]
    if k == "dt":
        return ["dt", "datetime", fv[1], int(fv[2])]
    if k == "digest":
        return ["digest"] + [None if x is None else dec_str(x) for x in fv[1:]]
    if k == "obj":
        cls, r = fv[1], fv[2]
        if cls == "ipaddress" and r[0] == "tok":
            _, ver, val = toks.items[r[1]]
            return ["ip", "ipaddress", ver, str(val)]
        if cls == "ipnetwork" and r[0] == "tok":
            _, ver, txt = toks.items[r[1]]
            return ["ipnet", "ipnetwork", ver, txt]
        if cls == "address" and r[0] == "int":
            return ("ipv4int", r[1])
        return ("class", {"path": ("posix_path", "windows_path"), "command": ("posix_command", "windows_command"),
                          "subnet": ("ipv4.subnet",), "address": ("ipv4.address",)}.get(cls, (cls,)))
    if k == "tlist":
        base = tname[:-2] if tname.endswith("[]") else tname
        return ["list", tname, [exp_obs(e, base, toks, None) for e in fv[1]]]
    if k == "plist":
        return ("plist", "dictlist" if fv[1] else "stringlist", fv[2])
    if k == "raw":
        return ("raw", fv[1])
    return None


_FOREIGN_REPRS = set()      # (decimal value, repr) of int-subclass instances among the inputs actually handed in


def _note_foreign(v):
    if isinstance(v, (list, tuple)):
        for e in v:
            _note_foreign(e)
    elif isinstance(v, int) and not isinstance(v, bool) and type(v) is not int:
        _FOREIGN_REPRS.add((str(int(v)), repr(v)))


def _match(exp, real, pyinput, toks):
    if isinstance(exp, tuple):
        if exp[0] == "uint":
            if not (isinstance(real, list) and real[:2] == [exp[1], exp[2]]):
                return False
            if real[2].replace("-0.0", "0.0") == exp[3]:
                return True
            # `.value` keeps the object that was handed in: for an element that already was an instance of ANOTHER field
            # type (a filesize / unix_file_mode taken from a typed list) its repr is that type's, not the number's
            return (exp[2], real[2]) in _FOREIGN_REPRS
        if exp[0] == "ipv4int":
            return isinstance(real, list) and real[0] == "ipv4.address" and real[1] in (exp[1], {"1": "True", "0": "False"}.get(exp[1]))
        if exp[0] == "class":
            return bool(real) and isinstance(real, list) and len(real) > 1 and (real[1] in exp[1] or real[0] in exp[1])
        if exp[0] == "plist":
            if real[0] != "list" or real[1] != exp[1]:
                return False
            try:
                els = list(pyinput)
            except TypeError:
                return False
            t2 = Toks()
            return [_strip(to_inp(e, t2)) for e in els] == exp[2] and [V.observe(e) for e in els] == real[2]
        if exp[0] == "raw":
            t2 = Toks()
            return _strip_tok(_strip(to_inp(pyinput, t2))) == _strip_tok(exp[1]) and V.observe(pyinput) == real
    if isinstance(exp, list) and exp and exp[0] == "list" and isinstance(real, list) and real[:1] == ["list"]:
        if real[1] != exp[1] or len(real[2]) != len(exp[2]):
            return False
        try:
            els = list(pyinput) if pyinput is not None else []
        except TypeError:
            els = []
        if len(els) != len(exp[2]):
            els = [None] * len(exp[2])
        return all(_match(a, b, e, toks) for a, b, e in zip(exp[2], real[2], els))
    return exp == real


def _strip_tok(i):
    if i[0] == "other":
        return i[:2]
    if i[0] in ("list", "tuple", "dict"):
        return [i[0], [_strip_tok(e) for e in i[1]]]
    return i


def _braw(spec):
    """model input: the raw candidate (a pre-converted instance carries exactly what its constructor made of it)"""
    return _build(_unpre(spec))


def model_op(case, obs):
    if case["kind"] in ("grpflat", "listcls", "digestsub"):
        return None
    toks = Toks()
    if _has_dtvia(json.loads(json.dumps(case)), "replace_naive"):
        return None      # a naive INSTANCE of the field type (recorded finding): the model only knows raw input
    if case["kind"] == "coerce":
        return {"op": "c05_coerce", "type": case["type"], "inp": to_inp(_braw(case["value"]), toks)}
    return {"op": "c05_seq", "types": [[enc_str(fn), t] for t, fn in case["fields"]],
            "args": [to_inp(_braw(a), toks) for a in case["args"]],
            "ops": [["assign", enc_str(op[1]), to_inp(_braw(op[2]), toks)] if op[0] == "assign" else
                    ["replace", [[enc_str(kk), to_inp(_braw(v), toks)] for kk, v in op[1]]] for op in case["ops"]]}


def _cmp_state(case, m_state, r_state, toks, inputs, what):
    if not m_state["well_typed"]:
        return f"{what}: model state is not WellTyped"
    for j, ((t, fn), mv, ro) in enumerate(zip(case["fields"], m_state["vals"], r_state["slots"])):
        exp = exp_obs(mv, t, toks, None)
        if not _match(exp, ro, inputs.get(fn), toks):
            return f"{what}: field {fn} ({t}): model {json.dumps(mv)[:90]} vs implementation {json.dumps(ro)[:90]}"
    if m_state["serialisable"] != (r_state["pack"] == "ok"):
        return f"{what}: model serialisable={m_state['serialisable']} vs implementation pack={r_state['pack']}"
    return None


def compare(case, obs, m):
    if "error" in m and "ok" not in m and "construct" not in m:
        return f"model error {m['error']}"
    toks = Toks()
    _FOREIGN_REPRS.clear()
    try:
        for spec in ([case["value"]] if case["kind"] == "coerce" else
                     list(case["args"]) + [op[2] for op in case["ops"] if op[0] == "assign"] +
                     [v for op in case["ops"] if op[0] == "replace" for _, v in op[1]]):
            _note_foreign(_build(spec))
    except Exception:       # noqa: BLE001
        pass
    if case["kind"] == "coerce":
        x = _braw(case["value"])
        to_inp(x, toks)
        if m["ok"] != ("error" not in obs):
            return f"{case['type']}({json.dumps(case['value'])[:60]}): model ok={m['ok']} ({m.get('err')}) vs implementation {obs.get('error', 'ok')}"
        if not m["ok"]:
            if m["err"] != obs["error"]:
                return f"{case['type']}({json.dumps(case['value'])[:60]}): model raises {m['err']}, implementation {obs['error']}"
            return None
        if not m["has_type"]:
            return "model value does not have the declared type"
        exp = exp_obs(m["val"], case["type"], toks, x)
        if not _match(exp, obs["value"], x, toks):
            return f"{case['type']}({json.dumps(case['value'])[:60]}): model {json.dumps(m['val'])[:90]} vs implementation {json.dumps(obs['value'])[:90]}"
        if "pack" in obs.get("state", {}) and m["packable"] != (obs["state"]["pack"] == "ok"):
            return f"{case['type']}({json.dumps(case['value'])[:60]}): model packable={m['packable']} vs pack={obs['state']['pack']}"
        return None
    # seq: rebuild the token table in the same order as model_op
    for a in case["args"]:
        to_inp(_braw(a), toks)
    for op in case["ops"]:
        if op[0] == "assign":
            to_inp(_braw(op[2]), toks)
        else:
            for _, v in op[1]:
                to_inp(_braw(v), toks)
    mc, rc = m["construct"], obs["construct"]
    if mc["ok"] != ("error" not in rc):
        return f"construct: model ok={mc['ok']} ({mc.get('err')}) vs implementation {rc.get('error', 'ok')}"
    if not mc["ok"]:
        return None if mc["err"] == rc["error"] else f"construct: model raises {mc['err']}, implementation {rc['error']}"
    current = {fn: _braw(a) for (t, fn), a in zip(case["fields"], case["args"])}
    d = _cmp_state(case, mc["state"], rc["state"], toks, current, "after construction")
    if d:
        return d
    if len(m["steps"]) != len(obs["steps"]):
        return "step count differs"
    for i, (op, ms, rs) in enumerate(zip(case["ops"], m["steps"], obs["steps"])):
        what = f"step {i} ({op[0]} {op[1] if op[0] == 'assign' else [kk for kk, _ in op[1]]})"
        if ms["ok"] != rs["ok"]:
            return f"{what}: model ok={ms['ok']} ({ms.get('err')}) vs implementation ok={rs['ok']} ({rs.get('error')})"
        if not ms["ok"] and ms["err"] != rs["error"]:
            return f"{what}: model raises {ms['err']}, implementation {rs['error']}"
        if ms["ok"]:
            if op[0] == "assign":
                current[op[1]] = _braw(op[2])
            else:
                for kk, v in op[1]:
                    current[kk] = _braw(v)
        d = _cmp_state(case, ms["state"], rs["state"], toks, current, "after " + what)
        if d:
            return d
    return None


def nontrivial(case, obs):
    if case["kind"] in ("grpflat", "listcls", "digestsub"):
        return True
    if case["kind"] == "coerce":
        return "error" in obs or case["value"][0] in ("none", "float", "bytes", "list", "tuple", "dict", "rec", "bytearray") \
            or case["type"].endswith("[]")
    steps = obs.get("steps", [])
    return any(s["ok"] for s in steps) and any(not s["ok"] for s in steps)


def classify(case, obs):
    if case["kind"] in ("grpflat", "listcls", "digestsub"):
        return case["kind"]
    if case["kind"] == "coerce":
        return [f"coerce:{case['type']}:{obs.get('error', 'accepted')}", f"input:{case['value'][0]}"]
    if "error" in obs["construct"]:
        return f"seq:construct-refused:{obs['construct']['error']}"
    tags = ["seq:len-%d" % len(obs["steps"])]
    for op, s in zip(case["ops"], obs["steps"]):
        tags.append(f"step:{op[0]}:{'ok' if s['ok'] else s['error']}")
    return tags


def _m_surrogate(case, obs, failure):
    if "cannot be serialised (UnicodeEncodeError)" not in (failure or ""):
        return False
    return _lone_surrogate(obs) or _lone_surrogate(json.loads(json.dumps(case)))


def _m_ipv4_int(case, obs, failure):
    return "net.ipv4.Address field holds" in (failure or "")


def _m_subnet(case, obs, failure):
    if "cannot be serialised (AttributeError)" not in (failure or ""):
        return False
    types = [case["type"]] if case["kind"] == "coerce" else [t for t, _ in case["fields"]]
    return any(t.startswith("net.ipv4.Subnet") for t in types)


def _m_naive_instance(case, obs, failure):
    return "datetime field holds a naive datetime" in (failure or "") and _has_dtvia(json.loads(json.dumps(case)), "replace_naive")


MATCHERS = {"lone_surrogate_text": _m_surrogate, "ipv4_address_unchecked_int": _m_ipv4_int, "ipv4_subnet_no_pack": _m_subnet,
            "naive_instance_of_datetime_fieldtype": _m_naive_instance}


def shrink(case):
    if case["kind"] == "seq":
        ops = case["ops"]
        for i in range(len(ops)):
            yield dict(case, ops=ops[:i] + ops[i + 1:])
        if len(case["fields"]) > 1:
            for i in range(len(case["fields"])):
                fn = case["fields"][i][1]
                if any((op[0] == "assign" and op[1] == fn) or (op[0] == "replace" and any(kk == fn for kk, _ in op[1])) for op in ops):
                    continue
                yield dict(case, fields=case["fields"][:i] + case["fields"][i + 1:], args=case["args"][:i] + case["args"][i + 1:])
