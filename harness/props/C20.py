"""C20 — text-oriented writers render every record completely.

Correspondence (exact, against the Lean model through frdriver):
  csvw   csv.writer (excel dialect, QUOTE_MINIMAL, given delimiter / lineterminator) on adversarial rows == Csv.writeRows,
         and csv.reader over the written text == Csv.parse of it
  csvp   csv.reader over adversarial raw text (file-like, newline="") == Csv.parse
  csvc   csv.reader over an explicit list of chunks == Csv.parseChunks (reaches the EAT_CRLF error branch)
  recs   CsvfileWriter over record sequences x fields/exclude/lineterminator: bytes == Csv.csvFile, rows == Csv.csvRows
  line   LineWriter x fields/exclude/verbose: bytes == TextOut.lineOut
  text   TextWriter x format_spec: bytes == TextOut.textRecord per record (repr / format_map(DefaultMissing))
  read   CsvfileReader over delimiter x safe cells == Csv.csvRead
Property oracle (real code only, no model): see `oracle`.
"""
import csv
import io
import math
import os
import re
import shutil
import tempfile

from .. import values as V

ID = "C20"
CLAIM = dict(
    text="Kernel-checked: CSV write/parse inverse (C20_csv_roundtrip) for ALL row lists of arbitrary cells, every "
         "delimiter other than quote/CR/LF and the terminators \\r\\n, \\n, \\r whenever each cell's CR/LF characters "
         "belong to the terminator, by induction over characters with a parser-state invariant; the full statement "
         "(any terminator, any cell) is refuted by a proved counterexample (lineterminator=\\n, cell a\\rb) that is "
         "replayed on the real code as a known finding; header-per-maximal-run structure of CsvfileWriter for all record "
         "sequences; field selection; line writer numbering/alignment; format_map(DefaultMissing) substitutes every "
         "known field and keeps unknown placeholders for all templates; shapes of the writers (DictWriter arguments, "
         "open() arguments, format strings) regenerated from the source and checked by rfl. Tie: translator + seeded "
         "correspondence of csv.writer/csv.reader/CsvfileWriter/LineWriter/TextWriter/CsvfileReader with the model + "
         "real-code oracle (csv.reader recovers str(value) per cell, block/template shape, nothing raises).",
    note="partial: CPython's csv module, str.format_map and per-type str()/repr() are modelled/inputs (hypothesis, "
         "exercised by the correspondence, not proved); dialect sniffing is a heuristic and is only exercised on content "
         "the stdlib sniffer identifies; line terminators that are not made of CR/LF are compared with the model only.",
    technique="Lean 4 theorems over an executable csv/format model + model/implementation correspondence",
    design="8/C20")
RULE = ("kinds csvw/csvp/csvc: rows, raw texts and chunk lists drawn from an adversarial alphabet (delimiters, quote, CR, "
        "LF, NUL, space, surrogate escapes, astral) x delimiter{, ; tab |} x terminator{CRLF, LF, CR, exotic}; recs/line/"
        "text: 1-6 records from 1-3 descriptors over all field types (scalar and list) with string values replaced by "
        "adversarial CSV text with probability 1/2, x fields/exclude (list or comma string, reserved, unknown and "
        "duplicate names) x lineterminator (incl. backslash escapes) x verbose x format_spec (pieces: literals with "
        "braces/escapes, known and unknown placeholders; plus malformed templates); read: header + rows of safe cells x "
        "delimiter. Non-trivial = some cell needs quoting / a header is re-emitted / an option is set / a placeholder "
        "is substituted; distinct by hash of the case.")
TRUSTED = ["CPython 3.12 csv module (CsvLaws: Csv.writeRows / Csv.parse are its model; compared on every run)",
           "CPython str.format_map and per-type str()/repr()/format() of field values (inputs of the model)",
           "utf-8/surrogateescape codec of the written files"]
ASSUMPTIONS = ["string values are text in the image of bytes.decode('utf-8','surrogateescape') (C01's Text domain)",
               "cells stay below csv.field_size_limit() = 131072 characters"]
EXPLANATION = "all kinds are seeded samples; the unbounded claims are the Lean theorems"

DELIMS = [",", ";", "\t", "|"]
LTS_OK = ["\r\n", "\n", "\r"]
ALPHA = ["a", "b", "Z", "0", " ", ",", ";", "\t", "|", '"', '"', "\r", "\n", "\r\n", "\x00", "'", "\\", "é", "日",
         "\U0001f600", "\udcff", "\udc80", "=", "#", "\x0b", "\x0c", "\x1c", "\x85", " "]
ADV_CELLS = ["", " ", '"', '""', ",", "a,b", 'say "hi"', "line\nbreak", "cr\rhere", "crlf\r\nx", "\n", "\r", "\r\n",
             " lead", "trail ", "a\x00b", "tab\tsep", "semi;colon", "pipe|", "=1+1", '",', ',"', '"\n"', "x" * 300,
             "caf\udce9", "\udc80", "é,\"日\"\r\n\U0001f600", "'single'", "\\n", "#c", "\x0b\x0c", "\x85", " "]
# ("class", "from", "in": Python keywords - the library generates another constructor for such record types)
FIELD_POOL = ["a", "b", "c", "value", "ts", "name", "data", "n", "x1", "s", "class", "from", "in"]
RESERVED = ["_source", "_classification", "_generated", "_version"]


def EXHAUSTIVE(tier):
    return False


# ------------------------------------------------------------------ generation

def _adv_text(r, maxlen=8):
    w = r.below(10)
    if w < 4:
        return r.choice(ADV_CELLS)
    if w < 9:
        return "".join(r.choice(ALPHA) for _ in range(r.randint(0, maxlen)))
    return V.gen_text(r)[:400]


def _fix_text(s):
    """keep generated string values inside the Text domain (decode/surrogateescape image)"""
    if V.is_text(s):
        return s
    return "".join(c for c in s if not (0xD800 <= ord(c) <= 0xDFFF))


def _gen_rows(r):
    rows = []
    for _ in range(r.choice([0, 1, 1, 2, 3, 5])):
        n = r.choice([0, 1, 1, 2, 3, 4])
        rows.append([_adv_text(r) for _ in range(n)])
    return rows


def _gen_lt(r):
    return r.weighted([(5, "\r\n"), (4, "\n"), (4, "\r"), (1, "\n\n"), (1, "\n\r"), (1, "\t"), (1, ";"), (1, "xy"),
                       (1, "\r\r\n")])


def _gen_recs(r, adversarial=True, big_ok=True):
    """1-6 records over 1-3 descriptors; returns list of rec specs"""
    nd = r.choice([1, 1, 2, 2, 3])
    descs = []
    for i in range(nd):
        if i > 0 and r.chance(30):
            # same fields, other name / same name, other fields: both are "another descriptor"
            name, fields = descs[0]
            if r.chance(50):
                descs.append([name + "x", fields])
            else:
                descs.append([name, fields + [["string", "extra"]]])
            continue
        ds = V.gen_descspec(r, nfields=r.randint(0, 4) if r.chance(10) else r.randint(1, 5))
        if r.chance(50) and not any(n == "txt" for _, n in ds[1]):
            ds[1].insert(r.below(len(ds[1]) + 1), [r.choice(["string", "string", "wstring", "uri"]), "txt"])
        descs.append(ds)
    recs = []
    for _ in range(r.randint(1, 6)):
        ds = r.choice(descs) if not r.chance(50) or not recs else recs[-1][1]
        rec = V.gen_record(r, descspec=ds)
        vals = rec[2]
        for i, (t, _) in enumerate(ds[1]):
            if t in ("string", "wstring", "uri") and vals[i][0] == "str" and adversarial and r.chance(50):
                vals[i] = V.S(_adv_text(r, 10))
            vals[i] = _clip_strings(vals[i])
        if not (big_ok and r.chance(12)):
            rec = _tame_filesize(rec, "record")
        if r.chance(20):
            # just before this record is written, a descriptor object of its own is made for the same definition (another
            # reader / module defining the type again): equal, not identical - still the same type, the same run
            while len(rec) < 4:
                rec.append({})
            rec[3] = dict(rec[3] or {}, _fresh_desc=True)
        recs.append(rec)
    return recs


def _clip_strings(spec):
    """every string leaf: inside the Text domain and short (cells stay far below csv.field_size_limit())"""
    if spec[0] == "str":
        return V.S(_fix_text(V.dec_str(spec[1]))[:1500])
    if spec[0] == "list":
        return ["list", [_clip_strings(x) for x in spec[1]]]
    if spec[0] == "dict":
        return ["dict", [[_clip_strings(a), _clip_strings(b)] for a, b in spec[1]]]
    if spec[0] == "rec":
        return ["rec", spec[1], [_clip_strings(v) for v in spec[2]]] + spec[3:]
    return spec


def _tame_filesize(spec, ftype):
    """keep the known filesize-repr finding (|n| >= 10.24**17) out of most cases so it does not mask them"""
    if spec[0] == "list":
        return ["list", [_tame_filesize(x, ftype[:-2] if ftype.endswith("[]") else ftype) for x in spec[1]]]
    if spec[0] == "rec":
        return ["rec", spec[1], [_tame_filesize(v, t) for v, (t, _) in zip(spec[2], spec[1][1])]] + spec[3:]
    if spec[0] == "int" and ftype == "filesize" and abs(int(spec[1])) >= 2 ** 56:
        return V.I(int(spec[1]) % (2 ** 56))
    return spec


def _gen_sel(r, recs):
    names = [n for _, n in recs[0][1][1]]
    pool = names + RESERVED + ["nope", "extra"]
    opts = {}
    if r.chance(45):
        k = r.randint(0, min(4, len(pool)))
        f = [r.choice(pool) for _ in range(k)]
        opts["fields"] = ",".join(f) if r.chance(40) and f else f
    if r.chance(40):
        k = r.randint(0, 3)
        e = [r.choice(pool) for _ in range(k)]
        opts["exclude"] = ",".join(e) if r.chance(40) and e else e
    return opts


def _gen_template(r, recs):
    names = [n for _, n in recs[0][1][1]] + RESERVED
    pieces = []
    for _ in range(r.randint(1, 6)):
        w = r.below(10)
        if w < 4:
            lit = "".join(r.choice(["a", " ", "{", "}", "=", ":", "!", "\\n", "\\t", "\\r", "\\", "é", "\udcff", ".", "[",
                                    "n", "\n"]) for _ in range(r.randint(1, 6)))
            if pieces and pieces[-1][0] == "lit":
                pieces[-1][1] += lit
            else:
                pieces.append(["lit", lit])
        elif w < 7:
            pieces.append(["field", r.choice(names)])
        elif w < 8:
            # a replacement field with conversion / format spec / nested spec / attribute / index (str.format syntax)
            nm = r.choice(names)
            suffix = r.choice(["!r", "!s", "!s:>12", "!s:<9", "!r:^30", "!s:.3", "!s:>{%s!s:.1}" % r.choice(names),
                               ".__class__.__name__", "!s:{nosuch}", ".__doc__!s:.4", "[0]", ".real", "!a"])
            pieces.append(["fmt", [nm, suffix]])
        else:
            pieces.append(["field", r.choice(["missing", "nope_1", "a b", "1a", "-1", "x)", "é"])])
    return pieces


MALFORMED = ["{", "}", "{}", "{0}", "{a", "a}", "x{a}}", "{a{b}}", "}{", "{12}", "{a!r}", "{a:>12}", "{a.real}",
             "{a[0]}", "{_generated:%Y}", "{a!s:5}"]


def template_text(pieces):
    out = []
    for k, s in pieces:
        if k == "lit":
            out.append(s.replace("{", "{{").replace("}", "}}"))
        elif k == "fmt":
            out.append("{" + s[0] + s[1] + "}")
        else:
            out.append("{" + s + "}")
    return "".join(out)


def gen_cases(rng, tier):
    n = {"quick": 3, "thorough": 40, "search": 6}[tier]
    cases = []
    r = rng.fork("csvw")
    for rows in [[[]], [[""]], [["", ""]], [["a\rb"]], [["a\nb"]], [['"']], [[""], [""]], [[], ["x"], []]]:
        for lt in LTS_OK:
            cases.append({"kind": "csvw", "rows": [[V.enc_str(c) for c in row] for row in rows], "lt": V.enc_str(lt),
                          "d": ","})
    for _ in range(350 * n):
        cases.append({"kind": "csvw", "rows": [[V.enc_str(c) for c in row] for row in _gen_rows(r)],
                      "lt": V.enc_str(_gen_lt(r)), "d": r.choice(DELIMS + [","] * 3)})
    r = rng.fork("csvp")
    for t in ["", "\n", "\r", "\r\n", "\n\r", "a", "a\r", '"a', '"a\n', '"a"b,c\n', 'a"b"\n', '"a""', '"', '""', ",",
              "a,", '"a"\r\n\r\n"b"', "a\r\r\nb", "\x00a\n", '"a" ,b\n', ' "a",b\n', "a\n\n\nb", '"\r', '"\r\n"', 'a,"'
              '\r"\n', '""""', '"""', 'a""b', '"a"""', ",\r,\n,", '"a"x"b"']:
        cases.append({"kind": "csvp", "text": V.enc_str(t), "d": ","})
    palette = ["a", "b", ",", ",", '"', '"', "\r", "\n", "\r\n", " ", ";", "\t", "|", "\x00", "é", "\udcff"]
    for _ in range(400 * n):
        t = "".join(r.choice(palette) for _ in range(r.randint(0, 14)))
        cases.append({"kind": "csvp", "text": V.enc_str(t), "d": r.choice(DELIMS + [","] * 3)})
    r = rng.fork("csvc")
    for ch in [["a\rb"], ["a\r", "b"], ["a\r\n", "\nb"], ["a", "b"], ['"a', 'b"'], ["", "a"], ["a\n\n"], ["a\n\r"],
               ["a\nb"], ["a\n,b"], ['"x\r', 'y"\n'], [], [""], ['"']]:
        cases.append({"kind": "csvc", "chunks": [V.enc_str(c) for c in ch], "d": ","})
    for _ in range(200 * n):
        ch = ["".join(r.choice(palette) for _ in range(r.randint(0, 8))) for _ in range(r.randint(0, 4))]
        cases.append({"kind": "csvc", "chunks": [V.enc_str(c) for c in ch], "d": r.choice(DELIMS + [","] * 3)})
    r = rng.fork("recs")
    for _ in range(260 * n):
        recs = _gen_recs(r)
        opts = _gen_sel(r, recs)
        w = r.below(20)
        if w < 8:
            pass
        elif w < 17:
            opts["lineterminator"] = r.choice(["\r\n", "\n", "\r", "\\r\\n", "\\n", "\\r", "\n", "\r"])
        else:
            opts["lineterminator"] = r.choice(["\n\n", "\n\r", "\\t", ";", "\\n\\n", "xy"])
        case = {"kind": "recs", "recs": recs, "opts": opts}
        if r.chance(12):
            names0 = [n_ for _, n_ in recs[0][1][1]]
            case["adapter_twice"] = r.choice([{"fields": ",".join(names0[:1])}, {"exclude": ",".join(names0[:1])},
                                              {"fields": "nope"}, {"lineterminator": ";"}])
        cases.append(case)
    # consecutive records of two types of one name whose identifiers (name + 32-bit hash) coincide: still a type change
    G0 = {"_generated": ["dt", [2020, 1, 2, 3, 4, 5, 6], "utc", 0]}
    c1 = ["t/col", [["wstring", "ra"]]]
    c2 = ["t/col", [["string", "raw"]]]
    for seq in ((c1, c2, c1), (c2, c1), (c1, c1, c2, c2)):
        cases.append({"kind": "recs", "recs": [["rec", ds, [V.S("v%d" % i)], G0] for i, ds in enumerate(seq)], "opts": {}})
    r = rng.fork("line")
    for _ in range(120 * n):
        recs = _gen_recs(r)
        opts = _gen_sel(r, recs)
        if r.chance(50):
            opts["verbose"] = True
        cases.append({"kind": "line", "recs": recs, "opts": opts})
    r = rng.fork("text")
    for _ in range(120 * n):
        recs = _gen_recs(r)
        w = r.below(10)
        if w < 3:
            case = {"kind": "text", "recs": recs, "pieces": None, "raw": None}
        elif w < 9:
            case = {"kind": "text", "recs": recs, "pieces": _gen_template(r, recs), "raw": None}
        else:
            case = {"kind": "text", "recs": recs, "pieces": None, "raw": V.enc_str(r.choice(MALFORMED))}
        if r.chance(40):
            case["prior"] = True
        cases.append(case)
    # the command line tool with a field selection and an explicit CSV writer (`rdump src -F ... -w csvfile://out`): the
    # selection concerns the declared fields; the metadata columns still hold the record's own metadata
    r = rng.fork("rdumpcsv")
    DR = ["t/rd", [["string", "a"], ["varint", "b"], ["string", "c"]]]
    for _ in range(8 * n):
        recs = [["rec", DR, [V.S(r.choice(["x", "y,z", ""])), V.I(r.below(9)), V.S(r.choice(["q", "w"]))],
                 {"_generated": ["dt", [2020, 1, 2, 3, 4, 5, 6], "utc", 0], "_source": V.S(r.choice(["src", "other"])),
                  "_classification": r.choice([V.S("cls"), V.NONE])}] for _ in range(r.randint(1, 4))]
        sel = r.choice([["-F", "c,a"], ["-F", "b"], ["-X", "b"], ["-F", "a,b,c"], ["-F", "c", "-X", "a"]])
        cases.append({"kind": "rdumpcsv", "recs": recs, "args": sel})
    wide = ["demo/wide", [["string", "f%02d" % i] for i in range(30)]]
    cases.append({"kind": "text", "recs": [["rec", wide, [V.S("value-%02d-%s" % (i, "x" * (i % 7))) for i in range(30)],
                                            {"_generated": ["dt", [2020, 1, 2, 3, 4, 5, 6], "utc", 0]}]], "pieces": None, "raw": None})
    # grouped records through the CSV and line writers: the flat field list (first member providing a name wins), with
    # selections that also name ATTRIBUTES of the group object which are not fields (name, records, descriptors, ...)
    r = rng.fork("grouped")
    GA = ["g/a", [["string", "s"], ["varint", "n"], ["string", "name"]]]
    GB = ["g/b", [["string", "u"], ["varint", "n"], ["string", "records"]]]
    GC = ["g/c", [["string", "path"]]]
    for _ in range(25 * n):
        members = [["rec", ds, [V.gen_value(r, t, none_chance=10) for t, _ in ds[1]],
                    {"_generated": ["dt", [2020, 1, 2, 3, 4, 5, 6], "utc", 0]}]
                   for ds in r.sample([GA, GB, GC], r.randint(1, 3))]
        pool = ["s", "n", "u", "path", "name", "records", "descriptors", "flat_fields", "fieldname_to_record", "_source", "nope"]
        opts = {}
        w = r.below(4)
        if w in (0, 1):
            opts["fields"] = ",".join(r.sample(pool, r.randint(1, 5)))
        if w in (1, 2):
            opts["exclude"] = ",".join(r.sample(pool, r.randint(1, 3)))
        cases.append({"kind": "grp", "name": r.choice(["grp/x", "g"]), "members": members, "opts": opts,
                      "writer": r.choice(["csv", "line", "line-verbose"])})
    r = rng.fork("read")
    for _ in range(80 * n):
        ncol = r.randint(2, 5)
        header = r.sample(FIELD_POOL, ncol)
        if r.chance(15):
            header[r.below(ncol)] = r.choice(["my-name", "1337", "with space", "x(y)", "_source", "_odd"])
        elif r.chance(12):
            header[r.below(ncol - 1)] = ""       # an unnamed column (an index-column export `,name,score`): still a column
        nrow = r.randint(4, 9)
        words = ["alpha", "beta", "gamma7", "delta_x", "0", "42", "3.14", "Zed", "hello world", "a-b", "x.y", "Q", "",
                 "CamelCase", "snake_case", "mixed 12 tokens", "é", "日本"]
        rows = [[r.choice(words) + (str(r.randint(0, 999)) if r.chance(50) else "") for _ in range(ncol)]
                for _ in range(nrow)]
        if r.chance(25):
            # line breaks inside a (quoted) cell - standard CSV; the reader must hand back exactly these characters
            rows[r.below(nrow)][r.below(ncol)] = r.choice(["two\r\nlines", "cr\ronly", "lf\nonly", "x\r\n", "a\r\n\r\nb"])
        if r.chance(15):
            rows[r.below(nrow)] = rows[0][: ncol - 1]      # a short row leaves the last field unset
        if r.chance(10):
            rows[r.below(nrow)].append("surplus")          # a long row: extra cell dropped
        if r.chance(20):
            rows[r.randint(1, nrow - 1)] = [""] * ncol     # a record whose selected fields are all empty: a row `,,`
        cases.append({"kind": "read", "d": r.choice(DELIMS), "header": header, "rows": rows})
    # wide files: the header row alone is longer than the 1024 characters the reader hands to the dialect sniffer
    for d in DELIMS:
        ncol = r.randint(55, 70)
        header = ["column_name_number_%03d" % i for i in range(ncol)]
        rows = [[r.choice(["alpha", "beta", "gamma7", "x.y", "42", "hello world", ""]) + str(r.randint(0, 99)) for _ in range(ncol)]
                for _ in range(r.randint(2, 4))]
        cases.append({"kind": "read", "d": d, "header": header, "rows": rows})
    # header-less files read with `fields=`: every line is a record - also a first line that looks unlike the others
    for _ in range(12 * n):
        ncol = r.randint(2, 4)
        header = r.sample([f_ for f_ in FIELD_POOL if f_ not in ("class", "from", "in")], ncol)
        rows = [[str(r.randint(1, 999))] + [r.choice(["alice", "bob", "Amsterdam", "x y", "q7"]) for _ in range(ncol - 1)]
                for _ in range(r.randint(3, 8))]
        if r.chance(60):
            rows[0][0] = r.choice(["n/a", "unknown", "id", "-"])
        cases.append({"kind": "read", "d": ",", "header": header, "rows": rows, "headerless": True})
    return cases


# ------------------------------------------------------------------ real code

def _err(e):
    return {"error": type(e).__name__, "msg": str(e)[:160]}


def _cell(v):
    return "" if v is None else str(v)


def _select(opts, slots):
    """Record._asdict as C20 describes it: `fields` order if given (known, not excluded, first occurrence), else slots"""
    fields, exclude = opts.get("fields"), opts.get("exclude")
    if isinstance(fields, str):
        fields = fields.split(",")
    if isinstance(exclude, str):
        exclude = exclude.split(",")
    exclude = exclude or []
    if fields:
        out = []
        for k in fields:
            if k in slots and k not in exclude and k not in out:
                out.append(k)
        return out
    return [k for k in slots if k not in exclude]


def _unescape(s):
    for a, b in ((r"\r", "\r"), (r"\n", "\n"), (r"\t", "\t")):
        s = s.replace(a, b)
    return s


def _read_csv_text(text, d=","):
    rows = []
    try:
        for row in csv.reader(io.StringIO(text, newline=""), delimiter=d):
            rows.append([V.enc_str(c) for c in row])
        return {"rows": rows, "err": False}
    except csv.Error:
        return {"rows": rows, "err": True}


def _build(recs):
    return [V.build_record(spec) for spec in recs]


def _rec_view(rec, textfn):
    d = rec._desc
    return {"name": V.enc_str(d.name), "fields": [[V.enc_str(t), V.enc_str(n)] for t, n in d.get_field_tuples()],
            "slots": [[V.enc_str(k), V.enc_str(textfn(getattr(rec, k)))] for k in rec.__slots__]}


def run_real(case):
    k = case["kind"]
    if k == "csvw":
        rows = [[V.dec_str(c) for c in row] for row in case["rows"]]
        s = io.StringIO(newline="")
        w = csv.writer(s, delimiter=case["d"], lineterminator=V.dec_str(case["lt"]))
        for row in rows:
            w.writerow(row)
        text = s.getvalue()
        return {"text": V.enc_str(text), "parsed": _read_csv_text(text, case["d"])}
    if k == "csvp":
        return _read_csv_text(V.dec_str(case["text"]), case["d"])
    if k == "csvc":
        rows = []
        try:
            for row in csv.reader([V.dec_str(c) for c in case["chunks"]], delimiter=case["d"]):
                rows.append([V.enc_str(c) for c in row])
            return {"rows": rows, "err": False}
        except csv.Error:
            return {"rows": rows, "err": True}
    if k == "read":
        return _run_read(case)

    from flow.record import RecordWriter

    if k == "grp":
        return _run_grp(case)
    if k == "rdumpcsv":
        return _run_rdumpcsv(case)
    recs = _build(case["recs"])
    tmp = tempfile.mkdtemp(prefix="frv-c20-")
    try:
        path = os.path.join(tmp, "out.txt")
        if k == "recs":
            from flow.record.adapter.csvfile import CsvfileWriter
            obs = {}
            # what the property says the file holds: per run a header of the selected names, then str(value) cells
            try:
                expected, prev = [], None
                for rec, rspec in zip(recs, case["recs"]):
                    sel = _select(case["opts"], list(rec.__slots__))
                    # a run ends where the record TYPE changes - decided on the declared (name, fields) of the case, not
                    # with the library's descriptor comparison
                    if prev is None or prev != rspec[1]:
                        expected.append([V.enc_str(n) for n in sel])
                        prev = rspec[1]
                    expected.append([V.enc_str(_cell(getattr(rec, n))) for n in sel])
                obs["expected"] = expected
            except Exception as e:
                obs["str_error"] = _err(e)
            try:
                obs["view"] = [_rec_view(rec, _cell) for rec in recs]
            except Exception:
                pass            # str() of an unselected value raised: the case is not modelled
            try:
                if case.get("adapter_twice"):
                    # the writer is opened through RecordWriter("csvfile://<path>", ...): once with OTHER keyword arguments
                    # (output discarded), then again with this case's options - a URL does not remember earlier arguments
                    from flow.record import RecordWriter
                    w0 = RecordWriter("csvfile://" + path, **case["adapter_twice"])
                    for rec in recs[:1]:
                        w0.write(rec)
                    w0.close()
                    w = RecordWriter("csvfile://" + path, **case["opts"])
                else:
                    w = CsvfileWriter(path, **case["opts"])
                keep = []
                for rec, rspec in zip(recs, case["recs"]):
                    if len(rspec) > 3 and rspec[3] and rspec[3].get("_fresh_desc"):
                        from flow.record import RecordDescriptor
                        keep.append(RecordDescriptor(rspec[1][0], [(t, n) for t, n in rspec[1][1]]))
                    w.write(rec)
                w.flush()
                w.close()
            except Exception as e:
                obs["write"] = _err(e)
                return obs
            raw = open(path, "rb").read()
            text = raw.decode("utf-8", "surrogateescape")
            obs["text"] = V.enc_str(text)
            rows = []
            try:
                with open(path, "r", newline="", errors="surrogateescape") as fp:
                    for row in csv.reader(fp):
                        rows.append([V.enc_str(c) for c in row])
                obs["parsed"] = {"rows": rows, "err": False}
            except csv.Error as e:
                obs["parsed"] = {"rows": rows, "err": True, "msg": str(e)[:100]}
            return obs
        if k == "line":
            from flow.record.adapter.line import LineWriter
            obs = {}
            try:
                obs["strs"] = [{n: V.enc_str(str(getattr(rec, n))) for n in _select(case["opts"], list(rec.__slots__))}
                               for rec in recs]
            except Exception as e:
                obs["str_error"] = _err(e)
            try:
                obs["view"] = [_rec_view(rec, lambda v: format(v, "")) for rec in recs]
            except Exception:
                pass
            try:
                w = LineWriter(path, **case["opts"])
                for rec in recs:
                    w.write(rec)
                w.flush()
                w.close()
            except Exception as e:
                obs["write"] = _err(e)
                return obs
            obs["text"] = V.enc_str(open(path, "rb").read().decode("utf-8", "surrogateescape"))
            return obs
        if k == "text":
            from flow.record.adapter.text import TextWriter
            spec = None
            if case.get("pieces") is not None:
                spec = template_text(case["pieces"])
            elif case.get("raw") is not None:
                spec = V.dec_str(case["raw"])
            obs = {"spec": None if spec is None else V.enc_str(spec)}
            used = None if case.get("pieces") is None else {s2 for kind, s2 in case["pieces"] if kind == "field"}
            try:
                # only what the writer itself needs: repr of the declared fields, or the referenced fields' text
                # (declared field names come from the CASE, not from rec._desc.fields: that mapping is library state)
                obs["view"] = [{"name": V.enc_str(rec._desc.name),
                                "items": [[V.enc_str(n), V.enc_str(repr(getattr(rec, n)))] for _, n in rspec[1][1]]
                                if spec is None else [],
                                "lookup": [[V.enc_str(n), V.enc_str(format(getattr(rec, n), ""))]
                                           for n in rec.__slots__ if used is not None and n in used]}
                               for rec, rspec in zip(recs, case["recs"])]
            except Exception as e:
                obs["str_error"] = _err(e)
            if case.get("prior"):
                # the same records went through the other text-oriented writers before (rdump lists them verbosely,
                # then prints them): what the text writer emits for a record does not depend on that
                from flow.record.adapter.csvfile import CsvfileWriter
                from flow.record.adapter.line import LineWriter
                for W, kw in ((LineWriter, {"verbose": True}), (CsvfileWriter, {})):
                    try:
                        w0 = W(os.path.join(tmp, "prior.txt"), **kw)
                        for rec in recs:
                            w0.write(rec)
                        w0.flush()
                        w0.close()
                    except Exception:      # noqa: BLE001
                        pass
            if case.get("pieces") is not None and any(kind == "fmt" for kind, _ in case["pieces"]):
                # reference for compound replacement fields: Python's own formatter, one field at a time, over the
                # slot values read with getattr (not through _asdict); None = str.format itself refuses it
                class _Keep(dict):
                    def __missing__(self, key):
                        return "{" + key + "}"
                fmt = []
                for rec in recs:
                    slots = _Keep((n, getattr(rec, n)) for n in rec.__slots__)
                    row = []
                    for kind, s2 in case["pieces"]:
                        if kind != "fmt":
                            continue
                        try:
                            row.append(V.enc_str(("{" + s2[0] + s2[1] + "}").format_map(slots)))
                        except Exception:
                            row.append(None)
                    fmt.append(row)
                obs["fmt"] = fmt
            outs = []
            try:
                w = TextWriter(path, format_spec=spec)
                for rec in recs:
                    w.write(rec)
                    w.flush()
                    size = os.path.getsize(path)
                    outs.append(size)
                w.close()
            except Exception as e:
                obs["write"] = _err(e)
            raw = open(path, "rb").read() if os.path.exists(path) else b""
            chunks, prev = [], 0
            for size in outs:
                chunks.append(V.enc_str(raw[prev:size].decode("utf-8", "surrogateescape")))
                prev = size
            obs["outs"] = chunks
            if spec is None:
                # the terminal printer (RecordPrinter: what the stream writer uses on a tty) prints the same representation
                try:
                    from flow.record.stream import RecordPrinter
                    bio = io.BytesIO()
                    pr = RecordPrinter(bio)
                    pouts = []
                    for rec in recs:
                        n0 = len(bio.getvalue())
                        pr.write(rec)
                        pouts.append(V.enc_str(bio.getvalue()[n0:].decode("utf-8", "surrogateescape")))
                    obs["printer"] = pouts
                except Exception as e:          # noqa: BLE001
                    obs["printer"] = _err(e)
            return obs
        raise ValueError(k)
    finally:
        shutil.rmtree(tmp, ignore_errors=True)


def _run_rdumpcsv(case):
    from flow.record import RecordWriter
    from flow.record.tools import rdump
    recs = _build(case["recs"])
    tmp = tempfile.mkdtemp(prefix="frv-c20-")
    try:
        src, out = os.path.join(tmp, "src.records"), os.path.join(tmp, "out.csv")
        w = RecordWriter(src)
        for rec in recs:
            w.write(rec)
        w.flush()
        w.close()
        try:
            rdump.main([src] + list(case["args"]) + ["-w", "csvfile://" + out])
        except SystemExit as e:
            if e.code not in (0, None):
                return {"exit": e.code}
        except Exception as e:          # noqa: BLE001
            return {"write": _err(e)}
        with open(out, "r", newline="", errors="surrogateescape") as fp:
            rows = [[V.enc_str(c) for c in row] for row in csv.reader(fp)]
        # expectation from the case: selected declared names, then the reserved columns with the record's own metadata
        names = [n for _, n in case["recs"][0][1][1]]
        args = case["args"]
        fields = args[args.index("-F") + 1].split(",") if "-F" in args else None
        exclude = args[args.index("-X") + 1].split(",") if "-X" in args else []
        sel = [n for n in (fields if fields else names) if n in names and n not in exclude]
        want = [[V.enc_str(n) for n in sel + RESERVED]]
        for rec in recs:
            want.append([V.enc_str(_cell(getattr(rec, n))) for n in sel + RESERVED])
        return {"rows": rows, "want": want}
    finally:
        shutil.rmtree(tmp, ignore_errors=True)


def _run_grp(case):
    from flow.record import GroupedRecord
    from flow.record.adapter.csvfile import CsvfileWriter
    from flow.record.adapter.line import LineWriter
    members = [V.build_record(m) for m in case["members"]]
    g = GroupedRecord(case["name"], members)
    # the flat view, from the case: every member contributes its declared names, then the reserved ones; first wins
    flat, owner = [], {}
    for spec, m in zip(case["members"], members):
        for n in [fn for _, fn in spec[1][1]] + RESERVED:
            if n not in owner:
                owner[n] = m
                flat.append(n)
    sel = _select(case["opts"], flat)
    obs = {"sel": sel}
    try:
        obs["cells"] = [V.enc_str(_cell(getattr(owner[n], n))) for n in sel]
    except Exception as e:          # noqa: BLE001
        obs["str_error"] = _err(e)
        return obs
    tmp = tempfile.mkdtemp(prefix="frv-c20-")
    try:
        path = os.path.join(tmp, "out.txt")
        try:
            if case["writer"] == "csv":
                w = CsvfileWriter(path, **case["opts"])
            else:
                w = LineWriter(path, verbose=case["writer"] == "line-verbose", **case["opts"])
            w.write(g)
            w.flush()
            w.close()
        except Exception as e:      # noqa: BLE001
            obs["write"] = _err(e)
            return obs
        if case["writer"] == "csv":
            with open(path, "r", newline="", errors="surrogateescape") as fp:
                try:
                    obs["rows"] = [[V.enc_str(c) for c in row] for row in csv.reader(fp)]
                except csv.Error as e:
                    obs["rows"] = None
                    obs["csv_error"] = str(e)[:100]
        else:
            obs["text"] = V.enc_str(open(path, "rb").read().decode("utf-8", "surrogateescape"))
        return obs
    finally:
        shutil.rmtree(tmp, ignore_errors=True)


def _run_read(case):
    from flow.record.adapter.csvfile import CsvfileReader
    tmp = tempfile.mkdtemp(prefix="frv-c20-")
    try:
        path = os.path.join(tmp, "in.csv")
        with open(path, "w", newline="", encoding="utf-8") as fp:
            w = csv.writer(fp, delimiter=case["d"])
            if not case.get("headerless"):
                w.writerow(case["header"])
            for row in case["rows"]:
                w.writerow(row)
        text = open(path, encoding="utf-8", newline="").read()
        obs = {"text": V.enc_str(text)}
        try:
            dia = csv.Sniffer().sniff(text[:1024])
            obs["sniffed"] = [dia.delimiter, dia.quotechar, bool(dia.doublequote), bool(dia.skipinitialspace)]
        except csv.Error:
            obs["sniffed"] = None
        try:
            rd = CsvfileReader(path, fields=",".join(case["header"])) if case.get("headerless") else CsvfileReader(path)
            try:
                obs["fields"] = [n for _, n in rd.desc.get_field_tuples()]
                obs["records"] = [[None if getattr(rec, n) is None else [type(getattr(rec, n)).__name__,
                                                                        V.enc_str(str(getattr(rec, n)))]
                                   for n in obs["fields"]] for rec in rd]
            finally:
                rd.close()
        except Exception as e:
            obs["read"] = _err(e)
        return obs
    finally:
        shutil.rmtree(tmp, ignore_errors=True)


# ------------------------------------------------------------------ the property

def _lt_of(case):
    return _unescape(case["opts"].get("lineterminator") or "\r\n")


def _foreign_linebreak(case, obs):
    """the known finding's signature: the terminator lacks CR or LF and a written cell contains the missing one"""
    lt = _lt_of(case)
    missing = [c for c in "\r\n" if c not in lt]
    if not missing or "expected" not in obs:
        return False
    return any(any(m in V.dec_str(c) for m in missing) for row in obs["expected"] for c in row)


def _big_filesize(case):
    """a filesize value whose repr() takes human_readable_size's `magnitude > 16` branch"""
    def walk(spec, ftype):
        if spec[0] == "list":
            return any(walk(x, ftype[:-2] if ftype.endswith("[]") else ftype) for x in spec[1])
        if spec[0] == "rec":
            return any(walk(v, t) for v, (t, _) in zip(spec[2], spec[1][1]))
        if spec[0] == "int" and ftype == "filesize":
            n = abs(int(spec[1]))
            return n != 0 and int(math.log(n, 10.24)) > 16
        return False
    return any(walk(rec, "record") for rec in case.get("recs", []))


def normalize_fieldname_spec(name):
    """the documented normalisation (docstring of normalize_fieldname)"""
    if name in RESERVED:
        return name
    name = re.sub(r"[- ()]", "_", name)
    if name == "" or name.startswith("_") or name[0].isdecimal():
        name = "x_" + name
    return name


def oracle(case, obs):
    k = case["kind"]
    if k == "csvw":
        # CsvLaws, exercised: under the theorem's hypotheses csv.reader recovers what csv.writer wrote
        lt, d = V.dec_str(case["lt"]), case["d"]
        rows = [[V.dec_str(c) for c in row] for row in case["rows"]]
        if lt in LTS_OK and all((ch not in "\r\n") or (ch in lt) for row in rows for c in row for ch in c):
            if obs["parsed"]["err"] or obs["parsed"]["rows"] != case["rows"]:
                return "csv.reader does not recover the rows csv.writer wrote under the round-trip hypotheses"
        return None
    if k in ("csvp", "csvc"):
        return None
    if k == "recs":
        if "write" in obs:
            return f"CsvfileWriter raised {obs['write']['error']} for a valid record: {obs['write']['msg']}"
        if "str_error" in obs:
            return f"str() of a field value raised {obs['str_error']['error']}: {obs['str_error']['msg']}"
        lt = _lt_of(case)
        exp = obs["expected"]
        got = obs["parsed"]
        if any(len(c) // 8 > 100000 for row in exp for c in row):
            return None          # beyond csv.field_size_limit(): outside the stated domain
        if set(lt) <= {"\r", "\n"}:
            if got["err"]:
                return "a standard CSV parser rejects the written file"
            rows = got["rows"]
            if lt not in LTS_OK:
                if [] in exp:
                    return None
                rows = [r for r in rows if r != []]
            if rows != exp:
                return (f"a standard CSV parser reads {len(rows)} rows that differ from the {len(exp)} expected "
                        f"(header per run + str(value) cells); lineterminator={lt!r}")
        return None
    if k == "rdumpcsv":
        if "exit" in obs or "write" in obs:
            return f"rdump {case['args']} -w csvfile://... failed: {obs.get('exit', obs.get('write'))}"
        if obs["rows"] != obs["want"]:
            j = next((i for i, (a, b) in enumerate(zip(obs["rows"], obs["want"])) if a != b), min(len(obs["rows"]), len(obs["want"])))
            got = [V.dec_str(c)[:24] for c in obs["rows"][j]] if j < len(obs["rows"]) else None
            exp = [V.dec_str(c)[:24] for c in obs["want"][j]] if j < len(obs["want"]) else None
            return (f"rdump {' '.join(case['args'])} -w csvfile://...: CSV row {j} is {got}, the record's selected fields and its "
                    f"own metadata are {exp}")
        return None
    if k == "grp":
        if "str_error" in obs:
            return None
        if "write" in obs:
            return f"{case['writer']} writer raised {obs['write']['error']} for a grouped record: {obs['write']['msg']}"
        sel = obs["sel"]
        if case["writer"] == "csv":
            if obs.get("rows") is None:
                return "a standard CSV parser rejects the file written for a grouped record"
            want = [[V.enc_str(n) for n in sel], obs["cells"]]
            if any(len(c) // 8 > 100000 for c in obs["cells"]):
                return None
            if obs["rows"] != want:
                return (f"grouped record, options {case['opts']}: CSV header/row {[[V.dec_str(c)[:20] for c in r_] for r_ in obs['rows'][:2]]} "
                        f"instead of the selected fields {sel} of the flat view")
            return None
        text = V.dec_str(obs["text"])
        if any("\n" in V.dec_str(c) or "\r" in V.dec_str(c) for c in obs["cells"]):
            return None            # a value with a line break: entries cannot be told from continuation lines
        import re
        keys = []
        for line in text.split("\n")[1:]:
            m = re.match(r"^\s*(\S+?)(?: \([^)]*\))? = ", line)
            if m:
                keys.append(m.group(1))
        if keys != sel:
            return (f"grouped record, options {case['opts']}: the line writer prints entries {keys} instead of the "
                    f"selected fields {sel} of the flat view")
        return None
    if k == "line":
        if "write" in obs:
            return f"LineWriter raised {obs['write']['error']} for a valid record: {obs['write']['msg']}"
        if "str_error" in obs:
            return f"str() of a field value raised {obs['str_error']['error']}: {obs['str_error']['msg']}"
        text = V.dec_str(obs["text"])
        pos = 0
        verbose = bool(case["opts"].get("verbose"))
        for i, (spec, strs) in enumerate(zip(case["recs"], obs["strs"])):
            head = f"--[ RECORD {i + 1} ]--\n"
            if not text.startswith(head, pos):
                return f"block {i + 1} does not start with its numbered header"
            pos += len(head)
            types = {n: t for t, n in spec[1][1]}
            types.update({"_source": "string", "_classification": "string", "_generated": "datetime",
                          "_version": "varint"})
            slots = [n for _, n in spec[1][1]] + RESERVED
            for name in _select(case["opts"], slots):
                key = f"{name} ({types[name]})" if verbose else name
                while text.startswith(" ", pos):
                    pos += 1
                entry = key + " = " + V.dec_str(strs[name]) + "\n"
                if not text.startswith(entry, pos):
                    return f"block {i + 1}: no `{key} = <value>` entry at the expected position"
                pos += len(entry)
        if pos != len(text):
            return "output continues after the last expected entry"
        return None
    if k == "text":
        malformed = case.get("raw") is not None
        if any(x is None for row in obs.get("fmt", []) for x in row):
            malformed = True     # str.format itself refuses one of the replacement fields for one of the records
        if "write" in obs:
            if malformed:
                return None      # a malformed / unsupported template may be rejected with an error
            return f"TextWriter raised {obs['write']['error']} for a valid record: {obs['write']['msg']}"
        if "str_error" in obs:
            return f"repr()/format() of a field value raised {obs['str_error']['error']}: {obs['str_error']['msg']}"
        if malformed:
            return None
        for ri, (spec, view, out) in enumerate(zip(case["recs"], obs["view"], obs["outs"])):
            out = V.dec_str(out)
            if case.get("pieces") is None:
                want = "<" + V.dec_str(view["name"]) + " " + " ".join(
                    V.dec_str(n) + "=" + V.dec_str(rp) for n, rp in view["items"]) + ">\n"
            else:
                lk = {V.dec_str(n): V.dec_str(v) for n, v in view["lookup"]}
                fm = iter(obs["fmt"][ri]) if "fmt" in obs else iter(())
                want = "".join(_unescape(s) if kind == "lit" else V.dec_str(next(fm)) if kind == "fmt"
                               else lk.get(s, "{" + s + "}") for kind, s in case["pieces"]) + "\n"
            if out != want:
                return "text writer output differs from repr / the template with known fields substituted"
            pr = obs.get("printer")
            if case.get("pieces") is None and pr is not None:
                if isinstance(pr, dict):
                    if "Unicode" not in pr["error"]:
                        return f"RecordPrinter raised {pr['error']} for a valid record: {pr['msg']}"
                elif ri < len(pr) and V.dec_str(pr[ri]) != want:
                    return (f"RecordPrinter prints {len(V.dec_str(pr[ri]))} characters for record {ri} that differ from its "
                            f"printable representation ({len(want)} characters)")
        if len(obs["outs"]) != len(case["recs"]):
            return "text writer wrote fewer records than it was given"
        return None
    if k == "read":
        if obs.get("sniffed") is None or obs["sniffed"][0] != case["d"] or obs["sniffed"][1] != '"':
            return None          # content the stdlib sniffer does not identify: not "unambiguous"
        if "read" in obs:
            return f"CsvfileReader raised {obs['read']['error']}: {obs['read']['msg']}"
        names = [normalize_fieldname_spec(h) for h in case["header"]]
        declared = [n for n in names if not n.startswith("_")]
        if obs["fields"] != declared:
            return f"CsvfileReader fields {obs['fields']} != normalised header {declared}"
        if len(obs["records"]) != len(case["rows"]):
            return "CsvfileReader yields a different number of records than the file has rows"
        skip = bool(obs["sniffed"][3])
        for row, rec in zip(case["rows"], obs["records"]):
            m = dict(zip(names, row))
            for n, got in zip(declared, rec):
                want = m.get(n)
                if want is not None and skip:
                    want = want.lstrip(" ")
                if (got is None) != (want is None) or (got is not None and V.dec_str(got[1]) != want):
                    return f"field {n}: read back {got!r}, the file holds {want!r}"
        return None
    return None


# ------------------------------------------------------------------ model

def _sel_op(opts):
    f, e = opts.get("fields"), opts.get("exclude")
    if isinstance(f, str):
        f = f.split(",")
    if isinstance(e, str):
        e = e.split(",")
    return {"fields": None if f is None else [V.enc_str(x) for x in f],
            "exclude": None if e is None else [V.enc_str(x) for x in e]}


def model_op(case, obs):
    k = case["kind"]
    if k == "csvw":
        return {"op": "csv_write", "rows": case["rows"], "lt": case["lt"], "d": ord(case["d"])}
    if k == "csvp":
        return {"op": "csv_parse", "text": case["text"], "d": ord(case["d"])}
    if k == "csvc":
        return {"op": "csv_chunks", "chunks": case["chunks"], "d": ord(case["d"])}
    if k == "recs":
        if "view" not in obs or "text" not in obs:
            return None
        lt = case["opts"].get("lineterminator")
        op = {"op": "csv_file", "recs": obs["view"], "lt": None if not lt else V.enc_str(lt)}
        op.update(_sel_op(case["opts"]))
        return op
    if k == "line":
        if "view" not in obs or "text" not in obs:
            return None
        op = {"op": "line_out", "recs": obs["view"], "verbose": bool(case["opts"].get("verbose"))}
        op.update(_sel_op(case["opts"]))
        return op
    if k == "text":
        if "view" not in obs:
            return None
        return {"op": "text_out", "recs": obs["view"], "spec": obs["spec"] if obs["spec"] else None}
    if k == "read":
        if obs.get("sniffed") is None or obs["sniffed"][0] != case["d"] or obs["sniffed"][3] or "read" in obs:
            return None
        if case.get("headerless"):
            return None
        if any(normalize_fieldname_spec(h) != h for h in case["header"]):
            return None
        return {"op": "csv_read", "text": obs["text"], "d": ord(case["d"])}
    return None


def compare(case, obs, m):
    k = case["kind"]
    if "error" in m:
        return f"model error {m['error']}"
    if k == "csvw":
        if m["text"] != obs["text"]:
            return "csv.writer output differs from Csv.writeRows"
        if m["parsed"] != obs["parsed"]:
            return "csv.reader over the written text differs from Csv.parse"
        return None
    if k in ("csvp", "csvc"):
        if m["err"] != obs["err"]:
            return f"csv.reader error={obs['err']} vs model {m['err']}"
        if m["rows"] != obs["rows"]:
            return "csv.reader rows differ from the model's"
        return None
    if k == "recs":
        if m["text"] != obs["text"]:
            return "CsvfileWriter bytes differ from Csv.csvFile"
        if m["rows"] != obs["expected"]:
            return "Csv.csvRows differs from header-per-run + str(value) rows"
        if V.dec_str(m["lt"]) != _lt_of(case):
            return "line terminator option handling differs"
        if set(_lt_of(case)) <= {"\r", "\n"} and m["parsed"] != {k2: obs["parsed"][k2] for k2 in ("rows", "err")}:
            return "csv.reader over the written file differs from Csv.parse of the model's file"
        return None
    if k == "line":
        if m["text"] != obs["text"]:
            return "LineWriter bytes differ from TextOut.lineOut"
        return None
    if k == "text":
        outs = m["outs"]
        for i, out in enumerate(outs):
            if "unmodelled" in out:
                return None
            if "error" in out:
                if "write" not in obs or i != len(obs["outs"]):
                    return f"model rejects the template at record {i}, TextWriter did not"
                if obs["write"]["error"] != out["error"]:
                    return f"TextWriter raised {obs['write']['error']}, model {out['error']}"
                return None
            if i >= len(obs["outs"]):
                return f"TextWriter stopped at record {i} ({obs.get('write')}), model did not"
            if out["text"] != obs["outs"][i]:
                return f"TextWriter output of record {i} differs from TextOut.textRecord"
        return None
    if k == "read":
        if "empty" in m:
            return "model: empty file"
        if [V.dec_str(f) for f in m["fields"]] != obs["fields"]:
            return "CsvfileReader fields differ from Csv.csvRead"
        got = [[None if c is None else c[1] for c in rec] for rec in obs["records"]]
        if m["rows"] != got:
            return "CsvfileReader values differ from Csv.csvRead"
        return None
    return None


def nontrivial(case, obs):
    k = case["kind"]
    if k == "csvw":
        return any(any(ch in V.dec_str(c) for ch in ',;\t|"\r\n') for row in case["rows"] for c in row)
    if k == "csvp":
        t = V.dec_str(case["text"])
        return '"' in t or "\r" in t or "\n" in t
    if k == "csvc":
        return len(case["chunks"]) > 0
    if k == "recs":
        exp = obs.get("expected") or []
        return any(any(ch in V.dec_str(c) for ch in ',"\r\n') for row in exp for c in row) or bool(case["opts"]) \
            or len({repr(r[1]) for r in case["recs"]}) > 1
    if k == "line":
        return True
    if k == "text":
        return True
    if k == "read":
        return obs.get("sniffed") is not None and obs["sniffed"][0] == case["d"]
    return False


def classify(case, obs):
    k = case["kind"]
    out = [k]
    if k == "csvw":
        out.append("csvw:lt=" + repr(V.dec_str(case["lt"])))
    elif k in ("csvp", "csvc"):
        out.append(f"{k}:err={obs.get('err')}")
    elif k == "recs":
        out.append("recs:lt=" + repr(_lt_of(case)))
        if "write" in obs:
            out.append("recs:raised:" + obs["write"]["error"])
        types = {t for rec in case["recs"] for t, _ in rec[1][1]}
        out += ["type:" + t for t in sorted(types)]
        if _foreign_linebreak(case, obs):
            out.append("recs:foreign-linebreak")
        nruns = sum(1 for a, b in zip(case["recs"], case["recs"][1:]) if a[1] != b[1]) + 1
        out.append(f"recs:runs={nruns}")
    elif k == "line":
        out.append("line:verbose" if case["opts"].get("verbose") else "line:plain")
    elif k == "text":
        out.append("text:" + ("repr" if case.get("pieces") is None and case.get("raw") is None else
                              "malformed" if case.get("raw") is not None else "template"))
        if "write" in obs:
            out.append("text:raised:" + obs["write"]["error"])
    elif k == "read":
        out.append("read:d=" + repr(case["d"]))
        out.append("read:sniffed" if nontrivial(case, obs) else "read:ambiguous")
    return out


def shrink(case):
    k = case["kind"]
    if k in ("recs", "line", "text"):
        recs = case["recs"]
        for i in range(len(recs)):
            if len(recs) > 1:
                yield dict(case, recs=recs[:i] + recs[i + 1:])
        for key in list(case.get("opts", {})):
            o = dict(case["opts"])
            del o[key]
            yield dict(case, opts=o)
        for i, rec in enumerate(recs):
            ds = rec[1]
            for j in range(len(ds[1])):
                if len(ds[1]) > 1:
                    nd = [ds[0], ds[1][:j] + ds[1][j + 1:]]
                    nr = ["rec", nd, rec[2][:j] + rec[2][j + 1:], rec[3]]
                    yield dict(case, recs=recs[:i] + [nr] + recs[i + 1:])
    elif k == "csvw":
        rows = case["rows"]
        for i in range(len(rows)):
            yield dict(case, rows=rows[:i] + rows[i + 1:])


MATCHERS = {
    # lineterminator lacks CR or LF and a written cell contains the missing one (DESIGN 4 #18)
    "csv_foreign_linebreak": lambda case, obs, failure: case["kind"] == "recs" and "write" not in obs
    and "standard CSV parser" in failure and _foreign_linebreak(case, obs),
    # repr() of a filesize beyond 10.24**17 raises UnboundLocalError inside human_readable_size
    "filesize_repr_unbound": lambda case, obs, failure: case["kind"] in ("recs", "line", "text")
    and "UnboundLocalError" in failure and _big_filesize(case),
}
