"""C15 — record composition follows the documented precedence rules.

Correspondence: merge_record_descriptors / extend_record / iter_timestamped_records / GroupedRecord /
Record._replace / RecordDescriptor.init_from_dict / RecordFieldRewriter.rewrite on generated records vs the
association-list model (Model/Compose.lean). Values travel to the model as opaque tokens (one per distinct deep
observation), so the comparison is about *which* value ends up *where*, with its class.
Property oracle (real code only): an independent dictionary-based reference (update-in-reverse-priority instead of
ChainMap lookups) for fields, types, values; the per-timestamp statement checked directly; originals observed before and
after every operation.
"""
import json

from harness import values as V
from harness.values import enc_str

ID = "C15"
CLAIM = dict(
    text="Kernel-checked theorems by list induction over association-list models of merge_record_descriptors "
         "(OrderedDict semantics), extend_record (ChainMap precedence, reversed under replace), "
         "iter_timestamped_records (as the code does it: re-bound loop record, timestamp and metadata read from the "
         "original - driven by the extracted loop facts), GroupedRecord flat view, _replace, init_from_dict and "
         "RecordFieldRewriter projection: merged fields = first-appearance order; first wins / last wins on replace for "
         "types and values; ts expansion yields one record per datetime field in field order with ts = the ORIGINAL "
         "value, ts_description = its name, every other original field and the original metadata kept; projection keeps "
         "exactly the named existing fields in requested order minus excluded. Tie: translator (loop facts, statement "
         "lists) + correspondence on generated descriptor families + dictionary-based real-code oracle.",
    note="partial: values are opaque in the model (coercion of a moved value into the merged field type is the identity "
         "because the value arrives with its own type; descriptors with a repeated field name are outside the value-level "
         "theorems); 'originals untouched' is checked on the real objects, it is trivial in the functional model.",
    technique="Lean 4 theorems over an executable model + model/implementation correspondence",
    design="8/C15")
RULE = ("kinds: merge (2-5 descriptors over a shared pool of 9 field names x 16 types, incl. repeated names inside one "
        "descriptor), extend (2-4 records, replace on/off, rename on/off), ts (records with 0-4 datetime fields at any "
        "position, field names incl. ts and ts_description of any type), grouped (2-4 members incl. nested groups), "
        "replace (_replace with known/unknown keys), project (RecordFieldRewriter fields/exclude lists incl. missing, "
        "repeated and reserved names), initdict. Non-trivial = at least one field name occurs in two inputs (merge, "
        "extend, grouped), >= 1 datetime field (ts), a non-empty selection (replace, project, initdict). Distinct by "
        "case hash.")
TRUSTED = ["collections.OrderedDict / ChainMap semantics (modelled as association lists; exercised by the correspondence)"]
ASSUMPTIONS = ["records passed to the value-level operations have pairwise distinct declared field names",
               "_generated is set on every input record (an unset _generated is replaced by the wall clock)"]
EXPLANATION = "all kinds are seeded samples; the descriptor pool is small so that collisions are the norm"

FN = ["a", "b", "c", "ts", "ts_description", "d", "e", "x", "when"]
T15 = ["string", "varint", "datetime", "uint16", "uint32", "float", "bytes", "boolean", "string[]", "varint[]",
       "datetime[]", "path", "net.ipaddress", "digest", "uri", "filesize", "dynamic"]
TN = ["test/a", "test/b", "t/x", "other/name", "a"]
RESERVED = ["_source", "_classification", "_generated", "_version"]
# attributes of the GroupedRecord object itself: a member field of such a name is served by _asdict() (fix 619dd93) but not
# by attribute access on the group (`group.name` is the group's type name: public API, recorded limitation)
EXPR_DS = ["t/expr", [["varint", "total"], ["string", "label"], ["varint", "d"]]]
GROUP_OWN = ["name", "records", "descriptors", "flat_fields", "fieldname_to_record", "_desc"]


def EXHAUSTIVE(tier):
    return False


# ------------------------------------------------------------------ generation

def _gen_desc(r, nmin=1, nmax=5, dt_bias=False, allow_dup=False):
    n = r.randint(nmin, nmax)
    names = r.sample(FN, min(n, len(FN)))
    fields = []
    for fn in names:
        t = r.choice(T15)
        if dt_bias and r.chance(45):
            t = "datetime"
        fields.append([t, fn])
    if allow_dup and fields and r.chance(25):
        t, fn = r.choice(fields)
        fields.insert(r.randint(0, len(fields)), [r.choice(T15), fn])
    return [r.choice(TN), fields]


def _gen_val(r, t):
    if t == "dynamic" and r.chance(45):
        # a dynamic field holding a value that already is a flow field type: composition hands that very value over
        tt = r.choice(["boolean", "uri", "filesize", "uint16", "uint32", "wstring", "unix_file_mode", "digest", "float",
                       "net.ipaddress", "path", "bytes", "varint", "string"])
        return ["typed", tt, V.gen_value(r, tt, none_chance=0)]
    return V.gen_value(r, t, none_chance=15)


def _gen_rec(r, **kw):
    ds = _gen_desc(r, **kw)
    vals = [_gen_val(r, t) for t, _ in ds[1]]
    return ["rec", ds, vals, V.gen_meta(r)]


def gen_cases(rng, tier):
    n = {"quick": 800, "thorough": 5000, "search": 1500}[tier]
    cases = []
    r = rng.fork("merge")
    for _ in range(n):
        descs = [_gen_desc(r, nmin=0, allow_dup=True) for _ in range(r.randint(1, 5))]
        if r.chance(30):
            descs.insert(r.randint(1, len(descs)), r.choice(descs))     # the same descriptor again, later in the list
        cases.append({"kind": "merge", "replace": r.chance(50), "name": r.choice([None, None, "new/name"]), "descs": descs})
    r = rng.fork("extend")
    for _ in range(n):
        recs = [_gen_rec(r) for _ in range(r.randint(1, 4))]
        if r.chance(35):
            # a descriptor that recurs after a different one (A, B, A): same type, fresh values
            src = r.choice(recs)
            recs.insert(r.randint(1, len(recs)), ["rec", src[1], [V.gen_value(r, t, none_chance=15) for t, _ in src[1][1]], V.gen_meta(r)])
        cases.append({"kind": "extend", "replace": r.chance(50), "name": r.choice([None, None, "ext/rec"]), "records": recs})
    r = rng.fork("ts")
    # the shapes the property text names
    D = lambda y: ["dt", [y, 1, 2, 3, 4, 5, 6], "utc", 0]   # noqa: E731
    M = {"_source": V.S("src"), "_classification": V.S("cls"), "_generated": D(2001)}
    cases.append({"kind": "ts", "record": ["rec", ["t/x", [["datetime", "created"], ["datetime", "ts"]]], [D(2010), D(2020)], M]})
    cases.append({"kind": "ts", "record": ["rec", ["t/x", [["datetime", "ts"], ["datetime", "b"]]], [D(2010), D(2020)], M]})
    cases.append({"kind": "ts", "record": ["rec", ["t/x", [["string", "ts"], ["datetime", "b"], ["datetime", "ts_description"]]],
                                          [V.S("not a time"), D(2010), D(2020)], M]})
    cases.append({"kind": "ts", "record": ["rec", ["t/x", [["string", "a"], ["varint", "b"]]], [V.S("x"), V.I(1)], M]})
    cases.append({"kind": "ts", "record": ["rec", ["t/x", [["datetime", "a"], ["datetime", "b"], ["datetime", "ts"], ["datetime", "d"]]],
                                          [D(2010), V.NONE, D(2030), D(2040)], M]})
    for _ in range(n):
        cases.append({"kind": "ts", "record": _gen_rec(r, dt_bias=True)})
    r = rng.fork("grouped")
    for _ in range(n // 2):
        members = []
        for _ in range(r.randint(1, 4)):
            if r.chance(20):
                members.append(["grouped", r.choice(TN), [_gen_rec(r) for _ in range(r.randint(1, 3))]])
            else:
                members.append(_gen_rec(r))
        if r.chance(30):
            # two members built from the SAME descriptor (fresh values): both are members, the first one wins
            src_ = r.choice([m_ for m_ in members if m_[0] == "rec"] or [None])
            if src_ is not None:
                members.insert(r.randint(1, len(members)), ["rec", src_[1], [_gen_val(r, t) for t, _ in src_[1][1]], V.gen_meta(r)])
        if r.chance(30):
            # a member field spelled like an attribute of the group object
            tgt = r.choice([m_ for m_ in members if m_[0] == "rec"] or [None])
            if tgt is not None and tgt[1][1]:
                j_ = r.below(len(tgt[1][1]))
                nn = r.choice(["name", "records", "descriptors", "flat_fields"])
                if nn not in [f_[1] for f_ in tgt[1][1]]:
                    tgt[1] = [tgt[1][0], [list(f_) if i_ != j_ else [f_[0], nn] for i_, f_ in enumerate(tgt[1][1])]]
        flat = _flatten(members)
        probe = None
        cand = [(t, fn) for m_ in flat for t, fn in m_[1][1] if fn not in GROUP_OWN]
        if cand and r.chance(70):
            t, fn = r.choice(cand)
            first_t = next(tt for m_ in flat for tt, ff in m_[1][1] if ff == fn)
            probe = [fn, V.gen_value(r, first_t, none_chance=10)]
        case = {"kind": "grouped", "name": r.choice(TN), "members": members, "assign": probe}
        if cand and r.chance(60):
            # the group is a VIEW: after its fields were read once, the winning member is updated directly (or through an
            # inner group) - the group has to expose the member's new value
            t, fn = r.choice(cand)
            first_t = next(tt for m_ in flat for tt, ff in m_[1][1] if ff == fn)
            case["poke"] = [fn, V.gen_value(r, first_t, none_chance=5)]
        cases.append(case)
    r = rng.fork("exprseq")
    for _ in range(n // 20):
        expr = r.choice(["if total > 100:\n    label = 'BIG'\nq = total // d",
                         "tag = 'x'\nif d == 0:\n    raise ValueError('no')\nq = 1",
                         "if total > 100:\n    label = 'BIG'\n    tag = 'big'\nq = total // d"])
        rows = [[r.choice([5, 150, 1000, 7]), r.choice(["small", "keep", "zz"]), r.choice([0, 0, 1, 3])] for _ in range(r.randint(2, 6))]
        cases.append({"kind": "exprseq", "expr": expr, "rows": rows})
    cases.append({"kind": "exprseq", "expr": "if total > 100:\n    label = 'BIG'\nq = total // d",
                  "rows": [[150, "a", 0], [5, "keep", 1], [150, "b", 1], [7, "c", 0], [7, "mine", 2]]})
    r = rng.fork("replace")
    for _ in range(n // 2):
        rec = _gen_rec(r)
        fields = rec[1][1]
        kvs = []
        for t, fn in r.sample(fields, r.randint(0, len(fields))):
            kvs.append([fn, V.gen_value(r, t, none_chance=15)])
        if r.chance(20):
            kvs.append([r.choice(["_source", "_classification"]), V.S(r.choice(["s2", "", "x"]))])
        if r.chance(15):
            kvs.append([r.choice(["nope", "zz", "_missing"]), V.I(1)])
        cases.append({"kind": "replace", "record": rec, "kvs": kvs})
    r = rng.fork("project")
    for _ in range(n):
        rec = _gen_rec(r)
        names = [fn for _, fn in rec[1][1]]
        pool = names + ["missing", "_source", "_version", "zz"]
        w = r.below(4)
        fields = [r.choice(pool) for _ in range(r.randint(1, 5))] if w in (0, 1) else []
        exclude = [r.choice(pool) for _ in range(r.randint(1, 3))] if w in (1, 2) else []
        cases.append({"kind": "project", "record": rec, "fields": fields, "exclude": exclude})
    # one rewriter over a SEQUENCE of records (rdump -F/-X): runs of one type, same-name types with other fields
    r = rng.fork("projectseq")
    for _ in range(n // 2):
        recs = []
        base = _gen_rec(r)
        for _ in range(r.randint(2, 5)):
            w = r.below(10)
            if w < 3:
                recs.append(["rec", base[1], [V.gen_value(r, t, none_chance=15) for t, _ in base[1][1]], V.gen_meta(r)])
            elif w < 7:       # same record type NAME, other fields / types / order (schema evolution)
                other = _gen_rec(r)
                recs.append(["rec", [base[1][0], other[1][1]], other[2], other[3]])
            elif w < 8 and len(base[1][1]) > 1:
                fs = base[1][1]
                i = r.below(len(fs))
                fs2 = fs[:i] + [[r.choice(T15), fs[i][1]]] + fs[i + 1:]      # one field re-typed
                recs.append(["rec", [base[1][0], fs2], [V.gen_value(r, t, none_chance=15) for t, _ in fs2], V.gen_meta(r)])
            else:
                recs.append(_gen_rec(r))
        if r.chance(15):
            # two record types of one name whose descriptor identifiers (name + 32-bit hash) coincide
            cx = [["t/x", [["stringlist", "a"], ["string", "b"]]], ["t/x", [["string", "a"], ["string", "listb"]]]]
            if r.chance(50):
                cx.reverse()
            extra = [["rec", d_, [V.gen_value(r, t, none_chance=15) for t, _ in d_[1]], V.gen_meta(r)] for d_ in cx + cx[:1]]
            pos = r.randint(0, len(recs))
            recs = recs[:pos] + extra + recs[pos:]
        names = [fn for rec in recs for _, fn in rec[1][1]]
        pool = names + ["missing", "_source", "_version"]
        w = r.below(3)
        fields = [r.choice(pool) for _ in range(r.randint(1, 5))] if w in (0, 1) else []
        exclude = [r.choice(pool) for _ in range(r.randint(1, 3))] if w in (1, 2) else []
        cases.append({"kind": "projectseq", "records": recs, "fields": fields, "exclude": exclude})
    r = rng.fork("initdict")
    for _ in range(n // 2):
        ds = _gen_desc(r)
        kvs = []
        for t, fn in r.sample(ds[1], r.randint(0, len(ds[1]))):
            kvs.append([fn, V.gen_value(r, t, none_chance=15)])
        if r.chance(40):
            kvs.append([r.choice(["unknown", "zz"]), V.I(3)])
        kvs.append(["_generated", V.gen_dt_spec(r, tzkinds=("utc",))])
        cases.append({"kind": "initdict", "desc": ds, "kvs": kvs, "raise_unknown": r.chance(30)})
    return cases


# ------------------------------------------------------------------ real code

def obs_rec(r):
    d = r._desc
    return {"name": d.name, "fields": [list(t) for t in d.get_field_tuples()],
            "slots": [[k, V.observe(getattr(r, k))] for k in r.__slots__]}


def _flatten(members):
    out = []
    for m in members:
        if m[0] == "grouped":
            out += _flatten(m[2])
        else:
            out.append(m)
    return out


def _coerced_obs(desc, k, value):
    """the stored form of `value` in field k of a scratch record (independent of the operation under test)"""
    scratch = desc.recordType(**{k: value})
    return V.observe(getattr(scratch, k))


def run_real(case):
    from flow.record import GroupedRecord, RecordDescriptor
    from flow.record.base import extend_record, iter_timestamped_records, merge_record_descriptors
    from flow.record.stream import RecordFieldRewriter

    k = case["kind"]
    try:
        if k == "merge":
            ds = tuple(RecordDescriptor(nm, [tuple(f) for f in fs]) for nm, fs in case["descs"])
            before = [[d.name, [list(t) for t in d.get_field_tuples()]] for d in ds]
            merge_record_descriptors.cache_clear()
            out = merge_record_descriptors(ds, case["replace"], case["name"])
            after = [[d.name, [list(t) for t in d.get_field_tuples()]] for d in ds]
            return {"inputs": before, "inputs_after": after,
                    "output": {"name": out.name, "fields": [list(t) for t in out.get_field_tuples()],
                               "slots": list(out.recordType.__slots__)}}
        if k == "extend":
            recs = [V.build(s) for s in case["records"]]
            before = [obs_rec(x) for x in recs]
            out = extend_record(recs[0], recs[1:], replace=case["replace"], name=case["name"])
            return {"inputs": before, "inputs_after": [obs_rec(x) for x in recs], "output": obs_rec(out),
                    "is_new": all(out is not x for x in recs)}
        if k == "ts":
            rec = V.build(case["record"])
            before = [obs_rec(rec)]
            outs = list(iter_timestamped_records(rec))
            return {"inputs": before, "inputs_after": [obs_rec(rec)], "outputs": [obs_rec(o) for o in outs],
                    "same_object": [o is rec for o in outs]}
        if k == "grouped":
            members = [V.build(m) for m in case["members"]]
            flat = [V.build_record(m) for m in _flatten(case["members"])]
            # observation of the flattened members is taken from the very objects inside the group
            g = GroupedRecord(case["name"], members)
            before = [obs_rec(x) for x in g.records]
            keys = []
            for x in g.records:
                for kk in x.__slots__:
                    if kk not in keys:
                        keys.append(kk)
            keys.append("nonexistent")
            vals = []
            for kk in keys:
                try:
                    vals.append([V.observe(getattr(g, kk))])
                except AttributeError:
                    vals.append(None)
            del flat
            # the flat dictionary view (what projections, extend_record, init_from_record and the text-oriented writers
            # consume) and its selections
            try:
                asd = [[kk, V.observe(v)] for kk, v in g._asdict().items()]
                sel = keys[: max(1, len(keys) // 2)]
                asd_sel = [[kk, V.observe(v)] for kk, v in g._asdict(fields=sel).items()]
                asd_exc = [[kk, V.observe(v)] for kk, v in g._asdict(exclude=sel).items()]
            except Exception as e:
                asd, asd_sel, asd_exc, sel = {"error": type(e).__name__}, None, None, []
            # the group through a field rewriter (rdump -F over grouped records): a plain record of the selected fields
            # with the values of the members that provide them
            try:
                fsel = [kk for kk in keys if not kk.startswith("_") and kk != "nonexistent"]
                pr = RecordFieldRewriter(fields=list(fsel)).rewrite(g)
                projected = {"fields": fsel, "out": [[kk, V.observe(getattr(pr, kk))] for kk in fsel],
                             "desc": [list(t_) for t_ in pr._desc.get_field_tuples()]}
            except Exception as e:          # noqa: BLE001
                projected = {"error": type(e).__name__ + ": " + str(e)[:80]}
            # transport: the group through a binary stream and through the JSON packer (flat view)
            transport = {}
            try:
                import io as _io
                import json as _json

                from flow.record import RecordStreamReader, RecordStreamWriter
                from flow.record.jsonpacker import JsonRecordPacker
                buf = _io.BytesIO()
                w_ = RecordStreamWriter(buf)
                w_.write(g)
                w_.flush()
                w_.fp = None
                back = list(RecordStreamReader(_io.BytesIO(buf.getvalue())))
                transport["stream"] = {"count": len(back), "members": len(back[0].records) if back else None,
                                       "asdict": [[kk, V.observe(v)] for kk, v in back[0]._asdict().items()] if back else []}
            except Exception as e:          # noqa: BLE001
                transport["stream"] = {"error": type(e).__name__ + ": " + str(e)[:80]}
            try:
                doc = _json.loads(JsonRecordPacker().pack(g))
                transport["json"] = {kk: v for kk, v in doc.items() if isinstance(v, (str, int)) and not isinstance(v, bool)}
            except Exception as e:          # noqa: BLE001
                transport["json"] = {"error": type(e).__name__}
            # a plain record of the flat type made FROM the group (RecordDescriptor.init_from_record): the same flat values
            try:
                ifr = g._desc.init_from_record(g)
                transport["init_from_record"] = [[kk, V.observe(getattr(ifr, kk))] for kk in ifr.__slots__]
            except Exception as e:          # noqa: BLE001
                transport["init_from_record"] = {"error": type(e).__name__}
            res = {"inputs": before, "inputs_after": [obs_rec(x) for x in g.records], "keys": keys, "values": vals, "transport": transport, "projected": projected,
                   "asdict": asd, "asdict_sel": asd_sel, "asdict_exc": asd_exc, "sel": sel,
                   "output": {"name": g._desc.name, "fields": [list(t) for t in g._desc.get_field_tuples()]}}
            if case.get("assign"):
                fn, spec = case["assign"]
                owner = next(i for i, x in enumerate(g.records) if fn in x.__slots__)
                # assignment (unlike construction) stores None as it is
                want = ["none"] if spec == ["none"] else _coerced_obs(g.records[owner]._desc, fn, V.build(spec))
                setattr(g, fn, V.build(spec))
                res["assign"] = {"owner": owner, "want": want, "after": [obs_rec(x) for x in g.records],
                                 "read_back": V.observe(getattr(g, fn))}
            if case.get("poke"):
                fn, spec = case["poke"]
                owner = next(i for i, x in enumerate(g.records) if fn in x.__slots__)
                getattr(g, fn)                                   # read through the group first
                setattr(g.records[owner], fn, V.build(spec))     # then update the member itself
                try:
                    dv = V.observe(g._asdict()[fn])
                except Exception as e:          # noqa: BLE001
                    dv = ["error", type(e).__name__]
                res["poke"] = {"member": V.observe(getattr(g.records[owner], fn)), "group": V.observe(getattr(g, fn)),
                               "asdict": dv}
            return res
        if k == "replace":
            rec = V.build(case["record"])
            before = [obs_rec(rec)]
            kv = [(kk, V.build(vs)) for kk, vs in case["kvs"]]
            kv_obs = []
            for kk, v in kv:
                kv_obs.append([kk, _coerced_obs(rec._desc, kk, v) if kk in rec.__slots__ else V.observe(v)])
            try:
                out = rec._replace(**dict(kv))
                res = {"ok": True, "output": obs_rec(out), "is_new": out is not rec}
            except ValueError:
                res = {"ok": False}
            res.update({"inputs": before, "inputs_after": [obs_rec(rec)], "kv_obs": kv_obs})
            return res
        if k == "project":
            rec = V.build(case["record"])
            before = [obs_rec(rec)]
            out = RecordFieldRewriter(fields=list(case["fields"]), exclude=list(case["exclude"])).rewrite(rec)
            return {"inputs": before, "inputs_after": [obs_rec(rec)], "output": obs_rec(out), "same_object": out is rec}
        if k == "exprseq":
            # one rewriter with an EXPRESSION over a sequence of records, some of which make the expression raise (the
            # caller catches that and goes on): every record is rewritten from its own fields alone
            rw = RecordFieldRewriter(expression=case["expr"])
            steps = []
            for vals in case["rows"]:
                rec = V.descriptor(EXPR_DS)(**dict(zip([n for _, n in EXPR_DS[1]], vals)))
                try:
                    out = rw.rewrite(rec)
                    steps.append({kk: (getattr(out, kk, None) if not isinstance(getattr(out, kk, None), (int, str, type(None)))
                                       else getattr(out, kk, None)) for kk in ("total", "label", "d", "q", "tag")})
                    steps[-1] = {kk: (v if isinstance(v, (str, type(None))) else int(v)) for kk, v in steps[-1].items()}
                except Exception as e:          # noqa: BLE001
                    steps.append({"raised": type(e).__name__})
            return {"steps": steps}
        if k == "projectseq":
            rw = RecordFieldRewriter(fields=list(case["fields"]), exclude=list(case["exclude"]))
            steps = []
            for spec in case["records"]:
                rec = V.build(spec)
                before = [obs_rec(rec)]
                out = rw.rewrite(rec)
                steps.append({"inputs": before, "inputs_after": [obs_rec(rec)], "output": obs_rec(out), "same_object": out is rec})
            return {"steps": steps}
        if k == "initdict":
            desc = V.descriptor(case["desc"])
            kv = [(kk, V.build(vs)) for kk, vs in case["kvs"]]
            slots = desc.recordType.__slots__
            kv_obs = [[kk, _coerced_obs(desc, kk, v) if kk in slots else V.observe(v)] for kk, v in kv]
            from flow.record.base import fieldtype
            defaults = [[t, V.observe(fieldtype(t).default())] for t in _uniq([t for t, _ in case["desc"][1]])]
            try:
                out = desc.init_from_dict(dict(kv), raise_unknown=case["raise_unknown"])
                res = {"ok": True, "output": obs_rec(out)}
            except TypeError:
                res = {"ok": False}
            res.update({"inputs": [], "inputs_after": [], "kv_obs": kv_obs, "defaults": defaults})
            return res
    except Exception as e:
        return {"error": type(e).__name__, "msg": str(e)[:200]}
    raise ValueError(k)


# ------------------------------------------------------------------ dictionary-based reference (independent of the model)

def ref_merge(field_lists, replace):
    order, typ = [], {}
    for fs in field_lists:
        for t, n in fs:
            if n not in typ:
                order.append(n)
                typ[n] = t
            elif replace:
                typ[n] = t
    return [[typ[n], n] for n in order]


def ref_values(recs, replace):
    """slot -> observation; lower priority first, then overwritten by higher priority (no ChainMap)"""
    vals = {}
    seq = recs if replace else list(reversed(recs))
    for r in seq:
        vals.update({k: v for k, v in r["slots"]})
    return vals


def _uniq(xs):
    out = []
    for x in xs:
        if x not in out:
            out.append(x)
    return out


def _check_rec(out, name, fields, vals, what, skip=()):
    if out["name"] != name:
        return f"{what}: name {out['name']!r} instead of {name!r}"
    if out["fields"] != fields:
        return f"{what}: fields {out['fields']} instead of {fields}"
    want_slots = _uniq([n for _, n in fields]) + RESERVED
    got = [k for k, _ in out["slots"]]
    if got != want_slots:
        return f"{what}: slots {got} instead of {want_slots}"
    for k, v in out["slots"]:
        if k in skip:
            continue
        if k == "_version":
            if v != ["int", "varint", "1"]:
                return f"{what}: _version is {v}"
            continue
        w = vals.get(k, ["none"])
        if v != w:
            return f"{what}: slot {k} holds {json.dumps(v)[:80]} instead of {json.dumps(w)[:80]}"
    return None


def oracle(case, obs):
    k = case["kind"]
    if "error" in obs:
        return f"operation raised {obs['error']}: {obs.get('msg')}"
    if k == "exprseq":
        for i, (vals, st) in enumerate(zip(case["rows"], obs["steps"])):
            env = dict(zip([n for _, n in EXPR_DS[1]], vals))
            loc = {}
            try:
                exec(case["expr"], dict(env), loc)       # the expression over THIS record's fields, nothing else
            except Exception as e:          # noqa: BLE001
                want = {"raised": type(e).__name__}
            else:
                want = {kk: loc.get(kk, env.get(kk)) for kk in ("total", "label", "d", "q", "tag")}
            if st != want:
                return (f"record {i} of the sequence rewritten with the expression: {st} instead of {want} (the record's own "
                        f"fields {env})")
        return None
    if k == "projectseq":
        # every record of the sequence is projected as if it were the only one the rewriter ever saw
        for i, (spec, st) in enumerate(zip(case["records"], obs["steps"])):
            f = oracle({"kind": "project", "record": spec, "fields": case["fields"], "exclude": case["exclude"]}, st)
            if f:
                return f"record {i} of the sequence: {f}"
        return None
    if obs.get("inputs") != obs.get("inputs_after"):
        return "an input record/descriptor was modified by the operation"
    if k == "merge":
        ins = obs["inputs"]
        want = ref_merge([fs for _, fs in ins], case["replace"])
        name = case["name"] if case["name"] is not None else ins[0][0]
        out = obs["output"]
        if out["name"] != name:
            return f"merged descriptor is named {out['name']!r} instead of {name!r}"
        if out["fields"] != want:
            return f"merged fields {out['fields']} instead of {want}"
        return None
    if k == "extend":
        ins = obs["inputs"]
        fields = ref_merge([r["fields"] for r in ins], case["replace"])
        name = case["name"] if case["name"] is not None else ins[0]["name"]
        f = _check_rec(obs["output"], name, fields, ref_values(ins, case["replace"]), "extended record")
        if f:
            return f
        if not obs["is_new"]:
            return "extend_record returned one of its inputs"
        return None
    if k == "ts":
        orig = obs["inputs"][0]
        ov = dict((kk, v) for kk, v in orig["slots"])
        dts = [n for t, n in orig["fields"] if t == "datetime"]
        outs = obs["outputs"]
        if not dts:
            if len(outs) != 1 or outs[0] != orig or obs["same_object"] != [True]:
                return "record without datetime fields was not returned as it is"
            return None
        if len(outs) != len(dts):
            return f"{len(outs)} expanded records for {len(dts)} datetime fields"
        rest = [[t, n] for t, n in orig["fields"] if n not in ("ts", "ts_description")]
        fields = [["datetime", "ts"], ["string", "ts_description"]] + rest
        for i, (o, fn) in enumerate(zip(outs, dts)):
            got = dict((kk, v) for kk, v in o["slots"])
            if got.get("ts") != ov[fn]:
                return (f"expanded record {i} (ts_description={fn!r}): ts is {json.dumps(got.get('ts'))[:70]} but the "
                        f"original's {fn} is {json.dumps(ov[fn])[:70]}")
            if got.get("ts_description") != ["str", "string", enc_str(fn)]:
                return f"expanded record {i}: ts_description is {got.get('ts_description')} instead of {fn!r}"
            if o["name"] != orig["name"]:
                return f"expanded record {i}: name {o['name']!r}"
            if o["fields"] != fields:
                return f"expanded record {i}: fields {o['fields']} instead of {fields}"
            for t, n in rest:
                if got.get(n) != ov[n]:
                    return f"expanded record {i}: original field {n} changed"
            for m in ("_source", "_classification", "_generated"):
                if got.get(m) != ov[m]:
                    return (f"expanded record {i}: {m} is {json.dumps(got.get(m))[:60]} instead of the original's "
                            f"{json.dumps(ov[m])[:60]}")
            if got.get("_version") != ["int", "varint", "1"]:
                return f"expanded record {i}: _version {got.get('_version')}"
        return None
    if k == "grouped":
        ins = obs["inputs"]
        want_fields = ref_merge([r["fields"] for r in ins], False)
        if obs["output"]["fields"] != want_fields:
            return f"flat descriptor fields {obs['output']['fields']} instead of {want_fields}"
        if obs["output"]["name"] != case["name"]:
            return "flat descriptor name differs"
        vals = ref_values(ins, False)
        for kk, v in zip(obs["keys"], obs["values"]):
            w = [vals[kk]] if kk in vals else None
            if kk in GROUP_OWN:
                continue            # attribute access on the group serves its own attribute (see GROUP_OWN)
            if v != w:
                return f"grouped.{kk} is {json.dumps(v)[:70]} instead of the first member's {json.dumps(w)[:70]}"
        pj = obs.get("projected")
        if pj is not None:
            if "error" in pj:
                return f"RecordFieldRewriter(fields=...) over the group raised {pj['error']}"
            typ_ = dict((n_, t_) for t_, n_ in want_fields)
            if pj["desc"] != [[typ_[n_], n_] for n_ in pj["fields"] if n_ in typ_]:
                return f"group through a field rewriter: fields {pj['desc']} instead of the selected {pj['fields']}"
            for kk, v in pj["out"]:
                if kk in vals and v != vals[kk]:
                    return (f"group through a field rewriter: field {kk} is {json.dumps(v)[:70]} instead of the providing "
                            f"member's {json.dumps(vals[kk])[:70]}")
        if "asdict" in obs:
            if isinstance(obs["asdict"], dict):
                return f"grouped._asdict() raised {obs['asdict']['error']}"
            for what, got, pred in (("_asdict()", obs["asdict"], lambda kk: True),
                                    ("_asdict(fields=...)", obs["asdict_sel"], lambda kk: kk in obs["sel"]),
                                    ("_asdict(exclude=...)", obs["asdict_exc"], lambda kk: kk not in obs["sel"])):
                for kk, v in got:
                    if not pred(kk):
                        return f"grouped.{what} holds {kk}, which was not selected"
                    if kk in vals and v != vals[kk]:
                        return (f"grouped.{what}[{kk}] is {json.dumps(v)[:70]} instead of the first member's "
                                f"{json.dumps(vals[kk])[:70]}")
                missing = [kk for kk in vals if pred(kk) and kk not in [g_[0] for g_ in got]]
                if missing:
                    return f"grouped.{what} lacks {missing[:3]}"
        tr = obs.get("transport") or {}
        SIMPLE = ("str", "int", "none", "pybool", "boolean", "float", "bytes")
        canon_ = lambda o: (o[0], o[2]) if o and o[0] in ("int", "str", "float") else ("none",) if o == ["none"] else None   # noqa: E731
        st = tr.get("stream")
        if st and isinstance(obs.get("asdict"), list):
            if "error" in st:
                # (a value the binary packer cannot serialise is C01's business; a lost definition is not)
                if "Descriptor" in st["error"] or "KeyError" in st["error"]:
                    return f"grouped record through a binary stream: {st['error']}"
            else:
                if st["count"] != 1 or st["members"] != len(ins):
                    return (f"grouped record through a binary stream: {st['count']} object(s) with {st['members']} members come "
                            f"back, {len(ins)} members were written")
                got = dict((kk, v) for kk, v in st["asdict"])
                for kk, v in obs["asdict"]:
                    if canon_(v) is not None and canon_(got.get(kk) or ["?"]) != canon_(v):
                        return (f"grouped record through a binary stream: flat field {kk} is {json.dumps(got.get(kk))[:70]} "
                                f"instead of {json.dumps(v)[:70]}")
        ifr = tr.get("init_from_record")
        if isinstance(ifr, list) and isinstance(obs.get("asdict"), list):
            flat = dict((kk, v) for kk, v in obs["asdict"])
            for kk, v in ifr:
                if kk in flat and kk != "_version" and canon_(flat[kk]) is not None and canon_(v) != canon_(flat[kk]) \
                        and flat[kk][0] == v[0]:
                    return (f"init_from_record(group): field {kk} is {json.dumps(v)[:70]} instead of the group's flat value "
                            f"{json.dumps(flat[kk])[:70]}")
        js = tr.get("json")
        if js and "error" not in js and isinstance(obs.get("asdict"), list):
            for kk, v in obs["asdict"]:
                if kk in ("_type", "_recorddescriptor"):
                    continue
                if v[0] == "str" and v[1] == "string" and kk in js and js[kk] != V.dec_str(v[2]):
                    if not any(0xD800 <= ord(ch_) <= 0xDFFF for ch_ in V.dec_str(v[2])):
                        return f"grouped record as JSON: {kk} is {js[kk]!r:.60} instead of {V.dec_str(v[2])!r:.60}"
                if v[0] == "int" and v[1] == "varint" and kk in js and js[kk] != int(v[2]):
                    return f"grouped record as JSON: {kk} is {js[kk]!r:.60} instead of {v[2]}"
        a = obs.get("assign")
        if a:
            fn = case["assign"][0]
            for i, (b4, af) in enumerate(zip(ins, a["after"])):
                for (k1, v1), (k2, v2) in zip(b4["slots"], af["slots"]):
                    if i == a["owner"] and k1 == fn:
                        if v2 != a["want"]:
                            return f"assignment to grouped.{fn} did not reach the first member that has the field"
                    elif v1 != v2:
                        return f"assignment to grouped.{fn} changed {k1} of member {i}"
            if a["read_back"] != a["want"]:
                return f"grouped.{fn} does not read back the assigned value"
        pk = obs.get("poke")
        if pk:
            fn = case["poke"][0]
            if pk["group"] != pk["member"]:
                return (f"after the first member holding {fn} was updated, grouped.{fn} is {json.dumps(pk['group'])[:70]} "
                        f"while the member holds {json.dumps(pk['member'])[:70]}")
            if pk["asdict"] != pk["member"]:
                return f"after the first member holding {fn} was updated, grouped._asdict()[{fn}] does not follow"
        return None
    if k == "replace":
        orig = obs["inputs"][0]
        slots = [kk for kk, _ in orig["slots"]]
        unknown = [kk for kk, _ in case["kvs"] if kk not in slots]
        if unknown:
            return None if not obs["ok"] else f"_replace accepted unknown field names {unknown}"
        if not obs["ok"]:
            return "_replace raised for known field names"
        vals = dict((kk, v) for kk, v in orig["slots"])
        vals.update(dict((kk, v) for kk, v in obs["kv_obs"]))
        f = _check_rec(obs["output"], orig["name"], orig["fields"], vals, "_replace result")
        if f:
            return f
        if not obs["is_new"]:
            return "_replace returned the original object"
        return None
    if k == "project":
        orig = obs["inputs"][0]
        fields, exclude = case["fields"], case["exclude"]
        if not fields and not exclude:
            return None if obs["same_object"] else "rewrite without fields/exclude did not return the record"
        typ = dict((n, t) for t, n in orig["fields"])
        if fields:
            want = [[typ[n], n] for n in fields if n not in exclude and n in typ]
        else:
            want = [[t, n] for t, n in orig["fields"] if n not in exclude]
        vals = dict((kk, v) for kk, v in orig["slots"])
        return _check_rec(obs["output"], orig["name"], want, vals, "projected record")
    if k == "initdict":
        nm, fs = case["desc"]
        slots = _uniq([n for _, n in fs]) + RESERVED
        unknown = [kk for kk, _ in case["kvs"] if kk not in slots]
        if unknown and case["raise_unknown"]:
            return None if not obs["ok"] else "init_from_dict(raise_unknown=True) accepted unknown keys"
        if not obs["ok"]:
            return "init_from_dict raised"
        dflt = dict((t, v) for t, v in obs["defaults"])
        typ = {}
        for t, n in fs:
            typ[n] = t
        vals = dict((n, dflt[typ[n]]) for n in typ)
        vals.update(dict((kk, v) for kk, v in obs["kv_obs"] if kk in slots))
        return _check_rec(obs["output"], nm, [list(f) for f in fs], vals, "init_from_dict result")
    return None


# ------------------------------------------------------------------ model

class Tok:
    def __init__(self):
        self.ids, self.back = {}, []

    def of(self, o):
        key = json.dumps(o, sort_keys=True)
        if key not in self.ids:
            self.ids[key] = len(self.back)
            self.back.append(o)
        return self.ids[key]

    def obs(self, t):
        if isinstance(t, dict) and "fname" in t:
            return ["str", "string", t["fname"]]
        return self.back[t]


def _mrec(tk, o):
    return {"name": enc_str(o["name"]), "fields": [[enc_str(t), enc_str(n)] for t, n in o["fields"]],
            "slots": [[enc_str(kk), tk.of(v)] for kk, v in o["slots"]]}


def _unrec(tk, m):
    return {"name": V.dec_str(m["name"]), "fields": [[V.dec_str(t), V.dec_str(n)] for t, n in m["fields"]],
            "slots": [[V.dec_str(kk), tk.obs(v)] for kk, v in m["slots"]]}


def _tok(obs):
    tk = Tok()
    none, ver = tk.of(["none"]), tk.of(["int", "varint", "1"])
    return tk, none, ver


def _one(case, i):
    return {"kind": "project", "record": case["records"][i], "fields": case["fields"], "exclude": case["exclude"]}


def model_op(case, obs):
    if case["kind"] == "exprseq":
        return None
    if case["kind"] == "projectseq":
        if "error" in obs:
            return None
        return [_build(_one(case, i), st)[0] for i, st in enumerate(obs["steps"])]
    return _build(case, obs)[0]


def _build(case, obs):
    """-> (op line, token table used for it)"""
    if "error" in obs:
        return None, None
    k = case["kind"]
    tk, none, ver = _tok(obs)
    op = _build_op(case, obs, k, tk, none, ver)
    return op, tk


def _build_op(case, obs, k, tk, none, ver):
    if k == "merge":
        return {"op": "c15_merge", "replace": case["replace"],
                "descs": [[[enc_str(t), enc_str(n)] for t, n in fs] for _, fs in obs["inputs"]]}
    if k == "extend":
        return {"op": "c15_extend", "replace": case["replace"], "name": enc_str(case["name"]) if case["name"] else None,
                "records": [_mrec(tk, r) for r in obs["inputs"]], "none": none, "ver": ver}
    if k == "ts":
        return {"op": "c15_ts", "record": _mrec(tk, obs["inputs"][0]), "none": none, "ver": ver}
    if k == "grouped":
        return {"op": "c15_grouped", "members": [_mrec(tk, r) for r in obs["inputs"]],
                "keys": [enc_str(kk) for kk in obs["keys"]]}
    if k == "replace":
        rec = _mrec(tk, obs["inputs"][0])
        return {"op": "c15_replace", "record": rec, "kvs": [[enc_str(kk), tk.of(v)] for kk, v in obs["kv_obs"]], "ver": ver}
    if k == "project":
        return {"op": "c15_project", "record": _mrec(tk, obs["inputs"][0]), "fields": [enc_str(x) for x in case["fields"]],
                "exclude": [enc_str(x) for x in case["exclude"]], "none": none, "ver": ver}
    if k == "initdict":
        if not obs["ok"]:
            return None
        nm, fs = case["desc"]
        slots = _uniq([n for _, n in fs]) + RESERVED
        return {"op": "c15_initdict", "name": enc_str(nm), "fields": [[enc_str(t), enc_str(n)] for t, n in fs],
                "kvs": [[enc_str(kk), tk.of(v)] for kk, v in obs["kv_obs"] if kk in slots], "none": none, "ver": ver,
                "defaults": [[enc_str(t), tk.of(v)] for t, v in obs["defaults"]]}
    return None


def _cmp_rec(tk, m, o, what):
    mr = _unrec(tk, m)
    if mr["name"] != o["name"]:
        return f"{what}: name model {mr['name']!r} vs implementation {o['name']!r}"
    if mr["fields"] != o["fields"]:
        return f"{what}: fields model {mr['fields']} vs implementation {o['fields']}"
    if mr["slots"] != o["slots"]:
        for (a, b) in zip(mr["slots"], o["slots"]):
            if a != b:
                return f"{what}: slot model {json.dumps(a)[:90]} vs implementation {json.dumps(b)[:90]}"
        return f"{what}: slot lists differ in length"
    return None


def compare(case, obs, m):
    if case["kind"] == "projectseq":
        for i, (st, mi) in enumerate(zip(obs["steps"], m)):
            d = compare(_one(case, i), st, mi)
            if d:
                return f"record {i} of the sequence: {d}"
        return None
    if "error" in m and len(m) == 1:
        return f"model error {m['error']}"
    k = case["kind"]
    _, tk = _build(case, obs)
    if k == "merge":
        got = [[V.dec_str(t), V.dec_str(n)] for t, n in m["fields"]]
        if got != obs["output"]["fields"]:
            return f"merged fields: model {got} vs implementation {obs['output']['fields']}"
        return None
    if k == "extend":
        return _cmp_rec(tk, m, obs["output"], "extended record")
    if k == "ts":
        if len(m["records"]) != len(obs["outputs"]):
            return f"model yields {len(m['records'])} records, implementation {len(obs['outputs'])}"
        for i, (a, b) in enumerate(zip(m["records"], obs["outputs"])):
            d = _cmp_rec(tk, a, b, f"expanded record {i}")
            if d:
                return d
        return None
    if k == "grouped":
        got = [[V.dec_str(t), V.dec_str(n)] for t, n in m["fields"]]
        if got != obs["output"]["fields"]:
            return f"flat fields: model {got} vs implementation {obs['output']['fields']}"
        mv = [None if v is None else [tk.obs(v[0])] for v in m["values"]]
        if [x for kk, x in zip(obs["keys"], mv) if kk not in GROUP_OWN] != \
                [x for kk, x in zip(obs["keys"], obs["values"]) if kk not in GROUP_OWN]:
            return "grouped attribute values differ"
        if isinstance(obs.get("asdict"), list) and "asdict" in m:
            got = dict((kk, v) for kk, v in obs["asdict"])
            for kk, mvv in zip(obs["keys"], m["asdict"]):
                if mvv is None:
                    if kk in got:
                        return f"grouped._asdict() holds {kk}, the model's view does not"
                    continue
                if mvv[0] == "<own attribute of the group>":
                    return f"model: _asdict()[{kk}] would be the group object's own attribute"
                if kk not in got or tk.obs(mvv[0]) != got[kk]:
                    return f"grouped._asdict()[{kk}]: model {json.dumps(tk.obs(mvv[0]))[:80]} vs implementation {json.dumps(got.get(kk))[:80]}"
        return None
    if k == "replace":
        if m["ok"] != obs["ok"]:
            return f"_replace: model ok={m['ok']} vs implementation ok={obs['ok']}"
        if m["ok"]:
            return _cmp_rec(tk, m["record"], obs["output"], "_replace result")
        return None
    if k == "project":
        return _cmp_rec(tk, m, obs["output"], "projected record")
    if k == "initdict":
        return _cmp_rec(tk, m, obs["output"], "init_from_dict result")
    return None


def nontrivial(case, obs):
    k = case["kind"]
    if "error" in obs:
        return False
    if k == "exprseq":
        return any("raised" in st for st in obs["steps"]) and any("raised" not in st for st in obs["steps"])
    if k == "merge":
        names = [n for _, fs in case["descs"] for _, n in fs]
        return len(names) != len(set(names))
    if k in ("extend", "grouped"):
        names = [n for r in obs["inputs"] for _, n in r["fields"]]
        return len(names) != len(set(names))
    if k == "ts":
        return any(t == "datetime" for t, _ in case["record"][1][1])
    if k == "replace":
        return len(case["kvs"]) > 0
    if k == "project":
        return bool(case["fields"] or case["exclude"])
    if k == "projectseq":
        return len(set(json.dumps(r[1]) for r in case["records"])) > 1
    if k == "initdict":
        return len(case["kvs"]) > 1
    return True


def classify(case, obs):
    k = case["kind"]
    if "error" in obs:
        return f"{k}:error:{obs['error']}"
    if k == "exprseq":
        return "exprseq"
    if k in ("merge", "extend"):
        return f"{k}:{'replace' if case['replace'] else 'first-wins'}:{'renamed' if case['name'] else 'name-of-first'}"
    if k == "ts":
        fs = case["record"][1][1]
        ndt = sum(1 for t, _ in fs if t == "datetime")
        tags = [f"ts:{ndt}-datetime-fields"]
        dtn = [n for t, n in fs if t == "datetime"]
        if "ts" in dtn[1:]:
            tags.append("ts:datetime-field-named-ts-not-first")
        if any(n in ("ts", "ts_description") for _, n in fs):
            tags.append("ts:field-named-ts-or-ts_description")
        return tags
    if k == "grouped":
        return "grouped:" + ("nested" if any(m[0] == "grouped" for m in case["members"]) else "flat")
    if k == "replace":
        return f"replace:{'ok' if obs.get('ok') else 'ValueError'}"
    if k == "project":
        return f"project:{'F' if case['fields'] else ''}{'X' if case['exclude'] else ''}" or "project:none"
    if k == "projectseq":
        names = [r[1][0] for r in case["records"]]
        descs = set(json.dumps(r[1]) for r in case["records"])
        return ["projectseq:" + ("same-name-different-fields" if len(set(names)) < len(descs) else "distinct-names"),
                f"projectseq:len-{len(names)}"]
    if k == "initdict":
        return f"initdict:{'ok' if obs.get('ok') else 'TypeError'}"
    return k


def shrink(case):
    k = case["kind"]
    if k == "extend" and len(case["records"]) > 1:
        for i in range(len(case["records"])):
            yield dict(case, records=case["records"][:i] + case["records"][i + 1:])
    if k == "merge" and len(case["descs"]) > 1:
        for i in range(len(case["descs"])):
            yield dict(case, descs=case["descs"][:i] + case["descs"][i + 1:])
    if k == "projectseq" and len(case["records"]) > 1:
        for i in range(len(case["records"])):
            yield dict(case, records=case["records"][:i] + case["records"][i + 1:])
    if k in ("ts", "project", "replace"):
        rec = case["record"]
        nm, fs = rec[1]
        for i in range(len(fs)):
            if len(fs) > 1:
                yield dict(case, record=["rec", [nm, fs[:i] + fs[i + 1:]], rec[2][:i] + rec[2][i + 1:], rec[3]])
