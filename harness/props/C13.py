"""C13 — timestamps are timezone-aware and keep their instant everywhere.

Real code: a `datetime` field built from an object / ISO text / epoch number through the record constructor, then
written and read back through RecordWriter/RecordReader for the binary stream, JSON lines, SQLite and Avro; the packed
form (`RecordPacker.pack_obj`), `isoformat()` and `str()` (under a display zone installed the way the library installs
it) are observed too. Display settings: fresh subprocesses per FLOW_RECORD_TZ / TZ setting write the same values in
every format; the stored bytes / rows / comparisons must be identical.

Correspondence: the Lean model (Model/DateTime.lean: construct, toIso/parseIso, packDt/unpackDt, toMicros/fromMicros
over a concrete Gregorian day number, render) on the same inputs. `zoneinfo` is not modelled: the harness hands the
model the offsets the zone assigns to the wall time (fold 0 and fold 1).

Oracle (real observation only; expectations are computed from the input spec with plain integer arithmetic and
`datetime.toordinal`): aware; same wall clock and UTC offset as the input after construction and after the binary /
JSON / SQLite round trip; same instant, offset 0, after the Avro round trip; outside the domain (UTC instant outside
years 1..9999; offsets strictly between 0 and 1 s) the outcome must be an error or the documented one, never a
different instant without notice.
"""
import datetime as _dtm
import fractions
import hashlib
import json
import os
import shutil
import struct
import subprocess
import sys
import tempfile

from harness import values as V

ID = "C13"
CLAIM = dict(
    text="Kernel-checked theorems about an executable model of the timestamp path: every constructor result is aware "
         "and valid; parseIso(toIso dt) = the same wall clock with the same UTC offset for EVERY valid datetime whose "
         "offset is zero or at least one second in magnitude (years 1..9999, extreme offsets, offsets with seconds "
         "and microseconds, fold/gap wall times), by digit lemmas proved with omega; the binary (7-tuple for UTC, ISO "
         "text otherwise), JSON and SQLite round trips are that identity; the object constructor keeps wall clock, "
         "tzinfo and fold (flag extracted from the source); Avro timestamp-micros returns the unique valid UTC "
         "datetime of the same instant whenever that instant lies in years 1..9999 and fails otherwise, over a "
         "CONCRETE proleptic-Gregorian day number proved inverse on all valid dates (no calendar hypothesis); what is "
         "printed under any display offset denotes the same instant; only __str__/__repr__ of one file read the "
         "display zone (extracted use sites, decide). Tie: extracted flags/use sites + correspondence of constructor, "
         "isoformat, packed form, four storage round trips and str() with the model + real-code oracle + byte "
         "identity of everything written under 5 FLOW_RECORD_TZ/TZ settings in fresh subprocesses.",
    note="partial: zoneinfo (which offset a zone assigns to a wall time) and CPython's datetime arithmetic inside "
         "fastavro/astimezone are exercised by correspondence, not proved; float epoch input is oracle-only; ISO text "
         "outside the language isoformat() prints (Z suffix, basic format) is oracle-only. Documented domain "
         "boundary, proved as a counterexample of the unrestricted statement: an offset strictly between 0 and 1 s "
         "is printed (+00:00:00.000001) but read back as UTC by CPython.",
    technique="Lean 4 theorems over an executable model + model/implementation correspondence",
    design="8/C13")
RULE = ("rt: one input per case = datetime (boundary pool: years 1/9999, 1969/1970, 2^32 us, leap days, DST fold and gap "
        "wall times; else random) x tzinfo kind (naive, timezone.utc, timezone(0), ZoneInfo('UTC'), fixed offsets: whole "
        "hours, minutes, seconds, > 1 s with microseconds, +-23:59:59.999999, IANA zones with fold 0/1) x input form "
        "(object, ISO text as isoformat() prints it, ISO variants Z / space / basic offset / short fraction / bytes, "
        "epoch int, epoch float) x all four storage formats, optionally under a display zone. malformed stream: "
        "offsets strictly inside (0, 1 s), UTC instants outside years 1..9999, epoch numbers out of range. display: the "
        "same value list written in fresh subprocesses under 5 FLOW_RECORD_TZ/TZ settings. Non-trivial = tz kind other "
        "than plain UTC, or a boundary date, or a non-object input form; distinct by hash of the case.")
TRUSTED = ["zoneinfo / system tz database: which UTC offset a zone assigns to a wall time and fold (input of the model)",
           "CPython datetime arithmetic inside fastavro (aware - epoch, epoch + timedelta) and astimezone (exercised)",
           "sqlite3, fastavro, msgpack as transports of the text / integer they are handed (exercised)"]
ASSUMPTIONS = ["a zone missing from the system tz database is skipped and counted in the distribution",
               "offsets strictly between 0 and 1 s and UTC instants outside years 1..9999 are outside the property's "
               "domain (malformed stream: error or documented outcome)"]
EXPLANATION = "seeded sample of the product space; boundary pools are always included; not exhaustive"

EPOCH = _dtm.datetime(1970, 1, 1, tzinfo=_dtm.timezone.utc)
GEN_FIXED = ["dt", [2024, 1, 1, 0, 0, 0, 0], "utc", 0]
DAY_US = 86400 * 10 ** 6
MIN_INSTANT = 0                      # 0001-01-01T00:00:00Z in us since that moment
MAX_INSTANT = 3652059 * DAY_US       # first instant after 9999-12-31T23:59:59.999999Z
ORD_EPOCH = 719163
FORMATS = ["binary", "json", "sqlite", "avro"]
ZONES = ["Europe/Amsterdam", "America/New_York", "Asia/Kolkata", "Australia/Lord_Howe", "Africa/Monrovia",
         "Europe/Dublin", "Pacific/Apia", "UTC"]
DISPLAY_SETTINGS = [{}, {"FLOW_RECORD_TZ": "Europe/Amsterdam"}, {"FLOW_RECORD_TZ": "NONE"},
                    {"FLOW_RECORD_TZ": "America/New_York", "TZ": "Asia/Tokyo"}, {"TZ": "Australia/Lord_Howe"}]
BOUNDARY = [
    (1, 1, 1, 0, 0, 0, 0), (1, 1, 1, 23, 59, 59, 999999), (1, 1, 2, 0, 0, 0, 0), (1, 12, 31, 23, 59, 59, 999999),
    (9999, 12, 31, 23, 59, 59, 999999), (9999, 12, 31, 0, 0, 0, 0), (9999, 12, 30, 12, 0, 0, 1), (9999, 1, 1, 0, 0, 0, 0),
    (1969, 12, 31, 23, 59, 59, 999999), (1970, 1, 1, 0, 0, 0, 0), (1970, 1, 1, 0, 0, 0, 1), (1969, 12, 31, 0, 0, 0, 0),
    (1970, 1, 1, 1, 11, 34, 967295), (1970, 1, 1, 1, 11, 34, 967296), (1970, 1, 1, 1, 11, 34, 967297),
    (2000, 2, 29, 12, 0, 0, 1), (1900, 2, 28, 23, 59, 59, 999999), (1900, 3, 1, 0, 0, 0, 0), (2100, 2, 28, 0, 0, 0, 0),
    (2024, 2, 29, 23, 59, 59, 0), (1600, 2, 29, 0, 0, 0, 0), (400, 2, 29, 1, 2, 3, 4), (4, 2, 29, 0, 0, 0, 0),
    (2038, 1, 19, 3, 14, 7, 0), (2038, 1, 19, 3, 14, 8, 0), (1901, 12, 13, 20, 45, 52, 0), (2001, 9, 9, 1, 46, 40, 0),
    (1582, 10, 10, 0, 0, 0, 0), (100, 3, 1, 0, 0, 0, 0), (99, 12, 31, 0, 0, 0, 0), (1000, 1, 1, 0, 0, 0, 10),
]
# wall times inside DST overlaps (fold matters) and gaps (nonexistent wall time), per zone
TRANSITIONS = {
    "Europe/Amsterdam": [(2020, 10, 25, 2, 30, 0, 0), (2021, 3, 28, 2, 30, 0, 0), (2020, 10, 25, 2, 0, 0, 0),
                         (2020, 10, 25, 2, 59, 59, 999999), (2020, 10, 25, 3, 0, 0, 0), (1937, 7, 1, 0, 0, 10, 0)],
    "America/New_York": [(2020, 11, 1, 1, 30, 0, 0), (2021, 3, 14, 2, 30, 0, 0), (1883, 11, 18, 12, 0, 0, 0)],
    "Australia/Lord_Howe": [(2021, 4, 4, 1, 45, 0, 0), (2021, 10, 3, 2, 15, 0, 0)],
    "Africa/Monrovia": [(1972, 1, 7, 0, 20, 0, 0), (1960, 1, 1, 0, 0, 0, 0)],
    "Europe/Dublin": [(2020, 10, 25, 1, 30, 0, 0), (2021, 3, 28, 1, 30, 0, 0), (1916, 10, 1, 2, 30, 0, 0)],
    "Pacific/Apia": [(2011, 12, 30, 12, 0, 0, 0), (2011, 12, 29, 23, 59, 59, 0)],
    "Asia/Kolkata": [(1945, 10, 15, 0, 0, 0, 0)],
}
FIXED_SECS = [3600, -3600, 19800, 20700, -16200, 12 * 3600 + 45 * 60, 14 * 3600, -12 * 3600, 86399, -86399,
              5 * 3600 + 30 * 60 + 17, -(44 * 60 + 30), 1, -1, 59, -59, 60, 61, 3599, 3601]
FIXED_US = [(1, 1), (-2, 999999), (3600, 999999), (86399, 999999), (-86400, 1), (59, 500000), (-1, -1), (1, 500)]
SUBSECOND = [(0, 1), (0, 999999), (-1, 1), (-1, 999999), (0, 500000), (0, 1000)]   # timedelta(seconds, microseconds)


def EXHAUSTIVE(tier):
    return False


def WORKERS(tier):
    return 1 if tier == "quick" else min(16, os.cpu_count() or 1)


_zone_ok = {}


def zone_ok(name):
    if name not in _zone_ok:
        try:
            from zoneinfo import ZoneInfo
            ZoneInfo(name)
            _zone_ok[name] = True
        except Exception:
            _zone_ok[name] = False
    return _zone_ok[name]


# ------------------------------------------------------------------ independent arithmetic on specs

def days_in_month(y, m):
    if m == 2:
        return 29 if (y % 4 == 0 and (y % 100 != 0 or y % 400 == 0)) else 28
    return 30 if m in (4, 6, 9, 11) else 31


def wall_us(f):
    """microseconds since 0001-01-01T00:00:00 of a wall clock (CPython's toordinal, not the model's day number)."""
    y, mo, d, h, mi, s, us = f
    return ((_dtm.date(y, mo, d).toordinal() - 1) * 86400 + h * 3600 + mi * 60 + s) * 10 ** 6 + us


def fields_of_wall_us(w):
    days, rem = divmod(w, DAY_US)
    dte = _dtm.date.fromordinal(days + 1)
    return [dte.year, dte.month, dte.day, rem // 3600000000, rem // 60000000 % 60, rem // 1000000 % 60, rem % 1000000]


def td_us(td):
    return (td.days * 86400 + td.seconds) * 10 ** 6 + td.microseconds


def plain(spec):
    """The plain Python datetime of an object spec ["obj", fields, tz, fold]."""
    y, mo, d, h, mi, s, us = spec[1]
    return _dtm.datetime(y, mo, d, h, mi, s, us, tzinfo=V.tz_of(spec[2]), fold=spec[3])


def fmt_iso(f, off, sep="T", colon=True, frac=None):
    """Independent formatter (not isoformat()): what CPython prints for wall fields `f` and offset `off` us."""
    y, mo, d, h, mi, s, us = f
    out = "%04d-%02d-%02d%s%02d:%02d:%02d" % (y, mo, d, sep, h, mi, s)
    if frac is not None:
        out += "." + ("%06d" % us)[:frac]
    elif us:
        out += ".%06d" % us
    if off is not None:
        sign = "-" if off < 0 else "+"
        a = abs(off)
        hh, mm, ss, uu = a // 3600000000, a // 60000000 % 60, a // 1000000 % 60, a % 1000000
        out += sign + ("%02d:%02d" if colon else "%02d%02d") % (hh, mm)
        if ss or uu:
            out += ":%02d" % ss
            if uu:
                out += ".%06d" % uu
    return out


def expected(inp):
    """(wall fields, offset us) the field value must have, from the input spec alone; None = outside what we predict."""
    k = inp[0]
    if k == "obj":
        p = plain(inp)
        off = p.utcoffset()
        return list(inp[1]), (0 if off is None else td_us(off))
    if k in ("iso", "isov", "isob"):
        e = inp[2]
        return list(e["f"]), (0 if e["off"] is None else e["off"])
    if k == "epoch":
        w = int(inp[1]) * 10 ** 6 + (ORD_EPOCH - 1) * DAY_US
        if not (MIN_INSTANT <= w < MAX_INSTANT):
            return None
        return fields_of_wall_us(w), 0
    if k == "epochf":
        x = struct.unpack(">d", bytes.fromhex(inp[1]))[0]
        fr = fractions.Fraction(x) * 10 ** 6
        n = round(fr)  # round-half-even, as CPython's fromtimestamp
        w = n + (ORD_EPOCH - 1) * DAY_US
        if not (MIN_INSTANT <= w < MAX_INSTANT):
            return None
        return fields_of_wall_us(w), 0
    if k == "dtvia":
        f = list(inp[2])
        return (f[:3] + [0, 0, 0, 0] if inp[1] == "short" else f), 0
    raise ValueError(k)


DTVIA = ["kw_none", "pos_none", "kw_all", "short", "combine", "fromisoformat", "strptime"]


def domain(inp):
    """in | subsecond | avro-out | ctor-out"""
    e = expected(inp)
    if e is None:
        return "ctor-out"
    f, off = e
    if 0 < abs(off) < 10 ** 6:
        return "subsecond"
    inst = wall_us(f) - off
    if not (MIN_INSTANT <= inst < MAX_INSTANT):
        return "avro-out"
    return "in"


# ------------------------------------------------------------------ generation

def _gen_fields(r, zone=None):
    w = r.below(10)
    if zone and zone in TRANSITIONS and w < 5:
        return list(r.choice(TRANSITIONS[zone]))
    if w < 3:
        return list(r.choice(BOUNDARY))
    y = r.choice([r.randint(1, 9999), r.randint(1900, 2100), r.randint(1960, 2040)])
    mo = r.randint(1, 12)
    d = r.randint(1, days_in_month(y, mo))
    us = r.choice([0, 0, 1, 999999, 500000, r.randint(0, 999999)])
    return [y, mo, d, r.randint(0, 23), r.randint(0, 59), r.randint(0, 59), us]


def _gen_tz(r, malformed=False):
    if malformed and r.chance(50):
        s, u = r.choice(SUBSECOND)
        return ["fixed", s, u], 0
    k = r.weighted([(2, "naive"), (2, "utc"), (1, "fixed0"), (1, "zutc"), (6, "fixed"), (2, "fixedus"), (6, "zone")])
    if k == "naive":
        return "naive", 0
    if k == "utc":
        return "utc", 0
    if k == "fixed0":
        return ["fixed", 0, 0], 0
    if k == "zutc":
        return ["zone", "UTC"], 0
    if k == "fixed":
        return ["fixed", r.choice(FIXED_SECS + [r.randint(-86399, 86399), r.randint(-14, 14) * 3600]), 0], 0
    if k == "fixedus":
        s, u = r.choice(FIXED_US + [(r.randint(1, 86398), r.randint(1, 999999))])
        return ["fixed", s, u], 0
    z = r.choice(ZONES[:-1])
    return ["zone", z], (1 if r.chance(40) else 0)


def _gen_obj(r, malformed=False):
    tz, fold = _gen_tz(r, malformed)
    zone = tz[1] if isinstance(tz, list) and tz[0] == "zone" else None
    return ["obj", _gen_fields(r, zone), tz, fold]


def _to_iso_input(r, obj):
    """ISO text input carrying the same wall clock and offset as `obj` (rendered by our own formatter)."""
    p = plain(obj)
    off = p.utcoffset()
    offus = None if off is None else td_us(off)
    e = {"f": list(obj[1]), "off": offus}
    w = r.below(10)
    if w < 6:
        return ["iso", fmt_iso(obj[1], offus), e]
    if w == 6 and offus == 0:
        return ["isov", fmt_iso(obj[1], None) + "Z", e]
    if w == 7:
        return ["isov", fmt_iso(obj[1], offus, sep=" "), e]
    if w == 8 and offus is not None and offus % 60000000 == 0:
        return ["isov", fmt_iso(obj[1], offus, colon=False), e]
    if w == 9 and obj[1][6] % 1000 == 0:
        return ["isov", fmt_iso(obj[1], offus, frac=3), e]
    return ["isob", fmt_iso(obj[1], offus), e]


def gen_cases(rng, tier):
    n = {"quick": 450, "thorough": 30000, "search": 1200}[tier]
    cases = []
    r = rng.fork("rt")
    # every boundary date with UTC and with one extreme fixed offset; every transition with both folds
    for f in BOUNDARY:
        cases.append({"kind": "rt", "input": ["obj", list(f), "utc", 0]})
    pool = BOUNDARY if tier != "quick" else r.sample(BOUNDARY, 8)
    for f in pool:
        cases.append({"kind": "rt", "input": ["obj", list(f), ["fixed", r.choice(FIXED_SECS), 0], 0]})
    for z, ts in TRANSITIONS.items():
        if not zone_ok(z):
            continue
        for f in (ts if tier != "quick" else ts[:2]):
            for fold in (0, 1):
                cases.append({"kind": "rt", "input": ["obj", list(f), ["zone", z], fold]})
    for s, u in FIXED_US:
        cases.append({"kind": "rt", "input": ["obj", list(r.choice(BOUNDARY[8:])), ["fixed", s, u], 0]})
    for _ in range(n):
        w = r.below(100)
        obj = _gen_obj(r)
        if obj[2] not in ("naive", "utc") and obj[2][0] == "zone" and not zone_ok(obj[2][1]):
            continue
        if w < 55:
            inp = obj
        elif w < 80:
            inp = _to_iso_input(r, obj)
        elif w < 92:
            k = r.below(6)
            if k == 0:
                secs = r.choice([0, -1, 1, 2 ** 31 - 1, 2 ** 31, -2 ** 31, 2 ** 32, 4294, 4295, -62135596800, 253402300799,
                                 1600000000, -86400, 86399, 951782400])
            elif k < 4:
                secs = r.randint(-62135596800, 253402300799)
            else:
                secs = r.randint(-2 ** 33, 2 ** 33)
            inp = ["epoch", str(secs)]
        else:
            secs = r.choice([r.randint(-2 ** 31, 2 ** 32), r.randint(0, 2 ** 31), 0, -1])
            x = secs + r.choice([0.0, 0.5, 0.25, 0.75, 0.125, 0.015625, 0.984375])
            inp = ["epochf", struct.pack(">d", float(x)).hex()]
        c = {"kind": "rt", "input": inp}
        w2 = r.below(10)
        if w2 < 2:
            c["via"] = "replace"
        elif w2 < 3:
            c["via"] = "assign"
        if r.chance(15):
            c["ignore"] = r.choice([["_generated"], ["ts"], ["ts", "_generated"], ["_source"]])
        if r.chance(20) and inp[0] in ("obj", "iso"):
            c["companion"] = r.choice([0, 3600, -18000, 19800, 7200, 1])
        if r.chance(25):
            e = expected(inp)
            if e is not None and 2 <= e[0][0] <= 9998:
                c["disp"] = r.choice(["Europe/Amsterdam", "America/New_York", "Australia/Lord_Howe", "Asia/Kolkata", "NONE",
                                      "UTC", "Not/AZone"])
        cases.append(c)
    # ---- the field type reached through its other doors (components with tzinfo=None, fewer components, the inherited
    # alternative constructors): a naive wall clock is UTC there too, and the value travels like any other
    rv = rng.fork("dtvia")
    for how in DTVIA:
        for _ in range(2 if tier == "quick" else 40):
            f = _gen_fields(rv)
            if how == "strptime" and f[0] < 1000:
                continue                      # glibc pads %Y differently below 1000
            c = {"kind": "rt", "input": ["dtvia", how, f]}
            if rv.chance(30):
                c["via"] = rv.choice(["replace", "assign"])
            cases.append(c)
    # ---- JSON written by another producer: a timestamp WITHOUT offset in a record line means UTC, whatever the local zone
    # of the reading process is
    for text in ("2021-03-04T12:30:15", "2021-03-04T12:30:15.000001", "1999-12-31T23:59:59", "2021-11-07T01:30:00", "0001-01-02T00:00:00"):
        for tz in ("America/New_York", "Asia/Tokyo", "UTC", "Europe/Amsterdam"):
            cases.append({"kind": "jsonin", "text": text, "tz": tz})
    # ---- malformed stream: outside the domain (expected: error or the documented outcome)
    r = rng.fork("malformed")
    for _ in range(max(12, n // 8)):
        w = r.below(10)
        if w < 4:
            inp = _gen_obj(r, malformed=True)
            if r.chance(30):
                inp = _to_iso_input(r, inp)
        elif w < 8:
            # UTC instant outside years 1..9999
            if r.chance(50):
                f = [1, 1, 1, r.randint(0, 23), r.randint(0, 59), r.randint(0, 59), r.choice([0, 1, 999999])]
                secs = r.choice([3600, 86399, 19800, 1]) + f[3] * 3600 + f[4] * 60 + f[5]
                tz = ["fixed", min(secs + r.randint(1, 3600), 86399), 0]
            else:
                f = [9999, 12, 31, r.randint(0, 23), r.randint(0, 59), r.randint(0, 59), r.choice([0, 1, 999999])]
                secs = 86400 - (f[3] * 3600 + f[4] * 60 + f[5])
                tz = ["fixed", -min(secs + r.randint(0, 3600), 86399), 0]
            if r.chance(25) and zone_ok("Europe/Amsterdam"):
                f = [1, 1, 1, 0, r.randint(0, 15), 0, 0]
                tz = ["zone", "Europe/Amsterdam"]
            inp = ["obj", f, tz, 0]
            if r.chance(30):
                inp = _to_iso_input(r, inp)
        else:
            inp = ["epoch", str(r.choice([253402300800, -62135596801, 10 ** 12, -10 ** 12, 2 ** 63, 253402300800 + r.randint(0, 10 ** 6)]))]
        cases.append({"kind": "rt", "input": inp, "stream": "malformed"})
    # ---- display settings: fresh subprocesses (a handful per run)
    r = rng.fork("display")
    for rep in range({"quick": 1, "thorough": 4, "search": 1}[tier]):
        inputs = [["obj", [2020, 10, 25, 2, 30, 0, 0], ["zone", "Europe/Amsterdam"], 1],
                  ["obj", [2021, 6, 1, 12, 0, 0, 0], "utc", 0], ["obj", [2021, 6, 1, 14, 0, 0, 0], ["fixed", 7200, 0], 0],
                  ["obj", [1969, 12, 31, 23, 59, 59, 999999], "naive", 0], ["epoch", "1600000000"],
                  ["iso", "2021-01-01T00:00:00+05:30", {"f": [2021, 1, 1, 0, 0, 0, 0], "off": 19800000000}]]
        while len(inputs) < 24:
            o = _gen_obj(r)
            if o[2] not in ("naive", "utc") and o[2][0] == "zone" and not zone_ok(o[2][1]):
                continue
            if domain(o) == "in" and 2 <= o[1][0] <= 9998:
                inputs.append(o)
        inputs = [i for i in inputs if not (i[0] == "obj" and isinstance(i[2], list) and i[2][0] == "zone"
                                            and not zone_ok(i[2][1]))]
        cases.append({"kind": "display", "settings": DISPLAY_SETTINGS, "inputs": inputs, "list": False})
        if rep == 0:
            cases.append({"kind": "display", "settings": DISPLAY_SETTINGS[:2], "inputs": inputs[:6], "list": True})
    return cases


# ------------------------------------------------------------------ real code

def build_input(inp):
    k = inp[0]
    if k == "obj":
        return plain(inp)
    if k in ("iso", "isov"):
        return inp[1]
    if k == "isob":
        return inp[1].encode()
    if k == "epoch":
        return int(inp[1])
    if k == "epochf":
        return struct.unpack(">d", bytes.fromhex(inp[1]))[0]
    if k == "dtvia":
        # an instance of the datetime FIELD TYPE obtained through another door than `datetime(value)`: components with an
        # explicit tzinfo=None, fewer components, or the inherited alternative constructors - all naive wall clocks = UTC
        from flow.record import fieldtypes
        FT = fieldtypes.datetime
        y, mo, d, h, mi, sec, us = inp[2]
        how = inp[1]
        if how == "kw_none":
            return FT(y, mo, d, h, mi, sec, us, tzinfo=None)
        if how == "pos_none":
            return FT(y, mo, d, h, mi, sec, us, None)
        if how == "kw_all":
            return FT(year=y, month=mo, day=d, hour=h, minute=mi, second=sec, microsecond=us)
        if how == "short":
            return FT(y, mo, d)
        if how == "combine":
            return FT.combine(_dtm.date(y, mo, d), _dtm.time(h, mi, sec, us))
        if how == "fromisoformat":
            return FT.fromisoformat(_dtm.datetime(y, mo, d, h, mi, sec, us).isoformat())
        if how == "strptime":
            return FT.strptime("%04d-%02d-%02d %02d:%02d:%02d.%06d" % (y, mo, d, h, mi, sec, us), "%Y-%m-%d %H:%M:%S.%f")
        raise ValueError(how)
    raise ValueError(k)


def _kind(v):
    tz = v.tzinfo
    if tz is None:
        return "naive"
    if tz is _dtm.timezone.utc:
        return "utc"
    if isinstance(tz, _dtm.timezone):
        return "fixed"
    return "zone"


def _obs_dt(v):
    off = v.utcoffset()
    return {"f": [v.year, v.month, v.day, v.hour, v.minute, v.second, v.microsecond],
            "off": None if off is None else td_us(off), "kind": _kind(v), "cls": type(v).__module__ + "." + type(v).__name__}


def _err(e):
    return {"error": type(e).__name__, "msg": str(e)[:100]}


def _urls(d):
    return {"binary": os.path.join(d, "x.records"), "json": "jsonfile://" + os.path.join(d, "x.json"),
            "sqlite": "sqlite://" + os.path.join(d, "x.db"), "avro": "avro://" + os.path.join(d, "x.avro")}


def _missing_zone(inp):
    return inp[0] == "obj" and isinstance(inp[2], list) and inp[2][0] == "zone" and not zone_ok(inp[2][1])


def run_jsonin(case):
    import time

    from flow.record import RecordDescriptor, RecordReader, RecordWriter
    desc = RecordDescriptor("test/dtj", [("datetime", "ts"), ("varint", "n")])
    d = tempfile.mkdtemp(prefix="frv-c13j-")
    old = os.environ.get("TZ")
    try:
        p = os.path.join(d, "in.json")
        w = RecordWriter("jsonfile://" + p)
        w.write(desc(ts=V.build(GEN_FIXED), n=1, _generated=V.build(GEN_FIXED)))
        w.flush()
        w.close()
        lines = open(p, encoding="utf-8").read().splitlines()
        out = []
        for ln in lines:
            o = json.loads(ln)
            if o.get("_type") == "record":
                o["ts"] = case["text"]
            out.append(json.dumps(o))
        open(p, "w", encoding="utf-8").write("\n".join(out) + "\n")
        os.environ["TZ"] = case["tz"]
        time.tzset()
        try:
            rd = RecordReader("jsonfile://" + p)
            try:
                got = [r for r in rd]
            finally:
                rd.close()
            if len(got) != 1:
                return {"error": "count", "msg": str(len(got))}
            return {"read": _obs_dt(got[0].ts)}
        except Exception as e:
            return {"error": type(e).__name__, "msg": str(e)[:120]}
    finally:
        if old is None:
            os.environ.pop("TZ", None)
        else:
            os.environ["TZ"] = old
        time.tzset()
        shutil.rmtree(d, ignore_errors=True)


def run_real(case):
    from flow.record import RecordDescriptor, RecordReader, RecordWriter, fieldtypes
    from flow.record.packer import RecordPacker

    if case["kind"] == "display":
        return run_display(case)
    if case["kind"] == "jsonin":
        return run_jsonin(case)
    inp = case["input"]
    if _missing_zone(inp):
        return {"skipped": "zone missing"}
    desc = RecordDescriptor("test/dt", [("datetime", "ts")])
    gen = V.build(GEN_FIXED)
    try:
        value = build_input(inp)
        via = case.get("via", "ctor")
        if via == "replace":
            # the timestamp enters through _replace() of a record that had none (still a field of type datetime)
            rec = desc(ts=None, _generated=gen)._replace(ts=value)
        elif via == "assign":
            rec = desc(_generated=gen)
            rec.ts = value
        else:
            rec = desc(ts=value, _generated=gen)
        if case.get("companion") is not None and rec.ts is not None and rec.ts.tzinfo is not None:
            # a second timestamp field, written BEFORE ts, holding the same instant under another UTC offset (equal as
            # Python objects): each field keeps its own offset
            import datetime as _d
            plain = _d.datetime(rec.ts.year, rec.ts.month, rec.ts.day, rec.ts.hour, rec.ts.minute, rec.ts.second,
                                rec.ts.microsecond, tzinfo=rec.ts.tzinfo, fold=rec.ts.fold)
            try:
                other = plain.astimezone(_d.timezone(_d.timedelta(seconds=case["companion"])))
                desc2 = RecordDescriptor("test/dt", [("datetime", "other"), ("datetime", "ts")])
                rec = desc2(other=other, ts=rec.ts, _generated=gen)
            except (OverflowError, ValueError):
                pass
    except Exception as e:
        return {"constructed": _err(e)}
    ts = rec.ts
    obs = {"constructed": _obs_dt(ts), "iso": ts.isoformat()}
    # packed form
    try:
        import msgpack
        ext = RecordPacker().pack_obj(ts)
        sub, payload = msgpack.unpackb(ext.data, raw=False)
        obs["packed"] = {"subtype": sub, "tuple": list(payload)} if len(payload) == 7 else {"subtype": sub, "text": payload[0]}
    except Exception as e:
        obs["packed"] = _err(e)
    # str() under a display zone installed the way the library does it at import
    disp = case.get("disp")
    old_env = os.environ.get("FLOW_RECORD_TZ")
    old_disp = fieldtypes.DISPLAY_TZINFO
    try:
        if disp is not None:
            os.environ["FLOW_RECORD_TZ"] = disp
            import warnings
            with warnings.catch_warnings():
                warnings.simplefilter("ignore")
                fieldtypes.DISPLAY_TZINFO = fieldtypes.flow_record_tz(default_tz="UTC")
        dz = fieldtypes.DISPLAY_TZINFO
        obs["display_zone"] = None if dz is None else getattr(dz, "key", "UTC")
        obs["display_same"] = ts.tzinfo is dz        # astimezone(tz) returns self when tz is the value's own tzinfo
        try:
            obs["str"] = str(ts)
            obs["repr"] = repr(ts)
        except Exception as e:
            obs["str"] = _err(e)
    finally:
        fieldtypes.DISPLAY_TZINFO = old_disp
        if disp is not None:
            if old_env is None:
                os.environ.pop("FLOW_RECORD_TZ", None)
            else:
                os.environ["FLOW_RECORD_TZ"] = old_env
    # storage round trips through the public entry points
    d = tempfile.mkdtemp(prefix="frv-c13-")
    import flow.record.base as _B
    _saved_ignore = set(_B.IGNORE_FIELDS_FOR_COMPARISON)
    if case.get("ignore"):
        # a comparison-ignore configuration is in force while the record is stored: it concerns == and hash() only
        _B.set_ignored_fields_for_comparison(list(case["ignore"]))
    try:
        for fmt, url in _urls(d).items():
            try:
                w = RecordWriter(url)
                try:
                    w.write(rec)
                    w.flush()
                finally:
                    w.close()
                rd = RecordReader(url)
                try:
                    got = [r for r in rd]
                finally:
                    rd.close()
                if len(got) != 1:
                    obs[fmt] = {"error": "count", "msg": f"{len(got)} records"}
                else:
                    obs[fmt] = _obs_dt(got[0].ts)
                    obs[fmt]["generated_ok"] = _obs_dt(got[0]._generated)["f"] == GEN_FIXED[1]
            except Exception as e:
                obs[fmt] = _err(e)
        # JSON lines written WITHOUT descriptor lines (`?descriptors=false`, rdump --jsonlines): the reader falls back to
        # what the line says - the record's own `_generated` timestamp is in the line and comes back as that instant
        try:
            url = "jsonfile://" + os.path.join(d, "nd.json") + "?descriptors=false"
            w = RecordWriter(url)
            try:
                w.write(rec)
                w.flush()
            finally:
                w.close()
            rd = RecordReader("jsonfile://" + os.path.join(d, "nd.json"))
            try:
                got = [r for r in rd]
            finally:
                rd.close()
            obs["json_nodesc_generated"] = _obs_dt(got[0]._generated)["f"] == GEN_FIXED[1] if len(got) == 1 else f"{len(got)} records"
        except Exception as e:
            obs["json_nodesc_generated"] = _err(e)
    finally:
        _B.set_ignored_fields_for_comparison(_saved_ignore)
        shutil.rmtree(d, ignore_errors=True)
    return obs


CHILD = r"""
import sys, os, json, hashlib, tempfile, shutil, sqlite3
sys.path.insert(0, %(verif)r); sys.path.insert(0, %(repo)r)
from harness.props import C13
from harness import values as V
from flow.record import RecordDescriptor, RecordWriter, fieldtypes
cfg = json.loads(sys.stdin.read())
inputs, with_list = cfg["inputs"], cfg["list"]
gen = V.build(C13.GEN_FIXED)
vals = [C13.build_input(i) for i in inputs]
if with_list:
    desc = RecordDescriptor("test/dt", [("datetime", "ts"), ("datetime[]", "many")])
    recs = [desc(ts=v, many=vals[:3], _generated=gen) for v in vals]
else:
    desc = RecordDescriptor("test/dt", [("datetime", "ts")])
    recs = [desc(ts=v, _generated=gen) for v in vals]
out = {"display": None if fieldtypes.DISPLAY_TZINFO is None else str(fieldtypes.DISPLAY_TZINFO)}
d = tempfile.mkdtemp(prefix="frv-c13d-")
try:
    for fmt, url in C13._urls(d).items():
        if fmt == "avro" and with_list:
            recs_w = [RecordDescriptor("test/dt", [("datetime", "ts")])(ts=v, _generated=gen) for v in vals]
        else:
            recs_w = recs
        w = RecordWriter(url)
        for r in recs_w:
            w.write(r)
        w.flush(); w.close()
        path = url.split("://")[-1]
        raw = open(path, "rb").read()
        if fmt == "avro":
            sync = raw[-16:]
            raw = raw.replace(sync, b"\0" * 16)
        if fmt == "sqlite":
            con = sqlite3.connect(path)
            rows = con.execute('SELECT typeof(ts), ts, typeof(_generated), _generated FROM "test/dt"').fetchall()
            if with_list:
                many = con.execute('SELECT typeof(many), many FROM "test/dt"').fetchall()
                out["sqlite_many"] = hashlib.sha256(repr(many).encode()).hexdigest()
                out["sqlite_many_sample"] = many[0][1][:80]
            con.close()
            raw = repr(rows).encode()
        out[fmt] = hashlib.sha256(raw).hexdigest()
        out[fmt + "_len"] = len(raw)
    # the JSON writer under each of its options and under both together (what `rdump -J` builds)
    for name, q in (("json_indent", "?indent=2"), ("json_nodesc", "?descriptors=false"),
                    ("json_indent_nodesc", "?indent=2&descriptors=false")):
        path = os.path.join(d, name + ".json")
        w = RecordWriter("jsonfile://" + path + q)
        for r in recs:
            w.write(r)
        w.flush(); w.close()
        out[name] = hashlib.sha256(open(path, "rb").read()).hexdigest()
finally:
    shutil.rmtree(d, ignore_errors=True)
ts = [r.ts for r in recs]
out["str"] = [str(t) for t in ts]
out["order"] = sorted(range(len(ts)), key=lambda i: (ts[i], i))
out["eq"] = hashlib.sha256(repr([[int(a == b) for b in ts] for a in ts]).encode()).hexdigest()
out["lt"] = hashlib.sha256(repr([[int(a < b) for b in ts] for a in ts]).encode()).hexdigest()
out["hash"] = hashlib.sha256(repr([hash(t) for t in ts]).encode()).hexdigest()
out["rechash"] = hashlib.sha256(repr([hash(r) for r in recs]).encode()).hexdigest()
out["iso"] = [t.isoformat() for t in ts]
print(json.dumps(out))
"""


def run_display(case):
    verif = os.path.dirname(os.path.dirname(os.path.dirname(os.path.abspath(__file__))))
    repo = os.environ.get("VERIF_REPO", "/repo")
    code = CHILD % {"verif": verif, "repo": repo}
    runs = []
    for setting in case["settings"]:
        env = {k: v for k, v in os.environ.items() if k not in ("FLOW_RECORD_TZ", "TZ")}
        env.update(setting)
        env["PYTHONDONTWRITEBYTECODE"] = "1"
        env["PYTHONHASHSEED"] = "0"          # str hashes are per-process otherwise (record hashes include strings)
        p = subprocess.run([sys.executable, "-c", code], input=json.dumps({"inputs": case["inputs"], "list": bool(case.get("list"))}),
                           capture_output=True,
                           text=True, env=env, timeout=120)
        if p.returncode != 0:
            runs.append({"setting": setting, "error": "child", "msg": p.stderr[-300:]})
        else:
            o = json.loads(p.stdout.strip().splitlines()[-1])
            o["setting"] = setting
            runs.append(o)
    return {"runs": runs}


# ------------------------------------------------------------------ oracle (real observation only)

def _same(o, f, off):
    return isinstance(o, dict) and "f" in o and o["f"] == list(f) and o["off"] == off


def _instant_of(o):
    return wall_us(o["f"]) - o["off"]


def oracle(case, obs):
    if case["kind"] == "display":
        runs = obs["runs"]
        for r in runs:
            if "error" in r:
                return f"writing under display setting {r['setting']} failed: {r['msg'][-160:]}"
        base = runs[0]
        for r in runs[1:]:
            for key in ("binary", "json", "json_indent", "json_nodesc", "json_indent_nodesc", "sqlite", "avro", "order", "eq",
                        "lt", "hash", "rechash", "iso"):
                if r[key] != base[key]:
                    return (f"{key} differs between display settings {base['setting']} and {r['setting']}: what is "
                            f"stored/compared depends on the display zone")
        # last, so that it can never hide another difference: the SQLite TEXT rendering of a datetime[] field
        for r in runs[1:]:
            if r.get("sqlite_many") != base.get("sqlite_many"):
                return (f"sqlite_many differs between display settings {base['setting']} and {r['setting']}: a "
                        f"datetime[] field is stored in SQLite as {base.get('sqlite_many_sample')!r} vs "
                        f"{r.get('sqlite_many_sample')!r}")
        return None
    if case["kind"] == "jsonin":
        if "error" in obs:
            return f"a JSON record line with the timestamp {case['text']!r} (no offset) is not read: {obs['error']} {obs['msg']}"
        import datetime as _d
        t = _d.datetime.fromisoformat(case["text"])
        want = [t.year, t.month, t.day, t.hour, t.minute, t.second, t.microsecond]
        o = obs["read"]
        if o["off"] is None:
            return "field value read from JSON is naive (no tzinfo)"
        if o["f"] != want or o["off"] != 0:
            return (f"JSON timestamp {case['text']!r} without offset, read under TZ={case['tz']}: got wall {o['f']} offset "
                    f"{o['off']} us instead of the same wall clock in UTC (naive input means UTC)")
        return None
    if "skipped" in obs:
        return None
    inp = case["input"]
    dom = domain(inp)
    exp = expected(inp)
    c = obs["constructed"]
    if dom == "ctor-out":
        if "error" in c:
            return None
        return f"epoch number outside years 1..9999 was accepted as {c['f']}"
    f, off = exp
    if "error" in c:
        return f"constructor rejected a valid input with {c['error']}: {c['msg']}"
    if c["off"] is None:
        return "field value is naive (no tzinfo)"
    if c["cls"] != "flow.record.fieldtypes.datetime":
        return f"field value has class {c['cls']}"
    if inp[0] == "obj" or dom != "subsecond":
        # an object keeps its tzinfo whatever the offset; text inputs in the sub-second band are CPython's quirk
        if not _same(c, f, off):
            return (f"constructed value {c['f']} offset {c['off']} us differs from the input's wall clock {f} "
                    f"offset {off} us (instant moved by {(_instant_of(c) - (wall_us(f) - off))} us)")
    elif not (c["f"] == f and c["off"] in (off, 0)):
        return f"sub-second-offset text: constructed {c['f']} off {c['off']}, expected wall {f} off {off} or 0"
    if obs.get("json_nodesc_generated") not in (None, True) and not isinstance(obs.get("json_nodesc_generated"), dict):
        return ("JSON lines without descriptors: the record's _generated timestamp is not read back as the instant that was "
                f"written ({obs['json_nodesc_generated']})")
    cf, coff = c["f"], c["off"]
    for fmt in ("binary", "json", "sqlite"):
        o = obs[fmt]
        if "error" in o:
            return f"{fmt} round trip raised {o['error']}: {o['msg']}"
        if dom == "subsecond":
            if not (o["f"] == cf and o["off"] in (coff, 0)):
                return f"{fmt}: sub-second offset value came back as {o['f']} off {o['off']} (wall {cf} off {coff} written)"
            continue
        if not _same(o, cf, coff):
            return (f"{fmt} round trip returned wall {o['f']} offset {o['off']} us for wall {cf} offset {coff} us "
                    f"(instant moved by {_instant_of(o) - _instant_of(c)} us)")
        if not o.get("generated_ok"):
            return f"{fmt}: _generated changed"
    o = obs["avro"]
    inst = wall_us(cf) - coff
    if not (MIN_INSTANT <= inst < MAX_INSTANT):
        if "error" in o:
            return None        # documented: the UTC instant is not representable (OverflowError)
        if o["off"] == 0 and _instant_of(o) == inst:
            return None
        return f"avro: UTC instant outside years 1..9999 came back as {o['f']} without an error"
    if "error" in o:
        return f"avro round trip raised {o['error']}: {o['msg']}"
    if o["off"] != 0:
        return f"avro: value read back has offset {o['off']} us, expected UTC"
    if _instant_of(o) != inst:
        return f"avro: instant moved by {_instant_of(o) - inst} us ({cf} off {coff} -> {o['f']} UTC)"
    return None


# ------------------------------------------------------------------ model

def _model_tz(inp):
    tz = inp[2]
    if tz == "naive":
        return "naive"
    if tz == "utc":
        return "utc"
    if tz[0] == "fixed":
        o = tz[1] * 10 ** 6 + tz[2]
        return "utc" if o == 0 else ["fixed", o]          # timezone(timedelta(0)) is the timezone.utc singleton
    p = plain(inp)
    return ["zone", td_us(p.replace(fold=0).utcoffset()), td_us(p.replace(fold=1).utcoffset()), inp[3]]


def _disp_offset(case, obs):
    """What the display zone says about this instant (input of the model's `render`)."""
    dz = obs.get("display_zone")
    if dz is None or obs.get("display_same"):
        return None          # printed as stored
    c = obs["constructed"]
    inst = _instant_of(c)
    if dz == "UTC" or not (MIN_INSTANT <= inst < MAX_INSTANT):
        return 0
    from zoneinfo import ZoneInfo
    utc = _dtm.datetime(*fields_of_wall_us(inst), tzinfo=_dtm.timezone.utc)
    return td_us(utc.astimezone(ZoneInfo(dz)).utcoffset())


def model_op(case, obs):
    if case["kind"] != "rt" or "skipped" in obs:
        return None
    inp = case["input"]
    k = inp[0]
    if k == "obj":
        mi = {"form": "obj", "f": inp[1], "tz": _model_tz(inp)}
    elif k == "iso":
        mi = {"form": "iso", "text": V.enc_str(inp[1])}
    elif k == "epoch":
        mi = {"form": "epoch", "secs": inp[1]}
    else:
        return None          # ISO variants, bytes, float epochs: oracle only
    op = {"op": "c13", "input": mi}
    if "error" not in obs["constructed"]:
        op["disp"] = _disp_offset(case, obs)
    return op


def _cmp_dt(what, real, m):
    if m is None:
        if "error" in real:
            return None
        return f"{what}: model fails, implementation returned {real['f']} off {real['off']}"
    if "error" in real:
        return f"{what}: implementation raised {real['error']}, model returned {m['f']} off {m['off']}"
    if real["f"] != m["f"] or real["off"] != m["off"] or real["kind"] != m["kind"]:
        return f"{what}: implementation {real['f']} off {real['off']} {real['kind']} vs model {m['f']} off {m['off']} {m['kind']}"
    return None


def compare(case, obs, m):
    if "error" in m:
        return f"model error {m['error']}"
    d = _cmp_dt("constructed", obs["constructed"], m.get("constructed"))
    if d or m.get("constructed") is None:
        return d
    if V.dec_str(m["iso"]) != obs["iso"]:
        return f"isoformat: implementation {obs['iso']!r} vs model {V.dec_str(m['iso'])!r}"
    rp, mp = obs["packed"], m["packed"]
    if "error" in rp:
        return f"pack_obj raised {rp['error']}"
    if rp["subtype"] != 16:
        return f"packed subtype {rp['subtype']}"
    if ("tuple" in rp) != ("tuple" in mp):
        return f"packed form: implementation {'tuple' if 'tuple' in rp else 'text'} vs model {'tuple' if 'tuple' in mp else 'text'}"
    if "tuple" in rp and rp["tuple"] != mp["tuple"]:
        return f"packed tuple {rp['tuple']} vs model {mp['tuple']}"
    if "text" in rp and rp["text"] != V.dec_str(mp["text"]):
        return f"packed text {rp['text']!r} vs model {V.dec_str(mp['text'])!r}"
    for fmt in FORMATS:
        d = _cmp_dt(fmt, obs[fmt], m[fmt])
        if d:
            return d
    rs = obs["str"]
    if isinstance(rs, dict):
        if m["str"] is not None:
            return f"str(): implementation raised {rs['error']}, model prints {V.dec_str(m['str'])!r}"
    else:
        if m["str"] is None:
            return f"str(): implementation prints {rs!r}, model fails"
        if V.dec_str(m["str"]) != rs:
            return f"str(): implementation {rs!r} vs model {V.dec_str(m['str'])!r}"
        if obs.get("repr") != rs:
            return "repr() differs from str()"
    return None


# ------------------------------------------------------------------ statistics, shrinking, findings

def nontrivial(case, obs):
    if case["kind"] == "display":
        strs = [tuple(r.get("str", [])) for r in obs.get("runs", [])]
        return len(set(strs)) > 1          # the setting did change what is printed
    if case["kind"] == "jsonin":
        return case["tz"] != "UTC"
    if "skipped" in obs:
        return False
    inp = case["input"]
    if inp[0] != "obj":
        return True
    return inp[2] != "utc" or tuple(inp[1]) in set(BOUNDARY)


def classify(case, obs):
    if case["kind"] == "display":
        return ("display-list:" if case.get("list") else "display:") + ("printed-differs" if nontrivial(case, obs) else "printed-same")
    if case["kind"] == "jsonin":
        return "jsonin:" + case["tz"]
    if "skipped" in obs:
        return "skipped:zone-missing"
    inp = case["input"]
    out = ["form:" + inp[0], "domain:" + domain(inp)]
    if inp[0] == "obj":
        tz = inp[2]
        kind = tz if isinstance(tz, str) else (tz[0] if tz[0] != "fixed" else
                                               ("fixed0" if (tz[1], tz[2]) == (0, 0) else
                                                "fixed-us" if tz[2] else "fixed-s" if tz[1] % 60 else "fixed-hm"))
        out.append("tz:" + kind + (":fold1" if inp[3] else ""))
        y = inp[1][0]
        out.append("year:" + ("1" if y == 1 else "9999" if y == 9999 else "<1970" if y < 1970 else ">=1970"))
    a = obs.get("avro")
    if isinstance(a, dict):
        out.append("avro:" + ("error:" + a["error"] if "error" in a else "ok"))
    if "disp" in case:
        out.append("disp:" + str(obs.get("display_zone")))
    if isinstance(obs.get("packed"), dict):
        out.append("packed:" + ("tuple" if "tuple" in obs["packed"] else "text"))
    return out


def shrink(case):
    if case["kind"] == "display":
        ins = case["inputs"]
        if len(ins) > 1:
            for i in range(len(ins)):
                yield dict(case, inputs=ins[:i] + ins[i + 1:])
        if len(case["settings"]) > 2:
            for i in range(1, len(case["settings"])):
                yield dict(case, settings=[case["settings"][0], case["settings"][i]])
        return
    if case["kind"] == "jsonin":
        return
    inp = case["input"]
    if "disp" in case:
        c = dict(case)
        del c["disp"]
        yield c
    if inp[0] != "obj":
        return
    f = list(inp[1])
    for i, v in ((6, 0), (5, 0), (4, 0), (3, 0), (2, 1), (1, 1), (0, 2000)):
        if f[i] != v:
            g = list(f)
            g[i] = v
            if g[2] <= days_in_month(g[0], g[1]):
                yield dict(case, input=["obj", g, inp[2], inp[3]])
    if inp[2] != "utc":
        yield dict(case, input=["obj", f, "utc", 0])
    if isinstance(inp[2], list) and inp[2][0] == "fixed" and (inp[2][1], inp[2][2]) != (3600, 0):
        yield dict(case, input=["obj", f, ["fixed", 3600, 0], 0])
    if inp[3]:
        yield dict(case, input=["obj", f, inp[2], 0])


def _m_sqlite_list(case, obs, failure):
    return case.get("kind") == "display" and bool(case.get("list")) and str(failure).startswith("sqlite_many differs")


MATCHERS = {"sqlite_datetime_list_text_uses_display_zone": _m_sqlite_list}
