"""C18 — SQLite export keeps every record, independent of batch size.

Real code: `SqliteWriter` driven through op histories (write / flush / close, descriptor evolution, several types) once
per batch size; a SECOND `sqlite3` connection reads schema, row counts and every cell after EVERY call; `SqliteReader`
reads the result back. Correspondence: the same history through the Lean state machine (Model/Sqlite.lean) must
produce the same committed tables after every call, the same outcomes and the same reader output. The oracle states
the property on the real observation only (reference bookkeeping of commit points in plain Python, no model).
"""
import datetime as _dtm
import json
import keyword
import math
import os
import shutil
import sqlite3
import struct
import tempfile

from harness import values as V

ID = "C18"
CHECK_BUILT_DESCRIPTOR = True     # engine.oracle_of: declared records must carry their declared descriptor
CLAIM = dict(
    text="Kernel-checked theorems about the SQLite writer as a state machine (committed / writer's view / count / batch / "
         "seen / open), by induction over all histories: the writer's view is the plain replay of the history; after "
         "close everything is committed, one row per record per table in write order; batch-size independence for all "
         "b1,b2>=1 and all histories; atomic visibility (another connection sees the view at the latest commit point; "
         "commit points are exactly flush/close/new descriptor/every batch-th insert); schema covers every descriptor "
         "written (column evolution); quoted identifiers lex back to the name for the whole name character set; value "
         "round trip per field type over the extracted FIELD_MAP/SQLITE_FIELD_MAP; several writer sessions on one file "
         "store the plain replay of all their writes and cutting a history into sessions changes nothing "
         "(C18_sessions_replay, C18_sessions_like_one_writer). Tie: extracted tables/flags + "
         "correspondence of committed tables after every call, outcomes and SqliteReader output, for 5 batch sizes.",
    note="partial: SQLite's isolation/affinity (SqliteLaws) and ISO-8601 print/parse (IsoLaws, C13) are hypotheses "
         "exercised by the harness; names are treated over the grammar's character set (C06 owns the regex); known "
         "finding: type names equal up to ASCII case share one table, field names equal up to case are refused "
         "(full statement kept, counterexample proved, partial theorem under case-distinct names).",
    technique="Lean 4 state-machine theorems by induction over histories + model/implementation correspondence",
    design="8/C18")
RULE = ("hist: seeded op histories (write/flush/close; 1-3 record types, a type gaining fields, occasionally a changed "
        "field type) over all serialisable field types, run for batch sizes {1,2,3,7,1000} (+ one random); snapshots by a "
        "second connection after every call. refuse: histories containing an integer outside 64 bits or a lone "
        "surrogate. names: type/field names over the valid grammar incl. SQL keywords and case collisions. quote: "
        "prepare_insert_sql on grammar-random names. Non-trivial = a history with >=2 writes and >=1 commit that is "
        "not the final one, or a refusal, or a quote case with >=2 names; distinct by hash of the case.")
TRUSTED = ["sqlite3 / SQLite library: transaction isolation, type affinity (SqliteLaws hypothesis; exercised, not proved)",
           "datetime.isoformat / flow.record datetime parsing (IsoLaws hypothesis; C13)"]
ASSUMPTIONS = ["a second sqlite3 connection on the same file observes exactly the committed state (SQLite isolation)",
               "record construction/coercion (values handed to the adapter) is C05's subject; the model input is the "
               "kind of each value found in record._asdict()"]
EXPLANATION = "seeded histories x fixed batch-size set; not an exhaustive enumeration"

BATCHES = [1, 2, 3, 7, 1000]
SQL_WORDS = ["select", "from", "table", "order", "group", "index", "where", "null", "values", "primary", "default",
             "check", "rowid", "oid", "key", "text", "blob", "integer", "commit", "begin", "end", "as", "in", "is", "not"]
TYPES = [t for t in V.SERIALISABLE]
SQL_TYPE_WORDS = [w for w in SQL_WORDS if not keyword.iskeyword(w)]
PLAIN = ["string", "varint", "float", "bytes", "datetime", "boolean", "uint32", "filesize", "wstring", "uri"]
INT64 = (-2 ** 63, 2 ** 63 - 1)


def EXHAUSTIVE(tier):
    return False


def WORKERS(tier):
    return 1 if tier == "quick" else min(16, os.cpu_count() or 1)


# ------------------------------------------------------------------ generation

def _clean_value(r, spec):
    """Keep generated values inside what SQLite accepts (refusals are generated separately)."""
    k = spec[0]
    if k == "int":
        v = int(spec[1])
        if not (INT64[0] <= v <= INT64[1]):
            return V.I(r.choice([INT64[0], INT64[1], 0, -1, 2 ** 62]))
    if k == "str":
        s = V.dec_str(spec[1])
        if any(0xD800 <= ord(c) <= 0xDFFF for c in s):
            return V.S("".join(c for c in s if not (0xD800 <= ord(c) <= 0xDFFF)))
        if len(s) > 300:
            return V.S(s[:300])
    if k in ("path", "cmd"):
        s = V.dec_str(spec[2])
        if any(0xD800 <= ord(c) <= 0xDFFF for c in s):
            return [k, spec[1], V.enc_str("x")]
    if k == "list":
        return ["list", [_clean_value(r, x) for x in spec[1]]]
    if k == "dict":
        return ["dict", [[_clean_value(r, a), _clean_value(r, b)] for a, b in spec[1]]]
    if k == "rec":
        return ["rec", spec[1], [_clean_value(r, x) for x in spec[2]], _clean_meta(r, spec[3])]
    return spec


def _clean_meta(r, m):
    return {k: _clean_value(r, v) for k, v in m.items()}


def _gen_rec(r, ds):
    rec = _clean_value(r, V.gen_record(r, descspec=ds))
    # repr(filesize(x)) raises UnboundLocalError for |x| >= 10.24**17 (human_readable_size; reported separately):
    # such a list has no text form at all, keep it out of the domain
    for (t, _), i in zip(ds[1], range(len(rec[2]))):
        if t == "filesize[]" and rec[2][i][0] == "list":
            rec[2][i] = ["list", [V.I(int(x[1]) % 10 ** 15) if x[0] == "int" else x for x in rec[2][i][1]]]
    return rec


def _gen_descs(r):
    """1-3 record types; each may evolve (gain fields, occasionally change a field's type)."""
    pool = []
    names = r.sample(["test/a", "test/b", "t/x", "filesystem/entry", "a", "deep/er/name", "select", "from/table",
                      "order/by/group", "T9/x_y", "sqlite/page", "sqlite3/journal_entry", "SQLiteDatabase/table",
                      "sqlitex", "pragma/table_info", "index/sqlite_autoindex"], r.randint(1, 3))
    for nm in names:
        types = TYPES if r.chance(50) else PLAIN
        ds = V.gen_descspec(r, nfields=r.randint(1, 5), types=types, name=nm)
        if r.chance(20):
            fn = r.choice(SQL_WORDS)
            if all(f[1] != fn for f in ds[1]):
                ds[1].append([r.choice(PLAIN), fn])
        pool.append(ds)
        if r.chance(55):
            # evolution: same name, more fields (order may differ)
            extra = V.gen_descspec(r, nfields=r.randint(1, 3), types=types, name=nm)[1]
            have = {f[1] for f in ds[1]}
            extra = [f for f in extra if f[1] not in have]
            fields = [list(f) for f in ds[1]]
            if r.chance(30) and len(fields) > 1:
                fields = fields[1:]
            if r.chance(10):
                # the same field name with another type: the column keeps its first declared type
                i = r.below(len(fields))
                fields[i] = [r.choice(["string", "varint", "bytes"]), fields[i][1]]
            ds2 = [nm, fields + extra if r.chance(70) else extra + fields]
            if ds2[1]:
                pool.append(ds2)
    return pool


def _gen_hist(r, tier):
    descs = _gen_descs(r)
    n = r.choice([0, 1, 2, 3, 4, 5, 6, 8, 10, 14])
    ops = []
    for _ in range(n):
        w = r.below(100)
        if w < 78:
            ops.append(["w", _gen_rec(r, r.choice(descs))])
        elif w < 92:
            ops.append(["f"])
        else:
            ops.append(["c"])
    if not any(o[0] == "c" for o in ops) or r.chance(50):
        ops.append(["c"])
    if r.chance(15):
        ops.append(r.choice([["c"], ["f"], ["w", _gen_rec(r, r.choice(descs))]]))
    return ops


def _refusing_record(r):
    kind = r.choice(["big", "big", "surrogate", "negbig"])
    if kind == "surrogate":
        ds = ["test/r", [["string", "s"], ["varint", "n"]]]
        vals = [V.S(r.choice(["\udc80", "ab\udcffcd", "\ud800"])), V.I(r.randint(-5, 5))]
    else:
        ds = ["test/r", [["string", "s"], ["varint", "n"]]]
        big = r.choice([2 ** 63, 2 ** 64, 2 ** 100]) if kind == "big" else r.choice([-2 ** 63 - 1, -2 ** 80])
        vals = [V.S("x"), V.I(big)]
    return ["rec", ds, vals, {"_generated": V.gen_dt_spec(r, tzkinds=("utc",))}]


def _name(r, field=False):
    first = "abcdefghijklmnopqrstuvwxyzABCDEFGHIJKLMNOPQRSTUVWXYZ"
    rest = first + "0123456789_"

    def part():
        return r.choice(first) + "".join(r.choice(rest) for _ in range(r.choice([0, 1, 2, 5, 12])))
    if field:
        return ("_" if r.chance(5) else "") + part()
    return "/".join(part() for _ in range(r.choice([1, 1, 2, 3])))


def gen_cases(rng, tier):
    n = {"quick": 300, "thorough": 2400, "search": 500}[tier]
    cases = []
    r = rng.fork("hist")
    for _ in range(n):
        extra = r.choice([4, 5, 6, 10, 13, 999])
        cases.append({"kind": "hist", "batches": BATCHES + [extra], "ops": _gen_hist(r, tier)})
    r = rng.fork("refuse")
    for _ in range(max(6, n // 10)):
        ops = _gen_hist(r, tier)
        pos = r.randint(0, len(ops))
        ops.insert(pos, ["w", _refusing_record(r)])
        if r.chance(50):
            ops.insert(r.randint(0, len(ops)), ["w", ["rec", ["test/r", [["string", "s"], ["varint", "n"]]],
                                                 [V.S("ok"), V.I(1)], {"_generated": V.gen_dt_spec(r, tzkinds=("utc",))}]])
        cases.append({"kind": "hist", "batches": [1, 2, 3, 1000], "ops": ops})
    # several writer SESSIONS on one database file: the writer is closed and a new one opened on the same path, record
    # types evolve across sessions (a type written in an earlier session gains fields in a later one)
    r = rng.fork("sessions")
    for _ in range(max(8, n // 6)):
        ops = _gen_hist(r, tier)
        ops = [o for o in ops if o[0] != "c"] + [["c"]]
        for _ in range(r.randint(1, 2)):
            ops.insert(r.randint(1, max(1, len(ops) - 1)), ["r"])
        cases.append({"kind": "hist", "batches": [1, 3, 1000], "ops": ops})
    base = ["evo/t", [["string", "name"], ["varint", "a"]]]
    wider = ["evo/t", [["string", "name"], ["varint", "a"], ["string", "b"]]]
    cases.append({"kind": "hist", "batches": [1, 1000], "ops": [["w", _gen_rec(r, base)], ["w", _gen_rec(r, base)], ["r"],
                                                               ["w", _gen_rec(r, wider)], ["w", _gen_rec(r, base)], ["c"]]})
    r = rng.fork("names")
    for _ in range(max(6, n // 10)):
        descs = []
        for _ in range(r.randint(1, 3)):
            nm = _name(r) if r.chance(70) else r.choice(SQL_TYPE_WORDS)
            nf = r.randint(1, 4)
            fns = []
            while len(fns) < nf:
                fn = _name(r, field=True) if r.chance(70) else r.choice(SQL_WORDS)
                if fn.startswith("_") or fn.lower() in [x.lower() for x in fns]:
                    continue
                fns.append(fn)
            descs.append([nm, [[r.choice(PLAIN), fn] for fn in fns]])
        # keep type names case-distinct here (collisions are the known finding, generated below)
        seen = set()
        descs = [d for d in descs if not (d[0].lower() in seen or seen.add(d[0].lower()))]
        ops = [["w", _gen_rec(r, r.choice(descs))] for _ in range(r.randint(1, 5))] + [["c"]]
        cases.append({"kind": "hist", "batches": [1, 3, 1000], "ops": ops})
    # two types of one name whose identifiers (name + 32-bit hash over the concatenated field names and types) coincide:
    # still two types - the table gains the second one's columns
    r = rng.fork("identcollide")
    c1 = ["col/t", [["string", "astringb"]]]
    c2 = ["col/t", [["string", "a"], ["string", "b"]]]
    for first, second in ((c1, c2), (c2, c1)):
        ops = [["w", _gen_rec(r, first)], ["w", _gen_rec(r, second)], ["w", _gen_rec(r, first)], ["w", _gen_rec(r, second)], ["c"]]
        cases.append({"kind": "hist", "batches": [1, 2, 3, 1000], "ops": ops})
    # a with-block left by an exception ('X'): everything written is committed, at every batch size
    r = rng.fork("withexc")
    for _ in range(max(6, n // 20)):
        ops = [o for o in _gen_hist(r, tier) if o[0] != "c"]
        if not any(o[0] == "w" for o in ops):
            ops.append(["w", _gen_rec(r, ["test/ok", [["string", "s"]]])])
        cases.append({"kind": "hist", "batches": [1, 2, 5, 1000], "ops": ops + [["X"]]})
    # type names that merely begin with "sqlite" (not the reserved prefix "sqlite_")
    r = rng.fork("sqlitenames")
    for nm in ("sqlite/history", "sqlitedata", "SQLite/x"):
        ds = [nm, [["string", "s"], ["varint", "n"]]]
        ok = ["test/ok", [["string", "s"]]]
        cases.append({"kind": "hist", "batches": [1, 3, 1000],
                      "ops": [["w", _gen_rec(r, ok)], ["w", _gen_rec(r, ds)], ["w", _gen_rec(r, ds)], ["w", _gen_rec(r, ok)], ["c"]]})
    # case collisions (known findings; a couple per run keep the matchers exercised)
    r = rng.fork("collide")
    for _ in range(2 if tier != "search" else 0):
        a = _name(r)
        b = a.swapcase()
        if a.lower() == a.upper():
            continue
        d1, d2 = [a, [["string", "x"]]], [b, [["string", "y"]]]
        ops = [["w", _gen_rec(r, d1)], ["w", _gen_rec(r, d2)], ["w", _gen_rec(r, d1)], ["c"]]
        cases.append({"kind": "hist", "batches": [1, 1000], "ops": ops})
        f = _name(r, field=True).lstrip("_")
        d3 = ["test/cc", [["string", f.lower()], ["string", f.upper()]]]
        if f.lower() != f.upper():
            cases.append({"kind": "hist", "batches": [1, 1000], "ops": [["w", _gen_rec(r, d3)], ["c"]]})
    # type names SQLite reserves (prefix sqlite_, any case): known finding, one per run keeps the matcher exercised
    r = rng.fork("reserved")
    for _ in range(1 if tier != "search" else 0):
        nm = r.choice(["sqlite_x/y", "SQLite_master", "sqlite_sequence", "SQLITE_stat1/a"])
        ok = ["test/ok", [["string", "s"]]]
        cases.append({"kind": "hist", "batches": [1, 3, 1000],
                      "ops": [["w", _gen_rec(r, ok)], ["w", _gen_rec(r, ok)], ["w", _gen_rec(r, [nm, [["string", "x"]]])],
                              ["w", _gen_rec(r, ok)], ["c"]]})
    # a batch size far above any internal limit: nothing of the batch may be visible before it is complete
    cases.append({"kind": "bigbatch", "n": 10050, "batch": 25000})
    if tier == "thorough":
        cases.append({"kind": "bigbatch", "n": 70000, "batch": 100000})
    r = rng.fork("quote")
    for _ in range(max(10, n // 4)):
        cases.append({"kind": "quote", "table": _name(r) if r.chance(85) else r.choice(SQL_TYPE_WORDS),
                      "fields": [(_name(r, field=True) if r.chance(80) else r.choice(SQL_WORDS))
                                 for _ in range(r.randint(1, 4))]})
    return cases


# ------------------------------------------------------------------ real code

def _cell(x):
    if x is None:
        return ["n"]
    if isinstance(x, int):
        return ["i", str(x)]
    if isinstance(x, float):
        return ["r", struct.pack(">d", x).hex()]
    if isinstance(x, str):
        return ["t", V.enc_str(x)]
    if isinstance(x, (bytes, memoryview)):
        return ["b", bytes(x).hex()]
    return ["?", repr(x)]


def _snapshot(con):
    out = []
    names = [row[0] for row in con.execute("SELECT name FROM sqlite_master WHERE type='table' ORDER BY rowid").fetchall()]
    for nm in names:
        q = '"' + nm.replace('"', '""') + '"'
        cols = [[row[1], row[2]] for row in con.execute(f"PRAGMA table_info({q})").fetchall()]
        rows = [[_cell(x) for x in row] for row in con.execute(f"SELECT * FROM {q}").fetchall()]
        out.append([nm, cols, rows])
    return out


def _pyval(v):
    """The kind of value db_insert_record finds (the model's input alphabet)."""
    if v is None:
        return ["none"]
    if isinstance(v, _dtm.datetime):
        return ["dt", V.enc_str(v.isoformat())]
    if isinstance(v, bytes):
        return ["bytes", bytes(v).hex()]
    if isinstance(v, bool):
        return ["bool", int(v)]
    if isinstance(v, int):
        return ["int", str(int(v))]
    if isinstance(v, float):
        return ["float", struct.pack(">d", float(v)).hex()]
    if isinstance(v, str):
        return ["str", V.enc_str(str(v))]
    try:
        return ["other", V.enc_str(str(v))]
    except Exception as e:  # str() of the value itself fails: nothing the adapter could do either
        return ["unprintable", type(e).__name__]


MAPPED = {"string", "wstring", "uri", "varint", "filesize", "uint32", "float", "bytes", "datetime", "boolean"}
NEG_ZERO = struct.pack(">d", -0.0).hex()


def _expect_cell(v, ftype):
    """What the property promises about the stored value of a field (None = no exact promise).
    Text, 64-bit integers, finite floats, bytes and timestamps in fields of those types come back equal;
    every other field type comes back as text."""
    if v is None:
        return ["n"]
    if ftype not in MAPPED:
        if isinstance(v, bytes):
            return None
        forms = []
        try:
            forms.append(V.enc_str(str(v)))
        except Exception:
            return None
        if isinstance(v, _dtm.datetime):
            forms.append(V.enc_str(v.isoformat()))
        if isinstance(v, int):
            forms.append(V.enc_str(str(int(v))))
        if isinstance(v, float):
            return ["some-text"]
        return ["text-form", forms]
    if isinstance(v, _dtm.datetime):
        return ["dt", V.observe(v)]
    if isinstance(v, bytes):
        return ["b", bytes(v).hex()]
    if isinstance(v, int):
        return ["i", str(int(v))]
    if isinstance(v, float):
        if math.isnan(v) or math.isinf(v):
            return None
        h = struct.pack(">d", float(v)).hex()
        return ["r", "0000000000000000" if h == NEG_ZERO else h]   # -0.0 == 0.0
    if isinstance(v, str):
        return ["t", V.enc_str(str(v))]
    return None


def _obs_read_value(v):
    if v is None:
        return ["none"]
    if isinstance(v, _dtm.datetime):
        return ["dt", V.enc_str(v.isoformat()), V.observe(v)]
    if isinstance(v, bytes):
        return ["bytes", bytes(v).hex()]
    if isinstance(v, int):
        return ["int", str(int(v))]
    if isinstance(v, float):
        return ["float", struct.pack(">d", float(v)).hex()]
    if isinstance(v, str):
        return ["str", V.enc_str(str(v))]
    return ["other", type(v).__name__, repr(v)[:100]]


def _run_hist(case, batch, d):
    from flow.record.adapter.sqlite import SqliteReader, SqliteWriter

    path = os.path.join(d, f"b{batch}.db")
    w = SqliteWriter(path, batch_size=batch)
    con2 = sqlite3.connect(path)
    steps = []
    try:
        for op in case["ops"]:
            st = {}
            try:
                if op[0] == "w":
                    try:
                        rec = V.build_record(op[1])
                    except Exception as e:
                        return {"batch": batch, "skip": f"record could not be built: {type(e).__name__}"}
                    st["desc"] = [rec._desc.name, [[n, f.typename] for n, f in rec._desc.get_all_fields().items()]]
                    vals = list(rec._asdict().values())
                    st["vals"] = [_pyval(v) for v in vals]
                    st["ftypes"] = [f.typename for f in rec._desc.get_all_fields().values()]
                    st["expect"] = [_expect_cell(v, ft) for v, ft in zip(vals, st["ftypes"])]
                    w.write(rec)
                elif op[0] == "f":
                    w.flush()
                elif op[0] == "r":
                    # a new writer session on the same database file (the previous one is closed first)
                    w.close()
                    w = SqliteWriter(path, batch_size=batch)
                elif op[0] == "X":
                    # the with-block around the writer is left by an exception raised in its body
                    w.__exit__(ValueError, ValueError("boom"), None)
                else:
                    w.close()
                st["outcome"] = "ok"
            except Exception as e:
                st["outcome"] = type(e).__name__
                st["msg"] = str(e)[:100]
            st["open"] = w.con is not None
            st["count"] = w.count
            st["tables"] = _snapshot(con2)
            steps.append(st)
    finally:
        con2.close()
        # deterministic release: discard whatever is still pending so that the reader below sees the committed state
        if w.con is not None:
            try:
                if w.con.in_transaction:
                    w.con.execute("ROLLBACK")
            except Exception:
                pass
            w.con.close()
            w.con = None
    read = {}
    try:
        rd = SqliteReader(path)
        try:
            out = []
            for rec in rd:
                names = list(rec.__slots__)
                out.append([rec._desc.name, [list(t) for t in rec._desc.get_field_tuples()], names,
                            [_obs_read_value(getattr(rec, n)) for n in names]])
            read["records"] = out
        finally:
            rd.con.close()
    except Exception as e:
        read["error"] = type(e).__name__
        read["msg"] = str(e)[:200]
    # the reader's own batch size (rows fetched per round trip) may not change what is read back
    if "records" in read:
        for rb in (1, 2, 3):
            try:
                rd = SqliteReader(path, batch_size=rb)
                try:
                    got = [[rec._desc.name, [_obs_read_value(getattr(rec, n)) for n in rec.__slots__]] for rec in rd]
                finally:
                    rd.con.close()
            except Exception as e:      # noqa: BLE001
                got = "error: " + type(e).__name__
            if got != [[r[0], r[3]] for r in read["records"]]:
                read["reader_batch_differs"] = [rb, got if isinstance(got, str) else len(got), len(read["records"])]
                break
    # a selector handed to the reader together with a small reader batch: the same records as filtering afterwards (a
    # batch without a single match is not the end of the table)
    if "records" in read and read["records"]:
        import keyword
        from flow.record.selector import Selector
        expr = None
        try:
            rd = SqliteReader(path)
            try:
                allrecs = list(rd)
            finally:
                rd.con.close()
            last = allrecs[-1]
            for n in last.__slots__:
                if not n.isidentifier() or keyword.iskeyword(n) or n.startswith("_"):
                    continue
                v = getattr(last, n)
                if isinstance(v, int) and not isinstance(v, bool) and v >= 0:      # (the language has no unary minus)
                    expr = f"r.{n} == {int(v)}"
                    break
                if isinstance(v, str) and v.isascii() and v.isalnum():
                    expr = f"r.{n} == '{str(v)}'"
                    break
            if expr is not None:
                post = [[x._desc.name, [_obs_read_value(getattr(x, n)) for n in x.__slots__]] for x in allrecs
                        if Selector(expr).match(x)]
                for rb in (1, 2, 1000):
                    rd = SqliteReader(path, selector=expr, batch_size=rb)
                    try:
                        got = [[x._desc.name, [_obs_read_value(getattr(x, n)) for n in x.__slots__]] for x in rd]
                    finally:
                        rd.con.close()
                    if got != post:
                        read["selector_batch_differs"] = [expr, rb, len(got), len(post)]
                        break
        except Exception as e:          # noqa: BLE001
            read["selector_read_error"] = [expr, type(e).__name__ + ": " + str(e)[:120]]
    return {"batch": batch, "steps": steps, "read": read}


def run_real(case):
    if case["kind"] == "quote":
        from flow.record.adapter.sqlite import prepare_insert_sql
        return {"sql": prepare_insert_sql(case["table"], tuple(case["fields"]))}
    if case["kind"] == "bigbatch":
        return _run_bigbatch(case)
    d = tempfile.mkdtemp(prefix="frv-c18-")
    try:
        return {"runs": [_run_hist(case, b, d) for b in case["batches"]]}
    finally:
        shutil.rmtree(d, ignore_errors=True)


def _run_bigbatch(case):
    """n records of one type with a batch size larger than n: a second connection counts the rows at a few points"""
    from flow.record import RecordDescriptor
    from flow.record.adapter.sqlite import SqliteWriter
    desc = RecordDescriptor("big/batch", [("string", "s"), ("varint", "n")])
    gen = _dtm.datetime(2020, 1, 1, tzinfo=_dtm.timezone.utc)
    d = tempfile.mkdtemp(prefix="frv-c18-")
    try:
        path = os.path.join(d, "big.db")
        w = SqliteWriter(path, batch_size=case["batch"])
        con2 = sqlite3.connect(path)
        n = case["n"]
        points = {1, 2, 999, 1000, 1001, 9999, 10000, 10001, n // 2, n - 1, n}
        seen = []

        def rows():
            try:
                return con2.execute('SELECT COUNT(*) FROM "big/batch"').fetchone()[0]
            except sqlite3.OperationalError as e:
                return "error: " + str(e)[:60]
        try:
            for i in range(1, n + 1):
                w.write(desc(s="x", n=i, _generated=gen))
                if i in points:
                    seen.append([i, rows()])
            w.close()
            final = rows()
        finally:
            con2.close()
            if w.con is not None:
                w.con.close()
                w.con = None
        return {"seen": seen, "final": final}
    finally:
        shutil.rmtree(d, ignore_errors=True)


# ------------------------------------------------------------------ the property, on the real observation

def _lex_sql_idents(sql):
    """Independent lexer: the quoted identifiers of a statement, in order; None if a quote is left open."""
    out, i = [], 0
    while i < len(sql):
        if sql[i] == '"':
            j, name = i + 1, []
            while True:
                if j >= len(sql):
                    return None
                if sql[j] == '"':
                    if j + 1 < len(sql) and sql[j + 1] == '"':
                        name.append('"')
                        j += 2
                        continue
                    break
                name.append(sql[j])
                j += 1
            out.append("".join(name))
            i = j + 1
        else:
            i += 1
    return out


def _cell_ok(exp, got):
    """exp from _expect_cell, got from _cell (second connection)."""
    if exp is None:
        return True
    if exp[0] == "dt":
        if got[0] != "t":
            return False
        try:
            back = _dtm.datetime.fromisoformat(V.dec_str(got[1]))
        except ValueError:
            return False
        o = V.observe(back)
        return o[2:] == exp[1][2:]  # wall fields + utc offset (class name differs)
    if exp[0] == "text-form":
        return got[0] == "t" and got[1] in exp[1]
    if exp[0] == "some-text":
        return got[0] == "t"
    return got == exp


def _check_visible(where, st, visible, written):
    """Compare what the second connection saw with the rows that must be visible. None = matches."""
    got = {t[0]: t for t in st["tables"]}
    if len(got) != len(st["tables"]):
        return f"{where}: duplicate table names in sqlite_master"
    for t in visible:
        if t not in got and visible[t] > 0:
            return f"{where}: no table named {t!r} although {visible[t]} of its records were committed (tables: {sorted(got)})"
    for t, (nm, cols, rows) in got.items():
        if t not in visible:
            return f"{where}: table {t!r} is visible but no record type of that name was committed"
        if len(rows) != visible[t]:
            return (f"{where}: another connection sees {len(rows)} rows in {t!r}; whole transactions only would be "
                    f"{visible[t]} (written so far {len(written[t])})")
        colnames = [c[0] for c in cols]
        if len(set(colnames)) != len(colnames):
            return f"{where}: duplicate column in {t!r}"
        for (names, exp), row in zip(written[t], rows):
            for fn, e in zip(names, exp):
                if fn not in colnames:
                    return f"{where}: table {t!r} has no column {fn!r} for a field of a record already written"
                g = row[colnames.index(fn)]
                if not _cell_ok(e, g):
                    return f"{where}: {t}.{fn} row holds {g!r}, written value promises {e!r}"
            for cn, g in zip(colnames, row):
                if cn not in names and g != ["n"]:
                    return f"{where}: {t}.{cn} is {g!r} for a record that has no such field"
    return None


SOFT = "[refused by SQLite] "


def _oracle_run(case, run):
    """Reference bookkeeping of the property: commit points are flush, close, a record type (name + fields) not
    written before, and every batch_size-th record; another connection sees exactly the rows written up to the
    latest commit point."""
    b = run["batch"]
    opened = True
    count = 0
    seen = set()
    written = {}   # table name -> list of (field names, promised cells) in write order
    order = []
    visible = {}   # table -> number of rows another connection must see
    coltype = {}   # (table, field) -> field type that created the column

    def everything():
        return {t: len(rows) for t, rows in written.items()}

    soft = None    # a write refused by SQLite's DDL (recorded findings): reported only if nothing worse happens later

    for k, (op, st) in enumerate(zip(case["ops"], run["steps"])):
        where = f"batch_size={b} call #{k} ({op[0]})"
        # admissible visible states after this call, most specific first. Committing when a record type (name +
        # fields) is seen for the first time is what the adapter does, but the property does not demand it: both
        # "committed before the insert" and "not committed" are accepted there; flush / close / every batch_size-th
        # record MUST commit.
        cands = [visible]
        if op[0] == "w":
            if not opened:
                if st["outcome"] == "ok":
                    return f"{where}: write on a closed writer did not raise"
            else:
                name = st["desc"][0]
                key = (name, tuple(tuple(f) for f in st["desc"][1]))
                refused = st["outcome"] in ("OverflowError", "UnicodeEncodeError")
                unprintable = [v[1] for v in st["vals"] if v[0] == "unprintable"]
                if unprintable and st["outcome"] in unprintable:
                    refused = True   # str(value) itself raises: the value has no text form to store
                if st["outcome"] == "OperationalError" and not refused:
                    # SQLite refused the CREATE TABLE / ADD COLUMN / INSERT of this record type (reserved name, columns
                    # equal up to case, ...): the record is not stored. That is a failure of the property by itself
                    # (kept in `soft`), but the history goes on: records written before and after it must survive.
                    soft = soft or f"{where}: write raised {st['outcome']}: {st.get('msg')}"
                    refused = True
                    unprintable = ["OperationalError"]
                if st["outcome"] != "ok" and not refused:
                    return f"{where}: write raised {st['outcome']}: {st.get('msg')}"
                if refused and not unprintable:
                    refusable = any(v[0] == "int" and not (INT64[0] <= int(v[1]) <= INT64[1]) for v in st["vals"]) or \
                        any(v[0] in ("str", "other") and any(0xD800 <= ord(c) <= 0xDFFF for c in V.dec_str(v[1]))
                            for v in st["vals"])
                    if not refusable:
                        return f"{where}: {st['outcome']} for values SQLite can store: {st.get('msg')}"
                if key not in seen:
                    seen.add(key)
                    if name not in written:
                        written[name] = []
                        order.append(name)
                    cands = [everything(), visible]          # committed before the insert, or not
                if not refused:
                    exp = list(st["expect"])
                    for i, (fn, ft) in enumerate(st["desc"][1]):
                        # a column keeps the type of the descriptor that created it; a later descriptor that gives the
                        # same field another type gets no promise beyond "one row, right column"
                        if coltype.setdefault((name, fn), ft) != ft:
                            exp[i] = None
                    written[name].append(([fn for fn, _ in st["desc"][1]], exp))
                    count += 1
                    if count % b == 0:
                        cands = [everything()]
        elif op[0] == "f":
            if st["outcome"] != "ok":
                return f"{where}: flush raised {st['outcome']}"
            if opened:
                cands = [everything()]
        elif op[0] == "r":
            if st["outcome"] != "ok":
                return f"{where}: re-opening the database for writing raised {st['outcome']}: {st.get('msg')}"
            if opened:
                cands = [everything()]      # the old session's close commits
            opened, count, seen = True, 0, set()
        else:
            if st["outcome"] != "ok":
                return f"{where}: close raised {st['outcome']}"
            if opened:
                cands = [everything()]
            opened = False
        fails = []
        for cand in cands:
            # a table without committed rows may or may not exist yet
            f = _check_visible(where, st, cand, written)
            if f is None:
                visible = cand
                break
            fails.append(f)
        else:
            return fails[0]
    # ---- after the history: a closed writer has everything committed
    if not opened:
        last = {t[0]: t for t in run["steps"][-1]["tables"]} if run["steps"] else {}
        for t, rows in written.items():
            if rows and len(last.get(t, [None, None, []])[2]) != len(rows):
                return f"batch_size={b}: after close {t!r} holds {len(last.get(t, [0, 0, []])[2])} of {len(rows)} records"
    # ---- SqliteReader: same number of records per type, same values
    rd = run["read"]
    if "error" in rd:
        return f"batch_size={b}: SqliteReader raised {rd['error']}: {rd.get('msg')}"
    if rd.get("reader_batch_differs"):
        rb, got, n = rd["reader_batch_differs"]
        return (f"batch_size={b}: SqliteReader(batch_size={rb}) reads back {got} records where the default reader reads {n}: "
                f"what is read depends on the reader's batch size")
    if rd.get("selector_batch_differs"):
        ex, rb, got, n = rd["selector_batch_differs"]
        return (f"batch_size={b}: SqliteReader(selector={ex!r}, batch_size={rb}) yields {got} records where reading everything "
                f"and filtering afterwards keeps {n}")
    if rd.get("selector_read_error") and rd["selector_read_error"][0] is not None:
        return f"batch_size={b}: SqliteReader with selector {rd['selector_read_error'][0]!r} raised {rd['selector_read_error'][1]}"
    per = {}
    for rec in rd["records"]:
        per.setdefault(rec[0], []).append(rec)
    for t in order:
        want = written[t][:visible.get(t, 0)]
        gotr = per.get(t, [])
        if len(gotr) != len(want):
            return f"batch_size={b}: SqliteReader yields {len(gotr)} records of type {t!r}, {len(want)} were committed"
        for (names, exp), rec in zip(want, gotr):
            rnames, rvals = rec[2], rec[3]
            for fn, e in zip(names, exp):
                if fn not in rnames:
                    return f"batch_size={b}: SqliteReader record of {t!r} has no field {fn!r}"
                g = rvals[rnames.index(fn)]
                if not _read_ok(e, g):
                    return f"batch_size={b}: SqliteReader {t}.{fn} = {g!r}, written value promises {e!r}"
    for t in per:
        if t not in written:
            return f"batch_size={b}: SqliteReader yields records of a type {t!r} never written"
    return (SOFT + soft) if soft else None


def _read_ok(exp, got):
    if exp is None:
        return True
    k = exp[0]
    if k == "n":
        return got == ["none"]
    if k == "dt":
        return got[0] == "dt" and got[2][2:] == exp[1][2:]
    if k == "b":
        return got == ["bytes", exp[1]]
    if k == "i":
        return got == ["int", exp[1]]
    if k == "r":
        return got == ["float", exp[1]]
    if k == "t":
        return got == ["str", exp[1]]
    if k == "text-form":
        return got[0] == "str" and got[1] in exp[1]
    if k == "some-text":
        return got[0] == "str"
    return True


def _final_content(run):
    return run["steps"][-1]["tables"] if run["steps"] else []


def _skipped(obs):
    return any("skip" in r for r in obs.get("runs", []))


def oracle(case, obs):
    if case["kind"] == "bigbatch":
        for i, rows in obs["seen"]:
            if isinstance(rows, str) and "locked" in rows:
                continue          # SQLite spilled its page cache under an exclusive lock: nothing can be observed (nor seen)
            if rows != 0:
                return (f"batch_size={case['batch']}: after write #{i} another connection sees {rows} rows - part of a "
                        f"batch that is not complete")
        if obs["final"] != case["n"]:
            return f"batch_size={case['batch']}: {case['n']} records written, {obs['final']} rows after close"
        return None
    if _skipped(obs):
        return None   # the record layer refused to build a record of the case: not a history of the writer
    if case["kind"] == "quote":
        names = _lex_sql_idents(obs["sql"])
        want = [case["table"]] + list(case["fields"])
        if names != want:
            return f"quoted identifiers of {obs['sql']!r} lex as {names!r}, not as the names {want!r}"
        return None
    soft = None
    for run in obs["runs"]:
        f = _oracle_run(case, run)
        if f and f.startswith(SOFT):
            soft = soft or f[len(SOFT):]      # a DDL refusal: look at the other batch sizes before settling for it
        elif f:
            return f
    # batch-size independence of the stored content (histories that end closed)
    closed = any(o[0] in ("c", "X") for o in case["ops"])
    if closed:
        ref = _final_content(obs["runs"][0])
        for run in obs["runs"][1:]:
            if _final_content(run) != ref:
                return (f"stored content differs between batch_size={obs['runs'][0]['batch']} and "
                        f"batch_size={run['batch']}")
            if run["read"] != obs["runs"][0]["read"]:
                return f"SqliteReader output differs between batch sizes {obs['runs'][0]['batch']} and {run['batch']}"
    return soft


# ------------------------------------------------------------------ model

def model_op(case, obs):
    if case["kind"] == "bigbatch":
        return None      # 10^4 calls: real-code oracle only (C18_atomic / C18_visible_is_prefix hold for every batch size)
    if _skipped(obs):
        return None
    if case["kind"] == "quote":
        return {"op": "sqlquote", "name": V.enc_str(case["table"]), "rest": V.enc_str(" (")}
    run0 = obs["runs"][0]
    hist = []
    for op, st in zip(case["ops"], run0["steps"]):
        if op[0] == "w":
            if any(v[0] == "unprintable" for v in st.get("vals", [])) or "desc" not in st:
                return None
            hist.append({"k": "w", "name": st["desc"][0], "fields": st["desc"][1], "vals": st["vals"]})
        else:
            hist.append({"k": "c" if op[0] == "X" else op[0]})     # leaving a with-block by an exception closes too
    return {"op": "sqlite", "batches": case["batches"], "hist": hist}


def compare(case, obs, m):
    if "error" in m:
        return f"model error {m['error']}"
    if case["kind"] == "quote":
        q = V.dec_str(m["quoted"])
        if q not in obs["sql"] or not obs["sql"].startswith("INSERT INTO " + q + " ("):
            return f"model quotes the table name as {q!r}; statement is {obs['sql']!r}"
        if m["lexed"] is None or V.dec_str(m["lexed"][0]) != case["table"]:
            return f"model lexer does not recover {case['table']!r}"
        return None
    for run, mrun in zip(obs["runs"], m["runs"]):
        b = run["batch"]
        modelled = True
        for k, (st, ms) in enumerate(zip(run["steps"], mrun["steps"])):
            if not ms["modelled"]:
                modelled = False
                break
            if st["outcome"] != ms["outcome"]:
                return f"batch {b} call #{k}: outcome {st['outcome']} vs model {ms['outcome']}"
            if st["count"] != ms["count"]:
                return f"batch {b} call #{k}: count {st['count']} vs model {ms['count']}"
            if st["tables"] != ms["tables"]:
                return f"batch {b} call #{k}: committed tables differ: real {st['tables']!r} model {ms['tables']!r}"[:900]
        if not modelled:
            continue
        # reader
        if "records" in run["read"]:
            mrecs = []
            for tname, fields, names, rows in mrun["read"]:
                for row in rows:
                    mrecs.append([tname, fields, sorted(zip(names, row))])
            real = [[r[0], r[1], sorted(zip(r[2], [v[:2] if v[0] == "dt" else v for v in r[3]]))]
                    for r in run["read"]["records"]]
            mrecs = json.loads(json.dumps(mrecs))
            real = json.loads(json.dumps(real))
            if any(v == ["unmodelled"] for r in mrecs for _, v in r[2]):
                continue
            if real != mrecs:
                for a, c in zip(real, mrecs):
                    if a != c:
                        return f"batch {b}: SqliteReader record {a!r} vs model {c!r}"[:900]
                return f"batch {b}: SqliteReader yields {len(real)} records, model {len(mrecs)}"
    return None


def nontrivial(case, obs):
    if case["kind"] == "bigbatch":
        return True
    if _skipped(obs):
        return False
    if case["kind"] == "quote":
        return len(case["fields"]) >= 1
    run = obs["runs"][1] if len(obs["runs"]) > 1 else obs["runs"][0]
    writes = sum(1 for o in case["ops"] if o[0] == "w")
    sizes = [sum(len(t[2]) for t in st["tables"]) for st in run["steps"]]
    refused = any(st["outcome"] != "ok" for st in run["steps"])
    return (writes >= 2 and len(set(sizes)) >= 2) or refused


def classify(case, obs):
    if case["kind"] == "bigbatch":
        return "bigbatch"
    if _skipped(obs):
        return "skipped:record-not-buildable"
    if case["kind"] == "quote":
        return "quote"
    out = []
    writes = sum(1 for o in case["ops"] if o[0] == "w")
    out.append("hist:writes=" + ("0" if writes == 0 else "1-3" if writes <= 3 else "4-8" if writes <= 8 else "9+"))
    run = obs["runs"][0]
    names = {st["desc"][0] for st in run["steps"] if "desc" in st}
    descs = {(st["desc"][0], repr(st["desc"][1])) for st in run["steps"] if "desc" in st}
    out.append(f"hist:types={len(names)}")
    if len(descs) > len(names):
        out.append("hist:evolution")
    for st in run["steps"]:
        if st["outcome"] != "ok":
            out.append("outcome:" + st["outcome"])
    for st in run["steps"]:
        for ft in st.get("ftypes", []):
            out.append("ftype:" + ft)
    return sorted(set(out))


def shrink(case):
    if case["kind"] != "hist":
        return
    ops = case["ops"]
    for i in range(len(ops)):
        yield dict(case, ops=ops[:i] + ops[i + 1:])
    if len(case["batches"]) > 2:
        for i in range(len(case["batches"])):
            yield dict(case, batches=case["batches"][:i] + case["batches"][i + 1:])


def _type_names(case):
    return [o[1][1][0] for o in case.get("ops", []) if o[0] == "w"]


def _m_table_case(case, obs, failure):
    names = set(_type_names(case))
    lowered = {}
    for n in names:
        lowered.setdefault(n.lower(), set()).add(n)
    return case.get("kind") == "hist" and any(len(v) > 1 for v in lowered.values())


def _m_field_case(case, obs, failure):
    if case.get("kind") != "hist" or "OperationalError" not in str(failure):
        return False
    per = {}
    for o in case["ops"]:
        if o[0] == "w":
            per.setdefault(o[1][1][0].lower(), set()).update(f[1] for f in o[1][1][1])
    for fns in per.values():
        allf = set(fns) | {"_source", "_classification", "_generated", "_version"}
        low = {}
        for f in allf:
            low.setdefault(f.lower(), set()).add(f)
        if any(len(v) > 1 for v in low.values()):
            return True
    return False


def _m_type_change(case, obs, failure):
    if case.get("kind") != "hist" or "SqliteReader raised" not in str(failure):
        return False
    types = {}
    for o in case["ops"]:
        if o[0] == "w":
            for ft, fn in o[1][1][1]:
                types.setdefault((o[1][1][0].lower(), fn), set()).add(ft)
    return any(len(v) > 1 for v in types.values())


def _m_reserved_prefix(case, obs, failure):
    return (case.get("kind") == "hist" and "OperationalError" in str(failure)
            and any(n.lower().startswith("sqlite_") for n in _type_names(case)))


MATCHERS = {"type_name_reserved_sqlite_prefix": _m_reserved_prefix, "type_names_equal_up_to_case": _m_table_case, "field_names_equal_up_to_case": _m_field_case,
            "field_type_changed_reader_raises": _m_type_change}
