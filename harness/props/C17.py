"""C17 — writers lose nothing: close, split and rotation keep every record once.

Real code: every writer adapter driven through op histories (write / flush / close / with-exit), `split://` targets
for N x limit x suffix length x target URI x compression, `PathTemplateWriter` with a controlled clock and pre-existing
files. Disk content is read back by the matching reader AND by independent tools (gzip + own frame walk, json, csv,
fastavro.reader, sqlite3). Correspondence: the same history / split / rotation sequence through the Lean machines
(Model/Writers.lean). The oracle states the property on the real observation only.
"""
import csv
import datetime as _dtm
import gzip
import io
import itertools
import json
import os
import shutil
import sqlite3
import struct
import sys
import tempfile
import types

ID = "C17"
CLAIM = dict(
    text="Kernel-checked theorems about a generic writer lifecycle machine instantiated per adapter by flags extracted "
         "from the source (who writes the header, whether close flushes, exit = flush+close): closed_complete for all "
         "histories (close / with-exit / close twice / anything after) for stream, JSON, CSV, line, text, SQLite and — "
         "without a flush before the first write — Avro; empty outputs valid for JSON/Avro/SQLite; split: parts <= limit, "
         "part names injective in the index for every suffix length (rjust never truncates), record-wise concatenation = "
         "sequence written, frame-level raw concatenation of stream parts reads back; template rotation: pre-existing "
         "content preserved, every record once in a file created for its template path, a free rotation name always "
         "exists (pigeonhole) — plus counterexample theorems for the recorded findings. Tie: extracted flags + exhaustive "
         "op histories per adapter + split matrix + clock-controlled rotation sequences, model vs implementation.",
    note="partial: OS/CPython file buffering and __del__-time closing are not modelled; frames are taken as "
         "self-delimiting (C01/C02); known findings: stream writer closed without flush/records leaves an unreadable "
         "empty file (also the trailing part of a split whose N is a multiple of the limit); the Avro flush-before-"
         "first-write defect of the pinned tree is repaired (fix: d4d1493) and stated at full strength.",
    technique="Lean 4 state-machine theorems by induction over histories + model/implementation correspondence",
    design="8/C17")
RULE = ("life: EXHAUSTIVE op histories over {w,f,c,x} up to length 4 (quick) / 5 (thorough) for each of stream, stream+gz, "
        "jsonfile, avro, sqlite, csvfile, line, text (a history that leaves the writer open is completed by one close). "
        "split: N x limit x suffix length x target (stream, .gz, .bz2, json, jsonl, avro, csv, no extension, "
        "split+adapter URIs) x closing call. tmpl: seeded write sequences over 1-3 template paths with repeated seconds, "
        "with and without pre-existing files at the targets and at their rotation names. frames: seeded multi-descriptor "
        "parts, raw concatenation. Non-trivial = a history with a write and a closing call, a split with >= 2 parts, a "
        "template run with >= 1 rotation; distinct by hash of the case.")
TRUSTED = ["CPython/OS: closing a file object writes its buffer out; gzip/bz2 members concatenate (exercised, not proved)",
           "fastavro, sqlite3, json, csv as independent readers"]
ASSUMPTIONS = ["__del__-time closing is outside the model: the harness keeps references and closes deterministically",
               "record frames are self-delimiting (C01/C02) for the raw-concatenation theorem"]
EXPLANATION = "life kind enumerates all op histories up to the tier's length for all 8 adapter variants"

ADAPTERS = {
    "stream": ("stream://{d}/out%41.records", "stream"),
    "streamgz": ("stream://{d}/out%41.records.gz", "stream"),
    "jsonfile": ("jsonfile://{d}/out%2e.json", "jsonfile"),
    "avro": ("avro://{d}/o%75t.avro", "avro"),
    "sqlite": ("sqlite://{d}/out%41.db", "sqlite"),
    "csvfile": ("csvfile://{d}/out%41.csv", "csvfile"),
    "line": ("line://{d}/out%41.txt ", "line"),
    "text": ("text://{d}/out%24.txt", "text"),
}
EMPTY_VALID = ("stream", "streamgz", "jsonfile", "avro", "sqlite")
HEADER = b"\x00\x00\x00\x0f\xc4\x0dRECORDSTREAM\n"
G = ["dt", [2024, 1, 2, 3, 4, 5, 0], "utc", 0]
SPLIT_TARGETS = [
    ("out.records", "stream", ""), ("out.records.gz", "stream", ""), ("out.records.bz2", "stream", ""),
    ("out", "stream", ""), ("dots.in.name.rec", "stream", ""), ("out.json", "jsonfile", ""),
    ("out.jsonl", "jsonfile", ""), ("out.avro", "avro", ""), ("out.csv", "csvfile", ""),
    ("data.txt", "jsonfile", "jsonfile"), ("data.bin", "avro", "avro"), ("x.db", "sqlite", "sqlite"),
    ("p%41.records", "stream", ""), ("q%2e.bin", "avro", "avro"),
]


def EXHAUSTIVE(tier):
    return True


def WORKERS(tier):
    return 1 if tier == "quick" else min(16, os.cpu_count() or 1)


# ------------------------------------------------------------------ generation

def gen_cases(rng, tier):
    cases = []
    maxlen = {"quick": 4, "thorough": 5, "search": 4}[tier]
    for adapter in ADAPTERS:
        for n in range(1, maxlen + 1):
            for h in itertools.product("wfcx", repeat=n):
                cases.append({"kind": "life", "adapter": adapter, "hist": "".join(h)})
    # a with-block left by an EXCEPTION ('X'): the writer is flushed and closed all the same
    for adapter in ADAPTERS:
        for n in range(1, min(maxlen, 3) + 1):
            for h in itertools.product("wfX", repeat=n):
                if "X" in h:
                    cases.append({"kind": "life", "adapter": adapter, "hist": "".join(h)})
    # a comparison-ignore configuration in force during the whole life of the writer (a de-duplicating producer): it
    # concerns == and hash() only, every record is stored complete
    for adapter in ADAPTERS:
        for h in ("wwc", "wfwx", "wwwX"):
            cases.append({"kind": "life", "adapter": adapter, "hist": h, "ignore": ["s", "_generated"]})
    # SQLite: record types whose name starts like SQLite's own tables
    for h in ("wc", "wwx", "wfwc", "wX", "w"):
        cases.append({"kind": "life", "adapter": "sqlite", "hist": h, "tname": 3})
    # histories with a REFUSED write ('e': a record the adapter cannot store - an integer beyond 64 bits for SQLite, text
    # with a lone surrogate for the binary stream) after which the caller carries on: nothing else may be lost
    for adapter in ("sqlite", "stream", "jsonfile"):
        if adapter not in ADAPTERS:
            continue
        for n in range(2, maxlen + 1):
            for h in itertools.product("wfcxe", repeat=n):
                if "e" in h and "w" in h:
                    cases.append({"kind": "life", "adapter": adapter, "hist": "".join(h)})
    # ---- split matrix
    r = rng.fork("split")
    limits = [1, 2, 3, 5] if tier != "thorough" else [1, 2, 3, 4, 5, 7]
    for (target, adapter, sub) in SPLIT_TARGETS:
        for limit in limits:
            ns = sorted({0, 1, limit - 1, limit, limit + 1, 2 * limit, 2 * limit + 1, 3 * limit})
            if tier == "quick":
                ns = r.sample(ns, 4)
            for n in ns:
                for closing in ("c", "x"):
                    suffixes = [0, 1, 2, 3] if tier == "thorough" else [r.choice([0, 1, 2, 3])]
                    for k in suffixes:
                        case = {"kind": "split", "target": target, "adapter": adapter, "sub": sub, "n": n,
                                "limit": limit, "suffix": k, "closing": closing}
                        if sub and r.chance(35):
                            # adapter scheme + a bare file name, relative to the working directory
                            # (`rdump --split=N -w jsonfile://out.json` run inside the output directory)
                            case["rel"] = True
                        cases.append(case)
    # many parts: the index outgrows the suffix length
    for k, n in ((1, 12), (2, 101), (0, 11)):
        cases.append({"kind": "split", "target": "out.records", "adapter": "stream", "sub": "", "n": n, "limit": 1,
                      "suffix": k, "closing": "x"})
    # ---- template rotation
    r = rng.fork("tmpl")
    nt = {"quick": 150, "thorough": 6000, "search": 300}[tier]
    exts = [".records.gz", ".records.gz", ".records", "", ".json", ".v1.records"]
    for _ in range(nt):
        ext = r.choice(exts)
        keys = r.sample(["A", "B", "C", "a.b", "k-1", "C%24", "x%41", "A ", " B"], r.randint(1, 3))
        t = 1704067200 + r.randint(0, 5)
        writes = []
        for _ in range(r.choice([1, 2, 3, 4, 6, 9])):
            t += r.choice([0, 0, 0, 1, 1, 61])
            writes.append([r.choice(keys), t])
        pre = []
        if r.chance(65):
            for kk in r.sample(keys, r.randint(1, len(keys))):
                pre.append([kk + ext, r.randint(0, 2)])
            if r.chance(60):
                # occupy rotation names of the seconds that will be used
                for kk in keys:
                    for sec in sorted({w[1] for w in writes})[:2]:
                        if r.chance(50):
                            nm = _rot_name(kk + ext, _stamp(sec), r.choice([0, 0, 1]))
                            if nm not in [p[0] for p in pre]:
                                pre.append([nm, r.randint(0, 2)])
        cases.append({"kind": "tmpl", "ext": ext, "pre": pre, "writes": writes})
    # ---- templates that use `ts` (= the record's own _generated, in the offset it carries) in a process whose DISPLAY
    # zone (FLOW_RECORD_TZ, read at import) is something else: the file names come from the record, not from the display
    rt = rng.fork("tmplts")
    for _ in range({"quick": 6, "thorough": 150, "search": 10}[tier]):
        ext = rt.choice([".records", ".records.gz", ".json"])
        keys = rt.sample(["A", "B", "k-1"], rt.randint(1, 2))
        t = 1704067200 + rt.randint(0, 5)
        writes, gens = [], []
        base = [rt.randint(2001, 2037), rt.randint(1, 12), rt.randint(1, 28)]
        for _ in range(rt.choice([2, 3, 4, 6])):
            t += rt.choice([0, 0, 1, 61])
            writes.append([rt.choice(keys), t])
            gens.append([base + [rt.choice([0, 14, 15, 22, 23]), rt.randint(0, 59), 0, 0],
                         rt.choice([0, 0, 0, 32400, -18000, 19800])])
        cases.append({"kind": "tmpl", "ext": ext, "pre": [], "writes": writes,
                      "tsfmt": {"zone": rt.choice(["Asia/Tokyo", "America/New_York", "Pacific/Kiritimati", "UTC"]),
                                "gens": gens}})
    # ---- the writer closed in the middle of its life and used again: a later write may be refused, it may not cost a
    # record that was written before (nor a file that existed before)
    rc = rng.fork("tmplclose")
    for _ in range({"quick": 12, "thorough": 300, "search": 20}[tier]):
        ext = rc.choice(exts)
        keys = rc.sample(["A", "B", "C"], rc.randint(1, 2))
        t = 1704067200
        writes = []
        for _ in range(rc.choice([2, 3, 4, 6])):
            t += rc.choice([0, 0, 1, 61])
            writes.append([rc.choice(keys), t])
            if rc.chance(35):
                writes.append(["close"])
        if not any(w == ["close"] for w in writes[:-1]):
            writes.insert(1, ["close"])
        pre = [[kk + ext, rc.randint(0, 2)] for kk in keys if rc.chance(40)]
        cases.append({"kind": "tmpl", "ext": ext, "pre": pre, "writes": writes})
    # the witness shape of DESIGN finding #15 in every extension
    for ext in exts:
        cases.append({"kind": "tmpl", "ext": ext, "pre": [["A" + ext, 2]],
                      "writes": [["A", 1704067200], ["B", 1704067200], ["A", 1704067200], ["B", 1704067200],
                                 ["A", 1704067200]]})
    # ---- raw concatenation with several descriptors
    r = rng.fork("frames")
    for _ in range({"quick": 80, "thorough": 3000, "search": 150}[tier]):
        parts = [[[r.below(3), r.randint(0, 99)] for _ in range(r.choice([0, 1, 2, 3, 5]))]
                 for _ in range(r.randint(1, 4))]
        cases.append({"kind": "frames", "parts": parts, "gz": bool(r.chance(30))})
    return cases


def _stamp(sec):
    return _dtm.datetime.fromtimestamp(sec, _dtm.timezone.utc).strftime("%Y%m%dT%H%M%S")


def _rot_name(name, stamp, seq):
    """Only used to PLACE pre-existing files at interesting names (the expected names come from the model)."""
    if name.endswith(".records.gz"):
        fname, ext = name[: -len(".records.gz")], "records.gz"
    else:
        fname, ext = os.path.splitext(name)
    return f"{fname}.{stamp}.{ext}" if seq == 0 else f"{fname}.{stamp}-{seq}.{ext}"


# ------------------------------------------------------------------ real code: helpers

def _desc(i=0):
    from flow.record import RecordDescriptor
    # index 3: a type name that begins like SQLite's internal tables (`sqlite_master`, ...): an ordinary record type
    return RecordDescriptor(["test/c17", "test/c17b", "other/c", "sqlite/history"][i], [("string", "s"), ("varint", "n")] +
                            ([("string", "extra")] if i == 2 else []))


def _rec(i, d=0):
    from harness import values as V
    return _desc(d)(s=f"r{i}", n=i, _generated=V.build(G))


def _obs_rec(r):
    if not hasattr(r, "n"):
        return "hollow"
    try:
        return int(r.n)
    except (TypeError, ValueError):
        return "hollow"


def _read_matching(url):
    from flow.record import RecordReader
    try:
        rd = RecordReader(url)
        try:
            return {"records": [_obs_rec(r) for r in rd]}
        finally:
            rd.close()
    except Exception as e:
        return {"error": type(e).__name__, "msg": str(e)[:100]}


def _walk_frames(plain):
    """Independent frame walk of a record stream: header, then length-prefixed frames; record frames counted by their
    msgpack ext-14 payload sub-type (0x01 = record when packed as [1, ...])."""
    if not plain.startswith(HEADER):
        return {"error": "no-header"}
    import msgpack
    pos, recs, descs = len(HEADER), [], 0
    while pos < len(plain):
        if pos + 4 > len(plain):
            return {"error": "truncated"}
        (n,) = struct.unpack(">I", plain[pos:pos + 4])
        body = plain[pos + 4:pos + 4 + n]
        if len(body) != n:
            return {"error": "truncated"}
        pos += 4 + n
        if body == HEADER[4:]:
            continue
        obj = msgpack.unpackb(body, raw=False, strict_map_key=False, ext_hook=lambda c, d: (c, d))
        if isinstance(obj, tuple) and obj[0] == 14:
            inner = msgpack.unpackb(obj[1], raw=False, strict_map_key=False)
            if inner[0] == 2:
                descs += 1
            elif inner[0] == 1:
                vals = inner[1][1]
                recs.append(vals[1] if isinstance(vals, (list, tuple)) and len(vals) > 1 else "hollow")
    return {"records": recs, "descriptors": descs}


def _read_independent(adapter, path):
    """Not through flow.record's readers."""
    try:
        raw = open(path, "rb").read()
        if adapter in ("stream", "streamgz"):
            if path.endswith(".gz"):
                raw = gzip.decompress(raw)
            elif path.endswith(".bz2"):
                import bz2
                raw = bz2.decompress(raw)
            return _walk_frames(raw)
        if adapter == "jsonfile":
            out = []
            for line in raw.decode().splitlines():
                j = json.loads(line)
                if j.get("_type") == "record":
                    out.append(j.get("n", "hollow"))
            return {"records": out}
        if adapter == "avro":
            import fastavro
            with open(path, "rb") as f:
                return {"records": [row.get("n", "hollow") for row in fastavro.reader(f)]}
        if adapter == "sqlite":
            con = sqlite3.connect(path)
            try:
                tabs = [t[0] for t in con.execute("select name from sqlite_master where type='table'").fetchall()]
                out = []
                for t in tabs:
                    out += [row[0] for row in con.execute(f'select n from "{t}"').fetchall()]
                return {"records": out}
            finally:
                con.close()
        if adapter == "csvfile":
            rows = list(csv.reader(io.StringIO(raw.decode(), newline="")))
            if not rows:
                return {"records": []}
            idx = rows[0].index("n")
            return {"records": [int(r[idx]) for r in rows[1:] if r and r != rows[0]]}
        if adapter == "line":
            return {"records": [int(l.split("=")[1]) for l in raw.decode().splitlines() if l.strip().startswith("n =")]}
        if adapter == "text":
            out = []
            for l in raw.decode().splitlines():
                if l.startswith("<test/c17"):
                    out.append(int(l.split(" n=")[1].split(">")[0].split(" ")[0]))
            return {"records": out}
    except Exception as e:
        return {"error": type(e).__name__, "msg": str(e)[:100]}
    return {"error": "no-tool"}


def _apply_ops(w, hist, mk):
    outcomes, i = [], 0
    for op in hist:
        try:
            if op == "w":
                rec = mk(i)
                i += 1
                w.write(rec)
            elif op == "e":
                rec = mk(i)
                i += 1
                # a value this adapter refuses: beyond SQLite's 64-bit integers / not encodable as UTF-8
                if hasattr(w, "con"):
                    rec.n = 2 ** 70
                elif type(w).__name__ == "JsonfileWriter":
                    rec.n = 10 ** 5000          # beyond CPython's int-to-text limit: json.dumps raises ValueError
                else:
                    rec.s = "\ud800"
                w.write(rec)
            elif op == "f":
                w.flush()
            elif op == "c":
                w.close()
            elif op == "x":
                w.__exit__(None, None, None)
            elif op == "X":
                # the with-block is left by an exception raised in its body
                w.__exit__(ValueError, ValueError("boom"), None)
            outcomes.append("ok")
        except Exception as e:
            outcomes.append("raised:" + type(e).__name__)
    return outcomes


def _is_open(w):
    """Does the writer still hold its file / connection / sub-writer? (to complete the history deterministically)"""
    from flow.record.adapter.split import SplitWriter
    if isinstance(w, SplitWriter):
        return w.writer is not None
    if hasattr(w, "con"):
        return w.con is not None
    return getattr(w, "fp", None) is not None


def _run_life(case):
    import flow.record.base as _B
    saved = set(_B.IGNORE_FIELDS_FOR_COMPARISON)
    if case.get("ignore"):
        _B.set_ignored_fields_for_comparison(list(case["ignore"]))
    try:
        return _run_life_inner(case)
    finally:
        _B.set_ignored_fields_for_comparison(saved)


def _run_life_inner(case):
    from flow.record import RecordWriter
    d = tempfile.mkdtemp(prefix="frv-c17-")
    try:
        url = ADAPTERS[case["adapter"]][0].format(d=d)
        path = url.split("://", 1)[1]
        w = RecordWriter(url)
        outcomes = _apply_ops(w, case["hist"], (lambda i: _rec(i, case["tname"])) if case.get("tname") else _rec)
        cleanup = False
        if _is_open(w):
            cleanup = True
            try:
                w.close()
            except Exception as e:
                outcomes.append("cleanup-raised:" + type(e).__name__)
        # the path of the URL is a file name, taken literally (a "%41" in it is three characters, not "A")
        obs = {"outcomes": outcomes, "cleanup_close": cleanup, "listing": sorted(os.listdir(d)),
               "want_name": os.path.basename(path), "size": os.path.getsize(path) if os.path.exists(path) else None}
        if obs["size"] is None:
            return obs
        if ADAPTERS[case["adapter"]][1] not in ("line", "text"):
            obs["matching"] = _read_matching(url)
        obs["independent"] = _read_independent(case["adapter"], path)
        del w
        return obs
    finally:
        shutil.rmtree(d, ignore_errors=True)


def _split_url(case, d):
    q = f"?count={case['limit']}&suffix-length={case['suffix']}"
    if case["sub"] and case.get("rel"):
        return f"split+{case['sub']}://{case['target']}{q}"
    if case["sub"]:
        return f"split+{case['sub']}://{d}/{case['target']}{q}"
    return f"split://{d}/{case['target']}{q}"


def _part_url(case, path):
    return f"{case['sub']}://{path}" if case["sub"] else path


def _run_split(case):
    from flow.record import RecordReader, RecordWriter
    d = tempfile.mkdtemp(prefix="frv-c17-")
    cwd = os.getcwd()
    try:
        if case.get("rel"):
            os.chdir(d)
        w = RecordWriter(_split_url(case, d))
        two = case["adapter"] == "stream"
        outcomes = _apply_ops(w, "w" * case["n"] + case["closing"], lambda i: _rec(i, (i % 2) if two else 0))
        if _is_open(w):
            w.close()
        names = sorted(os.listdir(d))
        parts = []
        for nm in names:
            p = os.path.join(d, nm)
            parts.append({"name": nm, "size": os.path.getsize(p), "matching": _read_matching(_part_url(case, p)),
                          "independent": _read_independent(case["adapter"], p)})
        obs = {"outcomes": outcomes, "parts": parts}
        if case["adapter"] == "stream":
            order = sorted(names, key=lambda nm: (len(nm), nm))
            raw = b"".join(open(os.path.join(d, nm), "rb").read() for nm in order)
            obs["raw_order"] = order
            try:
                rd = RecordReader(fileobj=io.BytesIO(raw))
                obs["raw_concat"] = {"records": [_obs_rec(r) for r in rd]}
            except Exception as e:
                obs["raw_concat"] = {"error": type(e).__name__, "msg": str(e)[:100]}
        del w
        return obs
    finally:
        os.chdir(cwd)
        shutil.rmtree(d, ignore_errors=True)


def _write_stream_file(path, ns, key):
    from flow.record import RecordDescriptor, RecordWriter
    from harness import values as V
    D = RecordDescriptor("test/t", [("string", "key"), ("varint", "n")])
    w = RecordWriter(path)
    for n in ns:
        w.write(D(key=key, n=n, _generated=V.build(G)))
    w.flush()
    w.close()


def _read_ns(path):
    from flow.record import RecordReader
    try:
        rd = RecordReader(path)
        try:
            return [[str(r.key), int(r.n)] for r in rd]
        finally:
            rd.close()
    except Exception as e:
        return {"error": type(e).__name__, "msg": str(e)[:100]}


def _pathkey(case, i):
    """the name the `{ts:%Y%m%dT%H}_{record.key}` template gives write #i - from the case alone"""
    f = case["tsfmt"]["gens"][i][0]
    return "%04d%02d%02dT%02d_%s" % (f[0], f[1], f[2], f[3], case["writes"][i][0])


def _tm_view(case, obs):
    """a `tsfmt` case seen as a plain template case: the template path of write #i is _pathkey(i)"""
    if "tsfmt" not in case:
        return case, obs, None
    c2 = dict(case, writes=[[_pathkey(case, i), sec] for i, (_, sec) in enumerate(case["writes"])])
    del c2["tsfmt"]
    o2 = dict(obs)
    files = []
    for nm, c in obs.get("files", []):
        if isinstance(c, list):
            cc = []
            for k, n in c:
                if k != "pre":
                    if not (0 <= n < len(case["writes"])) or k != case["writes"][n][0]:
                        return c2, o2, f"file {nm} holds a record (key {k!r}, n {n}) that was never written"
                    k = _pathkey(case, n)
                cc.append([k, n])
            c = cc
        files.append([nm, c])
    o2["files"] = files
    return c2, o2, None


_TM_CHILD = r"""
import sys, json, warnings
sys.path.insert(0, %(verif)r); sys.path.insert(0, %(repo)r)
warnings.simplefilter("ignore")
from harness.props import C17
case = json.loads(sys.stdin.read())
print(json.dumps(C17._run_tmpl(case, child=True)))
"""


def _run_tmpl(case, child=False):
    if "tsfmt" in case and not child:
        import subprocess
        verif = os.path.dirname(os.path.dirname(os.path.dirname(os.path.abspath(__file__))))
        code = _TM_CHILD % {"verif": verif, "repo": os.environ.get("VERIF_REPO", "/repo")}
        env = dict(os.environ, PYTHONDONTWRITEBYTECODE="1", FLOW_RECORD_TZ=case["tsfmt"]["zone"])
        p = subprocess.run([sys.executable, "-c", code], input=json.dumps(case), capture_output=True, text=True, env=env,
                           timeout=120)
        if p.returncode != 0:
            return {"outcomes": ["raised:child:" + p.stderr[-200:]], "pre": [], "files": []}
        return json.loads(p.stdout.strip().splitlines()[-1])
    import flow.record.stream as frs
    from flow.record import RecordDescriptor
    from harness import values as V
    D = RecordDescriptor("test/t", [("string", "key"), ("varint", "n")])
    d = os.path.realpath(tempfile.mkdtemp(prefix="frv-c17-"))
    clock = {"t": 0}

    class FakeDateTime(_dtm.datetime):
        @classmethod
        def now(cls, tz=None):
            return _dtm.datetime.fromtimestamp(clock["t"], tz)

    fake = types.SimpleNamespace(datetime=FakeDateTime, timezone=_dtm.timezone, timedelta=_dtm.timedelta)
    real = frs.datetime
    try:
        marker = 1000
        pre = []
        for j, (nm, k) in enumerate(case["pre"]):
            ns = list(range(marker, marker + k))
            marker += 10
            _write_stream_file(os.path.join(d, nm), ns, "pre")
            pre.append([nm, ns])
        frs.datetime = fake
        w = frs.PathTemplateWriter(os.path.join(d, ("{ts:%Y%m%dT%H}_" if "tsfmt" in case else "") + "{record.key}"
                                                + case["ext"]))
        outcomes = []
        try:
            for i, wr_ in enumerate(case["writes"]):
                if wr_ == ["close"]:
                    try:
                        w.close()
                        outcomes.append("closed")
                    except Exception as e:          # noqa: BLE001
                        outcomes.append("close-raised:" + type(e).__name__)
                    continue
                key, sec = wr_
                clock["t"] = sec
                try:
                    gen = G if "tsfmt" not in case else ["dt", case["tsfmt"]["gens"][i][0],
                                                         ["fixed", case["tsfmt"]["gens"][i][1], 0], 0]
                    w.write(D(key=key, n=i, _generated=V.build(gen)))
                    outcomes.append("ok")
                except Exception as e:
                    outcomes.append("raised:" + type(e).__name__ + ":" + str(e)[:80])
        finally:
            try:
                w.close()
            except Exception:           # noqa: BLE001
                if not any(x == ["close"] for x in case["writes"]):
                    raise
            frs.datetime = real
        files = []
        for nm in sorted(os.listdir(d)):
            files.append([nm, _read_ns(os.path.join(d, nm))])
        del w
        return {"outcomes": outcomes, "pre": pre, "files": files}
    finally:
        frs.datetime = real
        shutil.rmtree(d, ignore_errors=True)


def _run_frames(case):
    from flow.record import RecordReader, RecordWriter
    d = tempfile.mkdtemp(prefix="frv-c17-")
    try:
        raw = b""
        k = 0
        for j, part in enumerate(case["parts"]):
            p = os.path.join(d, f"p{j}.records" + (".gz" if case["gz"] else ""))
            w = RecordWriter(p)
            for (di, n) in part:
                kw = {"extra": "e"} if di == 2 else {}
                w.write(_desc(di)(s=f"r{k}", n=n, _generated=__import__("harness.values", fromlist=["x"]).build(G), **kw))
                k += 1
            w.flush()
            w.close()
            raw += open(p, "rb").read()
        try:
            rd = RecordReader(fileobj=io.BytesIO(raw))
            out = [[["test/c17", "test/c17b", "other/c"].index(r._desc.name), int(r.n)] for r in rd]
            return {"records": out}
        except Exception as e:
            return {"error": type(e).__name__, "msg": str(e)[:100]}
    finally:
        shutil.rmtree(d, ignore_errors=True)


def run_real(case):
    return {"life": _run_life, "split": _run_split, "tmpl": _run_tmpl, "frames": _run_frames}[case["kind"]](case)


# ------------------------------------------------------------------ the property, on the real observation

def _first_closing(hist):
    for i, c in enumerate(hist):
        if c in "cxX":
            return i
    return len(hist)


def _oracle_life(case, obs):
    hist = case["hist"]
    if obs.get("size") is None:
        return (f"{case['adapter']} writer: the file the URL names ({obs.get('want_name')}) does not exist after the "
                f"history; the directory holds {obs.get('listing')}")
    accepted, i, opened = [], 0, True
    for op, out in zip(hist, obs["outcomes"]):
        if op == "w":
            if out == "ok":
                if not opened:
                    return f"write #{i} on a closed {case['adapter']} writer returned normally"
                accepted.append(i)
            elif opened:
                return f"write #{i} on an open {case['adapter']} writer raised ({out})"
            i += 1
        elif op == "e":
            if out == "ok":
                return f"write #{i} of a record the {case['adapter']} adapter cannot store returned normally"
            i += 1
        elif op in "cxX":
            if opened and out != "ok":
                return f"{'close' if op == 'c' else 'with-exit'} of an open {case['adapter']} writer raised ({out})"
            opened = False
        elif op == "f" and opened and out != "ok":
            return f"flush of an open {case['adapter']} writer raised ({out})"
    if any(o.startswith("cleanup-raised") for o in obs["outcomes"]):
        return "closing the writer raised"
    for via in ("matching", "independent"):
        if via not in obs:
            continue
        got = obs[via]
        if "error" in got:
            if not accepted and case["adapter"] not in EMPTY_VALID:
                continue   # an empty CSV/line/text output is not claimed to be readable
            what = "a valid empty output" if not accepted else f"the {len(accepted)} records written"
            return (f"{case['adapter']} history {hist!r}: after close the {via} reader cannot read {what}: "
                    f"{got['error']} {got.get('msg', '')}")
        if got["records"] != accepted:
            return (f"{case['adapter']} history {hist!r}: after close the {via} reader returns {got['records']!r}, "
                    f"written before the first close: {accepted!r}")
    return None


def _oracle_split(case, obs):
    n, limit = case["n"], case["limit"]
    if any(o != "ok" for o in obs["outcomes"]):
        return f"split writer call raised: {[o for o in obs['outcomes'] if o != 'ok'][0]}"
    names = [p["name"] for p in obs["parts"]]
    if len(set(names)) != len(names):
        return "part names are not distinct"
    # order of parts = order of creation = numeric order of the inserted index; recover it from the content
    parts = sorted(obs["parts"], key=lambda p: (len(p["name"]), p["name"]))
    allrecs = []
    for p in parts:
        for via in ("matching", "independent"):
            got = p[via]
            if "error" in got:
                if case["adapter"] in ("csvfile",) and p["size"] == 0:
                    continue
                return f"part {p['name']} is not readable on its own by the {via} reader: {got['error']} {got.get('msg', '')}"
            if len(got["records"]) > limit:
                return f"part {p['name']} holds {len(got['records'])} records, limit {limit}"
        m = p["matching"].get("records", [])
        if "records" in p["independent"] and "records" in p["matching"] and p["independent"]["records"] != m:
            return f"part {p['name']}: independent reader {p['independent']['records']} vs matching reader {m}"
        allrecs += m
    if allrecs != list(range(n)):
        return f"record-wise concatenation of the parts is {allrecs!r}, written 0..{n - 1}"
    if "raw_concat" in obs:
        rc = obs["raw_concat"]
        if "error" in rc:
            return f"raw-byte concatenation of the parts is not readable: {rc['error']} {rc.get('msg', '')}"
        if rc["records"] != list(range(n)):
            return f"raw-byte concatenation reads back as {rc['records']!r}, written 0..{n - 1}"
    return None


def _oracle_tmpl_close(case, obs):
    """histories with close() in the middle: a write after it may be refused; nothing written before may be lost"""
    outs = obs["outcomes"]
    after_close = False
    ok = []
    for i, (wr_, o) in enumerate(zip(case["writes"], outs)):
        if wr_ == ["close"]:
            if o != "closed":
                return f"close() in the middle of the history raised ({o})"
            after_close = True
        elif o == "ok":
            ok.append(i)
        elif not after_close:
            return f"template writer raised before it was ever closed: {o}"
    contents = {nm: c for nm, c in obs["files"]}
    for nm, c in obs["files"]:
        if isinstance(c, dict) and c.get("error"):
            return f"file {nm} is not readable: {c['error']} {c.get('msg', '')}"
    pool = [c for c in contents.values()]
    for nm, ns in obs["pre"]:
        want = [["pre", n] for n in ns]
        if want not in pool:
            return f"the content of the pre-existing file {nm} ({ns}) is no longer on disk unchanged"
        pool.remove(want)
    seen = []
    for nm, c in obs["files"]:
        keys = {k for k, _ in c if k != "pre"}
        if len(keys) > 1:
            return f"file {nm} mixes records of template paths {sorted(keys)}"
        if keys and any(k == "pre" for k, _ in c):
            return f"file {nm} holds pre-existing content and new records (appended to / merged)"
        ns = [n for k, n in c if k != "pre"]
        if ns != sorted(ns):
            return f"file {nm}: records out of order {ns}"
        for k, n in c:
            if k != "pre" and (not (0 <= n < len(case["writes"])) or case["writes"][n] == ["close"] or case["writes"][n][0] != k):
                return f"file {nm} holds a record (key {k!r}, n {n}) that was never written"
        seen += ns
    if len(seen) != len(set(seen)):
        return f"a record is on disk twice: {sorted(seen)}"
    lost = [i for i in ok if i not in seen]
    if lost:
        return (f"records #{lost} were written (write() returned) but are not on disk after the writer was closed and used "
                f"again: on disk {sorted(seen)}, outcomes {outs}")
    return None


def _oracle_tmpl(case, obs):
    if any(w_ == ["close"] for w_ in case["writes"]):
        return _oracle_tmpl_close(case, obs)
    case, obs, bad = _tm_view(case, obs)
    if bad:
        return bad
    if any(o != "ok" for o in obs["outcomes"]):
        return f"template writer raised: {[o for o in obs['outcomes'] if o != 'ok'][0]}"
    files = obs["files"]
    for nm, content in files:
        if isinstance(content, dict):
            if not content.get("error"):
                continue
            # an untouched pre-existing empty stream file is readable (written with flush); anything else must read
            return f"file {nm} is not readable: {content['error']} {content.get('msg', '')}"
    contents = {nm: c for nm, c in files}
    # pre-existing contents: renamed, never overwritten / appended to
    pre_lists = [[["pre", n] for n in ns] for _, ns in obs["pre"]]
    pool = [c for c in contents.values()]
    for (nm, ns), want in zip(obs["pre"], pre_lists):
        if want not in pool:
            return f"the content of the pre-existing file {nm} ({ns}) is no longer on disk unchanged"
        pool.remove(want)
    # every record once, in a file of its own key, order kept
    seen = []
    for nm, c in files:
        keys = {k for k, _ in c if k != "pre"}
        if len(keys) > 1:
            return f"file {nm} mixes records of template paths {sorted(keys)}"
        for k in keys:
            # the file the template names, or a file that was renamed away from that name (never another key's file)
            other = [k2 + case["ext"] for k2, _ in case["writes"] if k2 != k]
            if nm in other:
                return f"record of template path {k + case['ext']} landed in {nm}, the file another path names"
        ns = [n for k, n in c if k != "pre"]
        if ns != sorted(ns):
            return f"file {nm}: records out of order {ns}"
        if keys and any(k == "pre" for k, _ in c):
            return f"file {nm} holds pre-existing content and new records (appended to / merged)"
        seen += ns
    if sorted(seen) != list(range(len(case["writes"]))):
        return f"records on disk {sorted(seen)} != records written 0..{len(case['writes']) - 1}"
    # consecutive records of one template path go to ONE file (a file is only renamed away when the writer comes back
    # to a path whose file already exists, never in the middle of a run)
    where = {}
    for nm, c in files:
        for k, n in c:
            if k != "pre":
                where[n] = nm
    for i in range(1, len(case["writes"])):
        if case["writes"][i][0] == case["writes"][i - 1][0] and where.get(i) != where.get(i - 1):
            return (f"records #{i - 1} and #{i} were written one after the other to the same template path "
                    f"{case['writes'][i][0] + case['ext']!r} but sit in different files ({where.get(i - 1)}, {where.get(i)})")
    # the file the template names holds the latest run of its key
    last_key = {}
    for i, (k, _) in enumerate(case["writes"]):
        last_key[k] = i
    for k, i in last_key.items():
        c = contents.get(k + case["ext"])
        if c is None or [k, i] not in c:
            return f"the file named by the template for {k!r} does not hold its latest record #{i}"
    return None


def oracle(case, obs):
    k = case["kind"]
    if k == "life":
        return _oracle_life(case, obs)
    if k == "split":
        return _oracle_split(case, obs)
    if k == "tmpl":
        return _oracle_tmpl(case, obs)
    if k == "frames":
        want = [list(x) for p in case["parts"] for x in p]
        if "error" in obs:
            return f"raw concatenation of stream parts is not readable: {obs['error']} {obs.get('msg', '')}"
        if obs["records"] != want:
            return f"raw concatenation reads back {obs['records']!r}, written {want!r}"
    return None


# ------------------------------------------------------------------ model

def model_op(case, obs):
    k = case["kind"]
    if k == "life":
        # refused writes ('e') are the model's `Op.bad` (C17_refused_writes_lose_nothing)
        hist = case["hist"] + ("c" if obs["cleanup_close"] else "")
        return {"op": "c17.life", "adapter": ADAPTERS[case["adapter"]][1], "hist": hist}
    if k == "split":
        return {"op": "c17.split", "adapter": case["adapter"], "limit": case["limit"],
                "hist": "w" * case["n"] + case["closing"], "base": case["target"], "suffixLen": case["suffix"]}
    if k == "tmpl":
        if any(w_ == ["close"] for w_ in case["writes"]):
            # close() in the middle of a template writer's life: Writers.tmplRunC (C17_template_closed_and_used_again)
            return {"op": "c17.tmplc", "fs": [[nm, ns] for nm, ns in obs["pre"]],
                    "ops": [[] if w_ == ["close"] else [w_[0] + case["ext"], _stamp(w_[1]), i]
                            for i, w_ in enumerate(case["writes"])]}
        case, obs, _ = _tm_view(case, obs)
        return {"op": "c17.tmpl", "fs": [[nm, ns] for nm, ns in obs["pre"]],
                "writes": [[key + case["ext"], _stamp(sec), i] for i, (key, sec) in enumerate(case["writes"])]}
    if k == "frames":
        return {"op": "c17.frames", "parts": case["parts"]}
    return None


def _norm_out(o):
    return "ok" if o == "ok" else "raised"


def compare(case, obs, m):
    if "error" in m and len(m) == 1:
        return f"model error {m['error']}"
    k = case["kind"]
    if k == "life":
        real_out = [_norm_out(o) for o in obs["outcomes"] if not o.startswith("cleanup")]
        mo = m["outcomes"][:len(real_out)]
        if real_out != mo:
            return f"outcomes: real {real_out} vs model {mo}"
        fin = m["final"]
        for via in ("matching", "independent"):
            if via not in obs:
                continue
            got = obs[via]
            if via == "matching" and case["adapter"] in EMPTY_VALID:
                if ("error" in got) == fin["valid"]:
                    return f"validity: matching reader {'fails' if 'error' in got else 'succeeds'} vs model valid={fin['valid']}"
            if "records" in got and got["records"] != fin["disk"]:
                return f"disk: {via} reader {got['records']} vs model {fin['disk']}"
        if fin["buffer"] and not fin["open"]:
            return f"model keeps {fin['buffer']} in a buffer after close"
        return None
    if k == "split":
        real_out = [_norm_out(o) for o in obs["outcomes"]]
        if real_out != m["outcomes"]:
            return f"outcomes: real {real_out} vs model {m['outcomes']}"
        mnames = sorted(p["name"] for p in m["parts"])
        rnames = sorted(p["name"] for p in obs["parts"])
        if mnames != rnames:
            return f"part names: real {rnames} vs model {mnames}"
        by = {p["name"]: p for p in obs["parts"]}
        for mp in m["parts"]:
            rp = by[mp["name"]]
            if "records" in rp["matching"] and rp["matching"]["records"] != mp["life"]["disk"]:
                return f"part {mp['name']}: real {rp['matching']['records']} vs model {mp['life']['disk']}"
            if case["adapter"] in ("stream", "jsonfile", "avro", "sqlite") and \
                    ("error" in rp["matching"]) == mp["life"]["valid"]:
                return f"part {mp['name']}: readable={'error' not in rp['matching']} vs model valid={mp['life']['valid']}"
        return None
    if k == "tmpl":
        if "files" not in m:
            return f"model: {m}"
        mf = {nm: c for nm, _, c in m["files"]}
        rf = {}
        for nm, c in obs["files"]:
            rf[nm] = [n for _, n in c] if isinstance(c, list) else c
        if mf != rf:
            return f"directory: real {rf} vs model {mf}"
        if "returned" in m:
            real_ret = [o in ("ok", "closed") for o in obs["outcomes"]]
            if real_ret != m["returned"]:
                return f"calls that returned normally: real {real_ret} vs model {m['returned']} (outcomes {obs['outcomes']})"
        return None
    if k == "frames":
        if "records" in obs and obs["records"] != m["records"]:
            return f"frames: real {obs['records']} vs model {m['records']}"
        if "error" in obs and m["records"] is not None:
            return "frames: real reader fails, model reads"
    return None


def nontrivial(case, obs):
    k = case["kind"]
    if k == "life":
        return "w" in case["hist"][:_first_closing(case["hist"]) + 1] and any(c in case["hist"] for c in "cxX")
    if k == "split":
        return len(obs["parts"]) >= 2
    if k == "tmpl":
        if "tsfmt" in case:
            return len(obs["files"]) >= 2
        return len(obs["files"]) > len({w[0] for w in case["writes"]})
    if k == "frames":
        return len(case["parts"]) >= 2
    return False


def classify(case, obs):
    k = case["kind"]
    if k == "life":
        return [f"life:{case['adapter']}", f"life:len={len(case['hist'])}"]
    if k == "split":
        return [f"split:{case['target']}", f"split:parts={min(len(obs['parts']), 5)}", f"split:closing={case['closing']}"]
    if k == "tmpl":
        return [f"tmpl:ext={case['ext'] or 'none'}" + (":ts-template" if "tsfmt" in case else "")
                + (":close-in-the-middle" if any(w_ == ["close"] for w_ in case["writes"]) else ""), f"tmpl:pre={len(case['pre'])}",
                f"tmpl:files={min(len(obs['files']), 8)}"]
    return "frames"


def shrink(case):
    if case["kind"] == "life":
        h = case["hist"]
        for i in range(len(h)):
            yield dict(case, hist=h[:i] + h[i + 1:])
    elif case["kind"] == "tmpl":
        for i in range(len(case["writes"])):
            c = dict(case, writes=case["writes"][:i] + case["writes"][i + 1:])
            if "tsfmt" in case:
                g = case["tsfmt"]["gens"]
                c["tsfmt"] = dict(case["tsfmt"], gens=g[:i] + g[i + 1:])
            yield c
        for i in range(len(case["pre"])):
            yield dict(case, pre=case["pre"][:i] + case["pre"][i + 1:])
    elif case["kind"] == "split" and case["n"] > 0:
        yield dict(case, n=case["n"] - 1)


# ------------------------------------------------------------------ known findings: narrow signatures

def _m_stream_close_without_flush(case, obs, failure):
    """adapter = binary stream, the first closing call is a bare close (explicit or the completing one) with no write and
    no flush before it; as a split: the trailing part of a stream split closed by close()."""
    if case.get("kind") == "life":
        if case["adapter"] not in ("stream", "streamgz"):
            return False
        h = case["hist"]
        i = _first_closing(h)
        return ("w" not in h[:i] and "f" not in h[:i] and (i == len(h) or h[i] == "c")
                and "valid empty output" in str(failure))
    if case.get("kind") == "split":
        return (case["adapter"] == "stream" and case["closing"] == "c" and case["n"] % case["limit"] == 0
                and ("not readable on its own" in str(failure) or "raw-byte concatenation" in str(failure)))
    return False


def _m_avro_flush_first(case, obs, failure):
    if case.get("kind") != "life" or case["adapter"] != "avro":
        return False
    h = case["hist"]
    i = _first_closing(h)
    pre = h[:i]
    return ("f" in pre and "w" in pre and pre.index("f") < pre.index("w")
            and ("on an open avro writer raised" in str(failure) or "hollow" in str(failure)))


MATCHERS = {"stream_closed_without_flush_or_records": _m_stream_close_without_flush,
            "avro_flush_before_first_write": _m_avro_flush_first}
