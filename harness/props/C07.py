"""C07 — both selector engines compute the Python meaning of the expression.

A case is one expression generated from the documented grammar (type-directed, so that most sub-expressions are
well-typed) and four records: three of the matching shape with different values and one of a non-matching shape
(some referenced fields absent). On every record the expression is evaluated by
  * the interpreted engine  Selector(expr).match(rec)
  * the compiled engine     CompiledSelector(expr).match(rec)
  * the reference           CPython eval of the same source over a plain namespace (r = the record itself, so a
                            missing field is an AttributeError; helpers = the library's own functions; `Type` = an
                            independent 25-line implementation of the documented typed-matcher meaning).
Oracle (real code only): whenever the reference yields a value, both engines yield a value with the same truth
value; three-way vote. Model (compare): interpMatch / compiledMatch with the concrete Prim must return exactly the
interpreted / compiled engine's value or exception class on every record.
"""
import warnings

from harness import selector_ast as SA

ID = "C07"
CLAIM = dict(
    text="Kernel-checked theorem, by induction on the evaluation over expressions of unbounded depth and width and for "
         "every semantics of the Python primitives: for every supported expression the interpreter model (a branch-by-"
         "branch transcription of RecordContextMatcher._eval whose operators are looked up in the tables generated "
         "from the current source) returns exactly the reference (Python) result — value or exception — whenever that "
         "result is not `undefined` (missing attribute / sentinel in arithmetic or membership / typed matcher on the "
         "left of `in`) or a NoneType TypeError; namespace and record are restored. Inst: generated operator tables = "
         "documented ones, same primitive per operator; unsupported node classes and operators are rejected. The "
         "compiled engine (Python eval in the compiled namespace with the wrapped record) is proved equal to the same "
         "reference on the grammar restricted to the names both namespaces bind, hence both engines agree. Tie: "
         "translator + generated expressions x records, model compared with both real engines, three-way vote with "
         "CPython eval as oracle.",
    note="partial: `Supported` admits generator expressions only as the sole argument of any/all with one `for` "
         "clause and a fresh variable; the compiled-engine theorem excludes field-type constructors and `fields` "
         "(not bound in the compiled namespace); floats, `/`, field_regex, str/repr of non-builtin "
         "values are opaque or unmodelled in the concrete Prim; typed matcher on the left of in/not in is a known "
         "finding (engines disagree).",
    technique="Lean 4 structural-induction theorem over an executable interpreter model + three-way differential oracle",
    design="8/C07")
RULE = ("expression = random derivation of the typed grammar (bool/int/str/list/float productions over constants, "
        "record fields, arithmetic + * / % & |, comparisons incl. chained, in/not in, is None, not/and/or incl. "
        "and/or in operand position, lists, tuples, helpers lower upper name names has_field field_contains "
        "field_equals str, any/all generator expressions with conditions, typed matchers, net constructors), depth <= 4 "
        "quick, <= 7 thorough; x 4 records (3 matching shape, 1 non-matching). Non-trivial = the results on the "
        "records are not all the same (the condition is non-constant); the share is reported in the distribution as "
        "nonconstant / constant. Distinct by hash of the case.")
TRUSTED = ["CPython's eval as the reference for expressions without typed matchers; the 25-line RefType for typed matchers"]
ASSUMPTIONS = ["field values are the builtin-like field types generated here (string, varint, boolean, float, bytes, "
               "lists, nested record); other field types are exercised by C08's table"]
EXPLANATION = "seeded generation; nothing is enumerated completely"


def EXHAUSTIVE(tier):
    return False


def WORKERS(tier):
    return 1 if tier == "quick" else 8


# ---- records -------------------------------------------------------------------------------------------------

STRS = ["abc", "", "ABC", "b", "xabcx", "Zz", "a b", "10", "a  b", "x\ty"]
INTS = [0, 1, 5, 100, -3, 7, 2, 255]
FLOATS = [1.5, 0.0, -2.25, 100.0]
BYTES = ["7879", "", "78"]


def gen_record(r, shape):
    """matching shape: all fields; non-matching: some fields absent (the expression may reference them)."""
    # two levels of nesting: a typed matcher has to look into records inside records (r.sub.deep.z)
    deep = {"name": "t/deep", "fields": [["string", "z", r.choice(STRS)], ["varint", "w", r.choice(INTS)]]}
    sub = {"name": "t/sub", "fields": [["string", "q", r.choice(STRS)], ["varint", "m", r.choice(INTS)],
                                       ["record", "deep", deep]]}
    fields = [
        ["string", "s", r.choice(STRS + [None])], ["string", "t", r.choice(STRS)],
        ["varint", "n", r.choice(INTS + [None])], ["varint", "m", r.choice(INTS)],
        ["boolean", "b", r.choice([True, False, None])], ["float", "f", r.choice(FLOATS)],
        ["bytes", "y", r.choice(BYTES)], ["string[]", "l", r.choice([["a", "b"], [], ["abc"], ["b", "B", "abc"]])],
        ["varint[]", "k", r.choice([[1, 2, 3], [], [5], [100, 7]])], ["record", "sub", sub],
        ["path", "p", r.choice(["/tmp/x", "rel/y", "/tmp/X"])], ["net.ipaddress", "ip", r.choice(["1.2.3.4", "::1", "10.0.0.1"])],
    ]
    if shape == "nonmatching":
        drop = set(r.sample([f[1] for f in fields], r.randint(1, 4)))
        fields = [f for f in fields if f[1] not in drop]
        # half of the time under the SAME type name as the full layout (another version of the record type)
        return ["t/main" if r.chance(50) else "t/other", fields]
    return ["t/main", fields]


# ---- the grammar ---------------------------------------------------------------------------------------------

class G:
    def __init__(self, r, maxd):
        self.r = r
        self.maxd = maxd
        self.vars = 0
        self.tm_in = False

    def const_int(self):
        return str(self.r.choice([0, 1, 2, 3, 5, 7, 100, 255]))

    def const_str(self):
        return repr(self.r.choice(STRS + ["a", "B", "x"]))

    def int_(self, d, env=()):
        r = self.r
        ivars = [v for v, t in env if t == "int"]
        if d <= 0 or r.chance(35):
            return r.weighted([(3, "r.n"), (2, "r.m"), (3, self.const_int()), (1, "r.sub.m"), (1, "r.sub.deep.w")]
                              + ([(4, r.choice(ivars))] if ivars else []))
        w = r.below(10)
        if w < 5:
            return f"({self.int_(d - 1, env)} {r.choice(['+', '*', '%', '&', '|', '+', '*'])} {self.int_(d - 1, env)})"
        if w < 7:
            return f"({self.int_(d - 1, env)} {r.choice(['or', 'and'])} {self.int_(d - 1, env)})"
        if w < 8:
            return f"({self.bool_(d - 1, env)} {r.choice(['+', '*'])} {self.int_(d - 1, env)})"
        return self.int_(d - 1, env)

    def str_(self, d, env=()):
        r = self.r
        svars = [v for v, t in env if t == "str"]
        if d <= 0 or r.chance(35):
            return r.weighted([(3, "r.s"), (2, "r.t"), (3, self.const_str()), (1, "r.sub.q"), (1, "r.sub.deep.z")]
                              + ([(4, r.choice(svars))] if svars else []))
        w = r.below(10)
        if w < 3:
            return f"{r.choice(['lower', 'upper'])}({self.str_(d - 1, env)})"
        if w < 5:
            return f"({self.str_(d - 1, env)} + {self.str_(d - 1, env)})"
        if w < 6:
            return f"({self.str_(d - 1, env)} * {r.choice(['0', '1', '2'])})"
        if w < 7:
            return f"({self.str_(d - 1, env)} {r.choice(['or', 'and'])} {self.str_(d - 1, env)})"
        if w < 8:
            return f"str({self.int_(d - 1, env)})"
        if w < 9:
            return "name(r)"
        return self.str_(d - 1, env)

    def list_(self, d, env=(), of="str"):
        r = self.r
        w = r.below(10)
        elem = self.str_ if of == "str" else self.int_
        if w < 3:
            return "r.l" if of == "str" else "r.k"
        if w < 7 or d <= 0:
            n = r.randint(0, 3)
            return "[" + ", ".join(elem(d - 1, env) for _ in range(n)) + "]"
        if w < 9:
            n = r.randint(1, 3)
            return "(" + ", ".join(elem(d - 1, env) for _ in range(n)) + ",)"
        return f"({self.list_(d - 1, env, of)} + {self.list_(0, env, of)})" if r.chance(50) else \
            ("r.l" if of == "str" else "r.k")

    def num_(self, d, env=()):
        r = self.r
        if r.chance(70):
            return self.int_(d, env)
        return r.choice(["r.f", "1.5", "0.5", f"({self.int_(d - 1, env)} / {r.choice(['2', '4', 'r.m', '3'])})"])

    def cmp_op(self):
        return self.r.choice(["==", "!=", "<", ">", "<=", ">=", "==", "<"])

    def bool_(self, d, env=()):
        r = self.r
        if d <= 0:
            return self.atom_bool(0, env)
        w = r.below(100)
        if w < 22:
            return self.atom_bool(d, env)
        if w < 36:
            k = r.randint(2, 3)
            return "(" + f" {r.choice(['and', 'or'])} ".join(self.bool_(d - 1, env) for _ in range(k)) + ")"
        if w < 44:
            return f"(not {self.bool_(d - 1, env)})"
        if w < 52:  # chained comparison
            a, b, c = self.num_(d - 1, env), self.num_(d - 1, env), self.num_(d - 1, env)
            return f"({a} {self.cmp_op()} {b} {self.cmp_op()} {c})"
        if w < 62:  # generator expressions
            self.vars += 1
            v = "x%d" % self.vars
            of = r.choice(["str", "int"])
            it = self.list_(d - 1, env, of)
            env2 = tuple(env) + ((v, of),)
            elt = self.bool_(d - 1, env2)
            cond = f" if {self.bool_(d - 2, env2)}" if r.chance(35) else ""
            if cond and r.chance(40):
                cond += f" if {self.bool_(d - 2, env2)}"        # several filters on one `for` clause: all of them apply
            return f"{r.choice(['any', 'all'])}({elt} for {v} in {it}{cond})"
        if w < 68:  # BoolOp in operand position
            return f"(({self.int_(d - 1, env)} {r.choice(['or', 'and'])} {self.const_int()}) {self.cmp_op()} {self.int_(d - 1, env)})"
        if w < 74:
            return f"({self.str_(d - 1, env)} {r.choice(['in', 'not in'])} {self.str_(d - 1, env)})"
        if w < 80:
            of = r.choice(["str", "int"])
            e = self.str_(d - 1, env) if of == "str" else self.int_(d - 1, env)
            return f"({e} {r.choice(['in', 'not in'])} {self.list_(d - 1, env, of)})"
        if w < 84:
            return self.helper_bool(d, env)
        if w < 86:
            return self.ctor_bool()
        if w < 93:
            return self.typed(d, env)
        if w < 96:
            return f"({self.list_(d - 1, env, r.choice(['str', 'int']))} {r.choice(['==', '!='])} {self.list_(d - 1, env, r.choice(['str', 'int']))})"
        return f"{r.choice(['any', 'all'])}([{self.bool_(d - 1, env)}, {self.bool_(d - 1, env)}])"

    def atom_bool(self, d, env=()):
        r = self.r
        w = r.below(12)
        if w < 4:
            return f"({self.num_(d - 1, env)} {self.cmp_op()} {self.num_(d - 1, env)})"
        if w < 7:
            return f"({self.str_(d - 1, env)} {self.cmp_op()} {self.str_(d - 1, env)})"
        if w < 8:
            return r.choice(["r.b", "r.s", "r.n", "r.l", "True", "False", "None", "r.y"])
        if w < 9:
            return f"({r.choice(['r.s', 'r.n', 'r.b'])} {r.choice(['is', 'is not'])} None)"
        if w < 10:
            return f"(r.y {r.choice(['==', '!=', '<'])} {r.choice([repr(b'xy'), repr(b''), repr(b'x')])})"
        if w < 11:
            return f"({self.str_(d - 1, env)} in {self.str_(d - 1, env)})"
        return f"({self.int_(d - 1, env)} {self.cmp_op()} {self.const_int()})"

    def helper_bool(self, d, env):
        r = self.r
        w = r.below(6)
        if w == 0:
            return f"has_field(r, {r.choice(['\"s\"', '\"nosuch\"', '\"n\"', '\"sub\"'])})"
        if w == 1:
            return f"(name(r) == {r.choice(['\"t/main\"', '\"t/other\"', '\"x\"'])})"
        if w == 2:
            return f"({r.choice(['\"t/main\"', '\"t/x\"'])} in names(r))"
        if r.chance(25):
            # fields that are not plain text: a path, an address (equal to its text form), a list, a number
            fields = r.choice(["['p']", "['ip']", "['l']", "['n', 's']", "['ip', 'p', 'nosuch']", "['l', 't']"])
            strs = r.choice(["['/tmp/x']", "['1.2.3.4']", "['a']", "['::1', 'abc']", "['10.0.0.1', '/tmp/X']", "['5']"])
            kw = r.choice(["", ", nocase=False"])
            return f"field_equals(r, {fields}, {strs}{kw})"
        if r.chance(15):
            return f"field_regex(r, {r.choice(['[\'s\']', '[\'s\', \'t\']', '[\'t\', \'nosuch\']'])}, {r.choice(['\'a.c\'', '\'^b\'', '\'B|x\'', '\'abc\''])})"
        fields = r.choice(["['s']", "['s', 't']", "['t', 'nosuch']", "['nosuch']", "('s',)"])
        strs = "[" + ", ".join(self.const_str() for _ in range(r.randint(1, 2))) + "]"
        kw = r.choice(["", "", ", nocase=False", ", nocase=True"])
        helper = r.choice(['field_contains', 'field_equals'])
        if helper == "field_contains" and r.chance(30):
            kw += ", word_boundary=True"       # whole-word matches only (a separate code path of the helper)
        return f"{helper}(r, {fields}, {strs}{kw})"

    def ctor_bool(self):
        """field-type constructors called inside the expression, under every whitelisted spelling"""
        r = self.r
        N = r.choice(["net.ipnetwork", "net.IPNetwork"])
        A = r.choice(["net.ipaddress", "net.IPAddress"])
        net_ = r.choice(["1.2.0.0/16", "10.0.0.0/8", "::/0", "0.0.0.0/0", "1.2.3.4/32", "::1/128"])
        addr = r.choice(["1.2.3.4", "::1", "10.0.0.1", "10.255.0.9"])
        w = r.below(6)
        if w == 0:
            return f"(r.ip {r.choice(['in', 'not in'])} {N}('{net_}'))"
        if w == 1:
            return f"(r.ip {r.choice(['==', '!='])} {A}('{addr}'))"
        if w == 2:
            return f"({A}('{addr}') {r.choice(['in', 'not in'])} {N}('{net_}'))"
        if w == 3:
            return f"({N}('{r.choice(['10.1.0.0/16', '1.2.3.0/24', '10.0.0.0/8'])}') in {N}('{net_}'))"
        if w == 4:
            return (f"(net.ipv4.Address('{r.choice(['1.2.3.4', '10.0.0.1', '0.0.0.0'])}') in "
                    f"net.ipv4.Subnet('{r.choice(['1.2.0.0/16', '10.0.0.0/8', '1.2.3.4/32', '1.2.3.4'])}'))")
        return f"('{addr}' in {N}('{net_}'))"

    def typed(self, d, env):
        r = self.r
        if r.chance(30):
            # attribute matchers `Type.<type>.<attr>`: the attribute is read from every field of that type, also inside
            # nested records (r.sub.m); chosen so that top-level fields rarely decide the answer alone
            a = r.choice(["imag", "denominator", "real", "numerator", "nosuch", "imag", "denominator"])
            if r.chance(20):
                return f"(Type.string.{r.choice(['upper', 'nosuch'])} {r.choice(['==', '!='])} {self.const_str()})"
            if r.chance(25):
                return f"({self.const_int()} {self.cmp_op()} Type.varint.{a})"
            return f"(Type.varint.{a} {self.cmp_op()} {self.const_int()})"
        w = r.below(8)
        if w < 3:
            return f"(Type.string {self.cmp_op()} {self.const_str()})"
        if w < 5:
            return f"(Type.varint {self.cmp_op()} {self.const_int()})"
        if w < 6:
            return f"({self.const_str()} in Type.string)"
        if w < 7:
            return f"({self.const_int()} {self.cmp_op()} Type.varint)"
        self.tm_in = True  # known finding: the engines disagree on a typed matcher left of in / not in
        return f"(Type.{r.choice(['varint', 'string'])} {r.choice(['in', 'not in'])} {self.list_(0, env, 'int')})"


def gen_cases(rng, tier):
    n = {"quick": 4000, "thorough": 40000, "search": 8000}[tier]
    maxd = {"quick": 4, "thorough": 7, "search": 5}[tier]
    cases = []
    r = rng.fork("expr")
    rr = rng.fork("rec")
    for i in range(n):
        d = r.randint(1, maxd) if tier != "quick" else r.randint(1, 4)
        g = G(r, d)
        src = g.bool_(d) if r.chance(85) else r.choice([g.int_(d), g.str_(d), g.list_(d)])
        recs = [gen_record(rr, "matching") for _ in range(3)] + [gen_record(rr, "nonmatching")]
        c = {"src": src, "records": recs, "depth": d}
        if g.tm_in:
            c["family"] = "tmatch_in"
        cases.append(c)
    # typed matchers over records of two types of ONE name whose identifiers (name + 32-bit hash over the unseparated
    # field names and types) coincide: which fields a type has is a matter of the record at hand
    for src in ["Type.varint == 7", "Type.string == 'abc'", "Type.varint > 3 or Type.string == 'abc'", "7 == Type.varint",
                "'abc' in Type.string", "Type.varint.real == 7"]:
        a = lambda s_, n_: ["t/col", [["string", "a", s_], ["varint", "b", n_]]]       # noqa: E731
        b = lambda n_: ["t/col", [["varint", "astringb", n_]]]                          # noqa: E731
        for recs in ([a("abc", 1), b(7), a("x", 7), b(1)], [b(7), a("abc", 7), b(7), a("q", 2)]):
            cases.append({"src": src, "records": recs, "depth": 1})
    # several `if` filters on one `for` clause, and two generator expressions that reuse one loop variable
    for src in ["any(x > 2 for x in r.k if x < 5 if x != 3)", "all(x != 5 for x in r.k if x > 1 if x < 100)",
                "any(x == 'b' for x in r.l if x != 'a' if x != 'B' if len(x) < 2)", "any(x == 1 for x in r.k) and any(x == 3 for x in r.k)",
                "any(x == 5 for x in r.k) or any(x == 100 for x in r.k) or any(x == 7 for x in r.k)",
                "any(x > 2 for x in r.k if x < 5 if x != 3) and any(x == 'abc' for x in r.l if x if x != 'b')"]:
        for _ in range(3):
            cases.append({"src": src, "records": [gen_record(rng.fork("multiif"), "matching") for _ in range(3)], "depth": 2})
    # one constructor called several times in ONE expression with arguments that are equal as Python objects but not the
    # same (1, 1.0, True): each call builds its own value
    for src in ["string(1) == '1' and string(1.0) == '1.0' and string(True) == 'True'",
                "string(True) == 'True' and string(1) == '1'", "string(0) == '0' and string(False) == 'False' and string(0.0) == '0.0'",
                "wstring(1.0) == '1.0' and wstring(1) == '1'", "[string(1), string(1.0), string(True)] == ['1', '1.0', 'True']",
                "varint(True) == 1 and string(varint(True)) == '1' and string(True) == 'True'"]:
        # (bare type constructors exist in the interpreted engine's language only: `interp_only`)
        cases.append({"src": src, "records": [gen_record(rng.fork("ctorseq"), "matching")], "depth": 1, "interp_only": True})
    # names that are not defined anywhere (not a field, helper or type) - among them proper PREFIXES of type names: Python
    # raises NameError; an engine may refuse, it may not make up a value
    for src in ["u", "dat", "strin", "var", "ne", "pa", "r.s == u", "r.n == 1 and dat", "not strin", "[ne, 1]", "foo", "r.s == x",
                "b", "boo", "fl", "uint"]:
        cases.append({"src": src, "records": [gen_record(ro_, "matching") for ro_ in [rng.fork("undef")] * 2], "depth": 1,
                      "undefined": True})
    # constructs OUTSIDE the documented language (subscripts, conditional expressions, comprehensions, dict/set displays,
    # lambdas) under and/or: the interpreted engine may refuse them, but it may not hand out a value that is not Python's
    ro = rng.fork("outlang")
    for src in ["r.l[0] == 'a' and r.n == 1", "r.n == 1 or r.l[0] == 'a'", "(1 if r.n else 0) and True",
                "[x for x in r.k] and True", "{'a': 1} and True", "{r.n} and r.t == r.t", "(lambda: 1) and True",
                "r.t == r.t and r.k[0] >= 0", "not (r.l[0] == 'a' and True)", "(r.s if r.b else r.t) == r.t or r.n == r.n"]:
        cases.append({"src": src, "records": [gen_record(ro, "matching") for _ in range(3)], "depth": 1, "outlang": True})
    return cases


# ---- reference -----------------------------------------------------------------------------------------------

class RefType:
    """The documented meaning of typed matchers: `Type.<type>[.<attr>…] <op> x` holds iff some field of that type —
    also inside nested records — satisfies the comparison."""

    def __init__(self, rec, parts=(), attrs=()):
        self._rec, self._parts, self._attrs = rec, tuple(parts), tuple(attrs)

    def __getattr__(self, a):
        from flow.record.whitelist import WHITELIST
        name = ".".join(self._parts)
        if name in WHITELIST:
            return RefType(self._rec, self._parts, self._attrs + (a,))
        return RefType(self._rec, self._parts + (a,), ())

    def _values(self, rec):
        from flow.record.base import Record
        name = ".".join(self._parts)
        for fname, fld in rec._desc.fields.items():
            v = getattr(rec, fname)
            if fld.typename == name:
                try:
                    for a in self._attrs:
                        v = getattr(v, a)
                    yield v
                except AttributeError:
                    pass
            elif isinstance(v, Record):
                yield from self._values(v)
            elif fld.typename == "record[]" and v:
                for x in v:
                    yield from self._values(x)

    def _cmp(self, f, other):
        return any(f(v, other) for v in self._values(self._rec))

    def __eq__(self, o): return self._cmp(lambda a, b: a == b, o)
    def __ne__(self, o): return self._cmp(lambda a, b: a != b, o)
    def __lt__(self, o): return self._cmp(lambda a, b: a < b, o)
    def __gt__(self, o): return self._cmp(lambda a, b: a > b, o)
    def __le__(self, o): return self._cmp(lambda a, b: a <= b, o)
    def __ge__(self, o): return self._cmp(lambda a, b: a >= b, o)
    def __contains__(self, o): return self._cmp(lambda a, b: b in a, o)
    __hash__ = None


# The documented meaning of the helper functions, written from their docstrings (NOT the library's code: a helper that
# both engines share can only be checked against an independent reference).
def _R_lower(s):
    return s.lower() if isinstance(s, str) else s


def _R_upper(s):
    return s.upper() if isinstance(s, str) else s


def _R_name(r):
    from flow.record.base import Record
    return r._desc.name if isinstance(r, Record) else "UnknownRecord"


def _R_names(r):
    from flow.record.base import GroupedRecord, Record
    if isinstance(r, GroupedRecord):
        return {m._desc.name for m in r.records}
    if isinstance(r, Record):
        return {r._desc.name}
    return ["UnknownRecord"]


def _R_get_type(o):
    return str(type(o))


def _R_has_field(r, field):
    return field in [n for n in r._desc.fields]


def _present(r, fields):
    for f in fields:
        try:
            yield getattr(r, f)
        except AttributeError:
            continue          # "Non existing fields on the Record object are skipped"


def _R_field_equals(r, fields, strings, nocase=True):
    want = [_R_lower(s) for s in strings] if nocase else list(strings)
    for v in _present(r, fields):
        v = _R_lower(v) if nocase else v
        for s in want:
            if s == v:
                return True
    return False


def _R_field_contains(r, fields, strings, nocase=True, word_boundary=False):
    import re as _re
    want = [_R_lower(s) for s in strings] if nocase else list(strings)
    for v in _present(r, fields):
        v = _R_lower(v) if nocase else v
        for s in want:
            if not word_boundary:
                if s in v:
                    return True
            else:
                if v is None:
                    if s is None:
                        return True
                    continue
                if isinstance(v, str) and _re.search("\\b{}\\b".format(_re.escape(s)), v) is not None:
                    return True
    return False


def _R_field_regex(r, fields, regex):
    import re as _re
    pat = _re.compile(regex)
    for v in _present(r, fields):
        if _re.search(pat, v) is not None:
            return True
    return False


REF_HELPERS = {"lower": _R_lower, "upper": _R_upper, "name": _R_name, "names": _R_names, "get_type": _R_get_type,
               "field_contains": _R_field_contains, "field_equals": _R_field_equals, "field_regex": _R_field_regex,
               "has_field": _R_has_field}


def _ref_namespace(rec):
    import flow.record.selector as sel
    from flow.record.fieldtypes import net
    ns = {f.__name__: f for f in sel.FUNCTION_WHITELIST}     # any helper added later keeps the library's meaning
    ns.update(REF_HELPERS)
    ns.update({"r": rec, "Type": RefType(rec), "net": net, "any": any, "all": all, "str": str, "repr": repr,
               "__builtins__": {}})
    return ns


def _res(fn):
    try:
        with warnings.catch_warnings():
            warnings.simplefilter("ignore")
            v = fn()
        try:
            t = bool(v)
        except Exception as e:  # truthiness itself raised
            return {"error": type(e).__name__}
        return {"value": SA.value_json(v), "truth": t}
    except Exception as e:
        return {"error": type(e).__name__, "msg": str(e)[:100]}


def run_real(case):
    from flow.record.selector import CompiledSelector, Selector
    try:
        code = compile(case["src"], "<ref>", "eval")
    except SyntaxError:
        return {"syntax_error": True}
    out = []
    isel, csel = Selector(case["src"]), CompiledSelector(case["src"])
    # the engines as make_selector() hands them out for the expression TEXT (what readers and rdump are given)
    from flow.record.selector import make_selector
    try:
        misel, mcsel = make_selector(case["src"]), make_selector(case["src"], True)
    except Exception:          # noqa: BLE001
        misel = mcsel = None
    for name, fields in case["records"]:
        rec = SA.build_record(name, fields)
        ns = _ref_namespace(rec)
        if case.get("interp_only"):
            from flow.record import fieldtypes as _ft
            ns.update({"string": _ft.string, "wstring": _ft.wstring, "varint": _ft.varint})
        out.append({"interpreted": _res(lambda: isel.match(rec)), "compiled": _res(lambda: csel.match(rec)),
                    "reference": _res(lambda: eval(code, ns))})
        if misel is not None:
            out[-1]["via_make"] = [_res(lambda: misel.match(rec)), _res(lambda: mcsel.match(rec))]
    return {"per_record": out}


def oracle(case, obs):
    if obs.get("syntax_error"):
        return None
    for i, o in enumerate(obs["per_record"]):
        ref = o["reference"]
        if "error" in ref and case.get("undefined") and ref["error"] == "NameError":
            for eng in ("interpreted", "compiled"):
                if "error" not in o[eng]:
                    return (f"`{case['src']}` on record {i}: the expression uses a name that is defined nowhere (Python: "
                            f"NameError) but the {eng} engine evaluates it to {o[eng]['value']}")
            continue
        if "error" in ref:
            continue  # some sub-expression is not defined on this record: no expectation
        for eng, via in (("interpreted", 0), ("compiled", 1)):
            vm = o.get("via_make")
            if vm and not (case.get("interp_only") and eng == "compiled"):
                a_, b_ = o[eng], vm[via]
                if ("error" in a_) != ("error" in b_) or a_.get("truth") != b_.get("truth"):
                    return (f"`{case['src']}` on record {i}: the {eng} engine built by make_selector() from the text answers "
                            f"{b_.get('value', b_.get('error'))}, the same engine built directly answers {a_.get('value', a_.get('error'))}")
        for eng in (("interpreted",) if case.get("interp_only") else ("interpreted", "compiled")):
            e = o[eng]
            if "error" in e and case.get("outlang") and eng == "interpreted":
                continue      # a refusal of a construct outside the language is fine; a wrong value is not
            if "error" in e:
                return (f"`{case['src']}` on record {i}: Python evaluation gives {ref['value']} but the {eng} engine "
                        f"raises {e['error']}: {e.get('msg', '')}")
            if e["truth"] != ref["truth"]:
                return (f"`{case['src']}` on record {i}: Python evaluation gives {ref['value']} (truth {ref['truth']}) "
                        f"but the {eng} engine gives {e['value']} (truth {e['truth']})")
    return None


def model_op(case, obs):
    if obs.get("syntax_error"):
        return None
    return {"op": "sel_eval_many", "expr": SA.expr_json(case["src"]),
            "records": [SA.record_json(SA.build_record(n, f)) for n, f in case["records"]], "fuel": 40}


UNMODELLED = {"n": 0, "total": 0}


def compare(case, obs, m):
    if "error" in m and "interpreted" not in m:
        return f"model error {m}"
    for eng in ("interpreted", "compiled"):
        for i, (o, mo) in enumerate(zip(obs["per_record"], m[eng])):
            real = o[eng]
            UNMODELLED["total"] += 1
            if mo.get("error") == "unmodelled":
                UNMODELLED["n"] += 1
                continue
            if "error" in real:
                if mo.get("error") != real["error"]:
                    return f"{eng} engine, record {i}: implementation raises {real['error']} ({real.get('msg')}), model gives {mo}"
            else:
                if "value" not in mo:
                    return f"{eng} engine, record {i}: implementation gives {real['value']}, model raises {mo.get('error')}"
                if SA.canon(mo["value"]) != SA.canon(real["value"]):
                    return f"{eng} engine, record {i}: value: model {mo['value']} vs implementation {real['value']}"
    return None


def _outcomes(obs):
    return [(o["interpreted"].get("truth"), o["interpreted"].get("error")) for o in obs["per_record"]]


def nontrivial(case, obs):
    if obs.get("syntax_error"):
        return False
    return len(set(_outcomes(obs))) > 1


def classify(case, obs):
    if obs.get("syntax_error"):
        return "syntax-error"
    outs = _outcomes(obs)
    b = ["nonconstant" if len(set(outs)) > 1 else "constant", f"depth:{case.get('depth')}"]
    refdef = sum(1 for o in obs["per_record"] if "error" not in o["reference"])
    b.append(f"reference-defined-on:{refdef}/4")
    for o in obs["per_record"][:3]:
        b.append("matching:" + (o["interpreted"].get("error") or str(o["interpreted"].get("truth"))))
    for kw in ("any(", "all(", "Type.", " in ", "field_", "lower(", " and ", " or ", "not ", " / ", "is "):
        if kw in case["src"]:
            b.append("uses:" + kw.strip())
    return b


def shrink(case):
    # fewer records first, then sub-expressions (parenthesised groups)
    if len(case["records"]) > 1:
        for i in range(len(case["records"])):
            c = dict(case)
            c["records"] = [case["records"][i]]
            yield c
    src = case["src"]
    depth = 0
    starts = []
    for i, ch in enumerate(src):
        if ch == "(":
            starts.append(i)
        elif ch == ")" and starts:
            j = starts.pop()
            sub = src[j + 1:i]
            if 2 < len(sub) < len(src) - 2 and not sub.startswith(("lambda", "for")):
                c = dict(case)
                c["src"] = sub
                yield c


# ---- known findings --------------------------------------------------------------------------------------------

def m_tmatch_membership_left(case, obs, failure):
    import re
    return case.get("family") == "tmatch_in" and bool(re.search(r"Type\.\w+(\.\w+)* (not in|in) ", case["src"]))


MATCHERS = {"typed_matcher_left_of_membership": m_tmatch_membership_left}
