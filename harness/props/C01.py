"""C01 — record stream round-trip preserves every record exactly.

oracle (real code only): deep observation of every record before writing == after reading (count, order, type name,
field list, values incl. class/kind, metadata) through RecordStreamWriter/Reader on file objects and RecordWriter/
RecordReader on paths (plain and .gz).
compare (model vs code): the bytes written equal Model.Stream.writeAll byte for byte; the model's reader run on the
implementation's bytes yields the same packed-level records; msgpack-level and UTF-8-level correspondences against
msgpack-python and CPython's codec.
"""
import io
import os
import shutil
import tempfile
import warnings

from .. import values as V
from .. import wire as W

ID = "C01"
CHECK_BUILT_DESCRIPTOR = True     # engine.oracle_of: declared records must carry their declared descriptor
CLAIM = dict(
    text="Kernel-checked: C01_stream_roundtrip - for EVERY admissible history of records and grouped records (any "
         "number, any interleaving of descriptors incl. colliding identifiers in separate objects, nesting to any depth, "
         "big integers, both timestamp encodings, text in the image of decode/surrogateescape) written by a fresh "
         "writer, the reader run over the BYTES returns exactly the records written, in order, each with its own "
         "descriptor, then ends cleanly; built from msgpack M1 (decode(encode v) = v, any depth and size class), "
         "the envelope layer R1 (records, nested records, grouped members, varint sign-magnitude), framing and the "
         "registry invariant; UTF-8/surrogateescape S1/S2; F1, the field-type layer: _unpack(_pack(v)) = v for every kind "
         "of field (text, integers, booleans, floats, bytes, digests via hex, paths, commands, addresses, networks, typed "
         "lists) and every well-formed value; C01_stream_roundtrip_failed_writes: the stream theorem for histories in "
         "which writes raise after any number of descriptor registrations and the caller carries on (the model's "
         "writeHist is compared byte for byte with the implementation on C03's failing-write histories). Tie: wire constants regenerated from packer.py/stream.py/"
         "base.py; the executable model writes the *same bytes* as RecordStreamWriter for every generated record "
         "sequence (all serialisable field types, scalar and list, nested and grouped) and reads the implementation's "
         "bytes to the same packed records; real-code oracle compares deep observations before write / after read.",
    note="partial: pathlib's normal form is a parameter of the field-layer theorem (its idempotence is exercised), "
         "ipaddress/shlex parsing happens at construction time and is outside it; CPython's UTF-8 codec / msgpack C "
         "extension are modelled and exercised by correspondence, not proved; text must be in the image of "
         "decode(surrogateescape); timestamps are C13's. Known findings: IPv6 addresses below 2^32 come back as IPv4; a "
         "digest given in upper-case hex comes back in lower case.",
    technique="Lean 4 induction over write histories, the msgpack value tree and field kinds + byte-exact "
              "model/implementation correspondence",
    design="8/C01")
RULE = ("record sequences (1-8 records, 1-3 descriptors over every serialisable whitelisted type in scalar and [] form, "
        "values from per-type boundary pools, nested record/record[] to depth 2, grouped records) written via file "
        "object / path / .gz path (a share of them under an active comparison-ignore configuration); field: every modelled "
        "field type (scalar and []) x generated values + upper-case digests, low IPv6 addresses, non-normal paths, commands "
        "through _pack / msgpack / _unpack; written via file "
        "object / path / .gz path; plus msgpack-level (mp) and utf-8 (utf8) value cases against msgpack-python / CPython. "
        "Non-trivial = a record sequence holding >=1 non-None value of a non-string type, or an mp/utf8 case outside "
        "ASCII/fixint; distinct by hash of the case.")
TRUSTED = ["msgpack-python C packer/unpacker and CPython's utf-8/surrogateescape codec (modelled, exercised)"]
ASSUMPTIONS = ["_generated is always supplied by the generator (no wall-clock time is compared)",
               "text fields are in the image of bytes.decode('utf-8','surrogateescape') (DESIGN 7.3)"]


def EXHAUSTIVE(tier):
    return False


# field types whose _pack/_unpack the Lean field layer (Model/FieldPack.lean) models, and the model's kind for each
FIELD_KINDS = {"string": "text", "wstring": "text", "uri": "text", "varint": "int", "uint16": "int", "uint32": "int",
               "filesize": "int", "unix_file_mode": "int", "net.tcp.Port": "int", "net.udp.Port": "int",
               "boolean": "bool", "float": "float", "bytes": "bytes", "digest": "digest", "path": "path",
               "command": "command", "net.ipaddress": "ip", "net.IPAddress": "ip", "net.ipnetwork": "ipnet",
               "net.IPNetwork": "ipnet"}


def kind_of(t):
    return ["list", FIELD_KINDS[t[:-2]]] if t.endswith("[]") else FIELD_KINDS[t]


def tval_of(v, t):
    """typed field value -> TVal JSON of the Lean field layer (what the property observes of the field)"""
    import pathlib
    import struct
    if v is None:
        return ["U"]
    if t.endswith("[]"):
        return ["L", [tval_of(x, t[:-2]) for x in v]]
    k = FIELD_KINDS[t]
    if k == "text":
        return ["T", V.enc_str(str.__str__(v))]
    if k == "int":
        return ["I", str(int(v))]
    if k == "bool":
        return ["B", bool(v)]
    if k == "float":
        return ["F", struct.pack(">d", float(v)).hex()]
    if k == "bytes":
        return ["Y", bytes(v).hex()]
    if k == "digest":
        return ["DG"] + [None if x is None else V.enc_str(x) for x in (v.md5, v.sha1, v.sha256)]
    if k == "path":
        return ["P", 1 if isinstance(v, pathlib.PureWindowsPath) else 0, V.enc_str(str(v))]
    if k == "command":
        fl = 1 if type(v).__name__ == "windows_command" else 0
        exe = None if v.executable is None else V.enc_str(str(v.executable))
        return ["C", fl, exe, [V.enc_str(a) for a in (v.args or [])]]
    if k == "ip":
        return ["IP", v.val.version, str(int(v.val))]
    if k == "ipnet":
        return ["NET", V.enc_str(str(v.val))]
    raise ValueError(t)


def gen_cases(rng, tier):
    n = {"quick": 250, "thorough": 6000, "search": 1200}[tier]
    cases = []
    r = rng.fork("records")
    for i in range(n):
        k = r.choice([1, 1, 2, 3, 5, 8])
        ndesc = r.randint(1, 3)
        descs = [V.gen_descspec(r) for _ in range(ndesc)]
        w = r.below(12)
        if w == 0:
            # same field list under names that differ only in '/' versus '_' (they map to one Python class name)
            base = V.gen_descspec(r, nfields=r.randint(1, 3))
            descs = [["fs/file_entry", base[1]], ["fs/file/entry", base[1]], ["fs_file/entry", base[1]]]
        elif w == 1:
            # the pair of descriptors whose (name, hash) identifiers coincide, and a same-name/different-fields pair
            descs = [["t/x", [["stringlist", "a"], ["string", "b"]]], ["t/x", [["string", "a"], ["string", "listb"]]],
                     ["t/y", [["string", "a"]]], ["t/y", [["varint", "a"]]]]
        recs = []
        if w == 2:
            # two groups of one name and one flattened field list, made of different member types (A(x)+B(y), then
            # C(x, y)); the member types may or may not have been written on the stream before
            fa, fb = [["string", "x"]], [["varint", "y"]]
            A, B, C = ["g/a", fa], ["g/b", fb], ["g/c", fa + fb]
            g1 = ["grouped", "grp/same", [V.gen_record(r, descspec=A), V.gen_record(r, descspec=B)]]
            g2 = ["grouped", "grp/same", [V.gen_record(r, descspec=C)]]
            recs = [g1, g2] if r.chance(50) else [g2, g1]
            if r.chance(40):
                recs.insert(r.randint(0, 2), V.gen_record(r, descspec=r.choice([A, B, C])))
        for _ in range(k):
            if r.chance(8) and len(recs) >= 0:
                # members of ONE group never include two different types of the same name (an object holding both
                # types of the identifier-colliding pair is C03's recorded finding, not C01's subject)
                by_name = {}
                for dsp in descs:
                    by_name.setdefault(dsp[0], dsp)
                members = [V.gen_record(r, descspec=by_name[r.choice(descs)[0]]) for _ in range(r.randint(1, 3))]
                recs.append(["grouped", r.choice(["grp/x", "g"]), members])
            else:
                recs.append(V.gen_record(r, descspec=r.choice(descs)))
        case = {"kind": "stream", "via": r.choice(["fileobj", "fileobj", "path", "gz"]), "records": recs}
        if case["via"] == "fileobj" and r.chance(20):
            case["behind"] = True
        if r.chance(15):
            # a comparison-ignore configuration is in force while the records are written and read (FLOW_RECORD_IGNORE /
            # set_ignored_fields_for_comparison): it concerns == and hash() only, never what is stored
            names = [n for s_ in recs if s_[0] == "rec" for _, n in s_[1][1]]
            case["ignore"] = r.choice([["_generated"], ["_source", "_classification"], names[:1] or ["x"],
                                       names + ["_generated", "_version"]])
        cases.append(case)
    # ---- timestamps that are EQUAL as Python objects (same instant) but differ in UTC offset, and wall clocks of one
    # zone that differ only in fold: each must come back with its own offset, whatever was packed before it
    c7 = [2021, 3, 4, 12, 30, 15, 123456]
    same = [["dt", c7, "utc", 0], ["dt", [2021, 3, 4, 14, 30, 15, 123456], ["fixed", 7200, 0], 0],
            ["dt", [2021, 3, 4, 7, 30, 15, 123456], ["fixed", -18000, 0], 0],
            ["dt", [2021, 3, 4, 13, 0, 15, 123456], ["fixed", 1800, 0], 0]]
    folds = [["dt", [2020, 10, 25, 2, 30, 0, 0], ["zone", "Europe/Amsterdam"], 0],
             ["dt", [2020, 10, 25, 2, 30, 0, 0], ["zone", "Europe/Amsterdam"], 1]]
    DD = ["t/dts", [["datetime", "a"], ["datetime", "b"], ["datetime[]", "l"]]]
    GENM = {"_generated": ["dt", [2020, 1, 1, 0, 0, 0, 0], "utc", 0]}
    for group in (same, list(reversed(same)), folds, list(reversed(folds))):
        recs = [["rec", DD, [group[i % len(group)], group[(i + 1) % len(group)], ["list", list(group)]], dict(GENM)]
                for i in range(len(group))]
        for via in ("fileobj", "path"):
            cases.append({"kind": "stream", "via": via, "records": recs})
    # ---- second generation: records read from a stream are edited IN PLACE (a field assigned, a digest's hashes
    # set, an element appended to a list) and written again: the second stream holds the edited records
    r = rng.fork("regen")
    RG = ["t/regen", [["digest", "d"], ["digest[]", "dl"], ["string", "s"], ["path[]", "pl"], ["varint", "n"],
                      ["net.ipaddress", "ip"], ["string[]", "sl"]]]
    MD5S = ["d41d8cd98f00b204e9800998ecf8427e", "900150983cd24fb0d6963f7d28e17f72", "0cc175b9c0f1b6a831c399e269772661"]
    SHA1S = ["da39a3ee5e6b4b0d3255bfef95601890afd80709", "a9993e364706816aba3e25717850c26c9cd0d89d"]
    SHA256S = ["e3b0c44298fc1c149afbf4c8996fb92427ae41e4649b934ca495991b7852b855",
               "ba7816bf8f01cfea414140de5dae2223b00361a396177a9cb410ff61f20015ad"]

    def _dg():
        return ["digest", [r.choice(MD5S + [None]), r.choice(SHA1S + [None]), r.choice(SHA256S + [None])]]
    for _ in range({"quick": 30, "thorough": 400, "search": 120}[tier]):
        recs = []
        for _ in range(r.randint(1, 3)):
            recs.append(["rec", RG, [_dg(), ["list", [_dg() for _ in range(r.randint(0, 2))]], V.S(V.gen_text(r)),
                                     ["list", [["path", "posix", V.enc_str("/a/b")]] * r.randint(0, 2)], V.I(r.below(1000)),
                                     ["ip", r.choice(["10.0.0.1", "2001:db8::1"])], ["list", [V.S("x")] * r.randint(0, 2)]],
                         {"_generated": V.gen_dt_spec(r, tzkinds=("utc",), fold_ok=False)}])
        mods = []
        for _ in range(r.randint(1, 4)):
            i = r.below(len(recs))
            w = r.below(8)
            if w < 3:
                mods.append([i, "digest", "d", None, r.choice(["md5", "sha1", "sha256"])])
            elif w == 3:
                mods.append([i, "digest", "dl", 0, r.choice(["md5", "sha1", "sha256"])])
            elif w == 4:
                mods.append([i, "set", r.choice(["s", "n", "ip", "d"])])
            elif w == 5:
                mods.append([i, "append", "pl", ["path", "posix", V.enc_str("/x/" + str(r.below(9)))]])
            elif w == 6:
                mods.append([i, "append", "sl", V.S(V.gen_text(r))])
            else:
                mods.append([i, "append", "dl", _dg()])
        for m in mods:
            if m[1] == "digest":
                m.append(r.choice({"md5": MD5S, "sha1": SHA1S, "sha256": SHA256S}[m[4]] + [None]))
            elif m[1] == "set":
                m.append({"s": V.S(V.gen_text(r)), "n": V.I(r.below(10 ** 6)), "ip": ["ip", r.choice(["192.168.1.1", "fe80::1"])],
                          "d": _dg()}[m[2]])
        cases.append({"kind": "stream", "via": r.choice(["fileobj", "path"]), "records": recs, "regen": mods})
    # a write that FAILS (the record cannot be serialised) as the first record of its type, caught by the producer who
    # carries on: every record written afterwards is read back
    r = rng.fork("prefail")
    PF = ["t/pf", [["string", "s"], ["varint", "n"], ["dictlist", "d"]]]
    for _ in range({"quick": 10, "thorough": 150, "search": 30}[tier]):
        good = [["rec", PF, [V.S(V.gen_text(r)), V.I(r.below(1000)), ["list", []]],
                 {"_generated": V.gen_dt_spec(r, tzkinds=("utc",), fold_ok=False)}] for _ in range(r.randint(1, 3))]
        other = [V.gen_record(r, nfields=2) for _ in range(r.randint(0, 1))]
        cases.append({"kind": "stream", "via": r.choice(["fileobj", "path"]), "records": other + good,
                      "prefail": {"at": len(other), "how": r.choice(["surrogate", "unpackable"])}})
    r = rng.fork("rewrite")
    GA = ["g/a", [["string", "x"], ["varint", "n"]]]
    GB = ["g/b", [["string", "y"], ["string[]", "tags"]]]
    for _ in range({"quick": 12, "thorough": 200, "search": 40}[tier]):
        mk = lambda ds, vals: ["rec", ds, vals, {"_generated": V.gen_dt_spec(r, tzkinds=("utc",), fold_ok=False)}]  # noqa: E731
        grp = ["grouped", "grp/rw", [mk(GA, [V.S(V.gen_text(r)), V.I(r.below(99))]), mk(GB, [V.S("y0"), ["list", [V.S("t")]]])]]
        plain = mk(GA, [V.S("p"), V.I(1)])
        recs = [grp, plain] if r.chance(50) else [plain, grp]
        gi = recs.index(grp)
        mods = [r.choice([[gi, "member_set", "y", 1, V.S(V.gen_text(r))], [gi, "member_set", "n", 0, V.I(r.below(10 ** 6))],
                          [gi, "member_set", "x", 0, V.S("edited")]]) for _ in range(r.randint(1, 2))]
        if r.chance(40):
            mods.append([1 - gi, "set", "x", V.S("plain-edited")])
        cases.append({"kind": "stream", "via": "fileobj", "records": recs, "rewrite": mods})
    # ---- the field-type layer on its own: value -> _pack() -> msgpack round trip -> _unpack()
    r = rng.fork("field")
    for t in sorted(FIELD_KINDS):
        for form in (t, t + "[]"):
            if form.endswith("[]") and t not in V.LISTABLE:
                continue
            for _ in range({"quick": 3, "thorough": 40, "search": 10}[tier]):
                cases.append({"kind": "field", "type": form, "value": V.gen_value(r, form, none_chance=5)})
    MD5, SHA1 = "d41d8cd98f00b204e9800998ecf8427e", "da39a3ee5e6b4b0d3255bfef95601890afd80709"
    for spec in [["digest", [MD5.upper(), None, None]], ["digest", [MD5[:16] + MD5[16:].upper(), SHA1.upper(), None]],
                 ["digest", [None, None, None]], ["digest", [MD5, SHA1, None]]]:
        cases.append({"kind": "field", "type": "digest", "value": spec})
    for txt in ["::1", "::ffff:1.2.3.4", "0.0.0.1", "::", "255.255.255.255", "::1:0:0", "1::"]:
        cases.append({"kind": "field", "type": "net.ipaddress", "value": ["ip", txt]})
    for fl, txt in [("posix", "a//b/./c/"), ("posix", "/"), ("posix", "."), ("posix", ""), ("windows", "C:/x\\y/"),
                    ("windows", "c:"), ("windows", "\\\\srv\\share\\f"), ("posix", "//net/x"), ("windows", "a/b")]:
        cases.append({"kind": "field", "type": "path", "value": ["path", fl, V.enc_str(txt)]})
    for fl, txt in [("posix", "/bin/ls -l '/tmp/a b'"), ("posix", "ls"), ("windows", "C:\\Win\\cmd.exe /c dir"),
                    ("windows", "'c:\\Program Files\\x.exe' /s"), ("posix", "a//b -x")]:
        cases.append({"kind": "field", "type": "command", "value": ["cmd", fl, V.enc_str(txt)]})
    # per-type focused sequences: one field, boundary pool swept
    r = rng.fork("types")
    for t in V.SERIALISABLE:
        for form in (t, t + "[]"):
            if form.endswith("[]") and t not in V.LISTABLE:
                continue
            ds = ["t/one", [[form, "v"]]]
            reps = {"quick": 2, "thorough": 20, "search": 6}[tier]
            for _ in range(reps):
                recs = [["rec", ds, [V.gen_value(r, form)], V.gen_meta(r)] for _ in range(4)]
                cases.append({"kind": "stream", "via": "fileobj", "records": recs})
    # msgpack level
    r = rng.fork("mp")
    for _ in range(n // 2):
        cases.append({"kind": "mp", "v": gen_mp(r, 0)})
    r = rng.fork("utf8")
    for _ in range(n // 3):
        if r.chance(50):
            cases.append({"kind": "utf8dec", "hex": gen_bytes_utf8ish(r).hex()})
        else:
            s = V.gen_text(r)
            if r.chance(20):
                s += chr(r.choice([0xD800, 0xDBFF, 0xDC00, 0xDC7F, 0xDC80, 0xDCFF, 0xDD00, 0xDFFF, 0x10FFFF, 0xFFFF]))
            cases.append({"kind": "utf8enc", "s": V.enc_str(s)})
    return cases


def gen_bytes_utf8ish(r):
    out = bytearray()
    for _ in range(r.randint(0, 8)):
        w = r.below(8)
        if w < 3:
            out += chr(r.choice([0x41, 0xE9, 0x7FF, 0x800, 0xFFFF, 0x10000, 0x10FFFF, 0xD7FF, 0xE000])).encode("utf-8")
        elif w < 6:
            out += bytes([r.choice([0x80, 0xBF, 0xC0, 0xC1, 0xC2, 0xDF, 0xE0, 0xED, 0xEF, 0xF0, 0xF4, 0xF5, 0xFF, 0xA0,
                                    0x9F, 0x90, 0x8F, 0x28])])
        else:
            out += r.bytes(r.randint(1, 3))
    return bytes(out)


def gen_mp(r, depth):
    w = r.below(12 if depth < 3 else 8)
    if w == 0:
        return ["nil"]
    if w == 1:
        return ["b", bool(r.below(2))]
    if w in (2, 3):
        return ["i", str(V.gen_int(r, -2 ** 63, 2 ** 64 - 1))]
    if w == 4:
        return ["f64", r.choice(V.FLOAT_BITS)]
    if w in (5, 6):
        n = r.choice([0, 1, 31, 32, 255, 256, 300, 65535, 65536])
        return [r.choice(["s", "y"]), (b"a" * n).hex()]
    if w == 7:
        n = r.choice([1, 2, 4, 8, 16, 0, 3, 17, 255, 256, 65536])
        return ["x", r.choice([14, 0, 1, 127, 64, 13]), r.bytes(n).hex()]  # ExtType codes are 0..127 (negative ones are reserved, -1 = Timestamp)
    if w in (8, 9):
        n = r.choice([0, 1, 2, 15, 16, 17]) if depth < 2 else r.choice([0, 1, 2])
        return ["a", [gen_mp(r, depth + 1) for _ in range(n)]]
    n = r.choice([0, 1, 2, 15, 16]) if depth < 2 else r.choice([0, 1])
    flat = []
    for i in range(n):
        flat += [["s", ("k%d" % i).encode().hex()], gen_mp(r, depth + 1)]
    return ["m", flat]


def mv_to_py(m):
    import msgpack
    import struct
    t = m[0]
    if t == "nil":
        return None
    if t == "b":
        return m[1]
    if t == "i":
        return int(m[1])
    if t == "f64":
        return struct.unpack(">d", bytes.fromhex(m[1]))[0]
    if t == "s":
        return bytes.fromhex(m[1]).decode("utf-8", "surrogateescape")
    if t == "y":
        return bytes.fromhex(m[1])
    if t == "a":
        return [mv_to_py(x) for x in m[1]]
    if t == "m":
        return {mv_to_py(m[1][i]): mv_to_py(m[1][i + 1]) for i in range(0, len(m[1]), 2)}
    if t == "x":
        code = m[1] if m[1] < 128 else m[1] - 256
        return msgpack.ExtType(code, bytes.fromhex(m[2]))
    raise ValueError(t)


def _errname(e):
    return type(e).__name__


def run_real(case):
    k = case["kind"]
    if k == "mp":
        import msgpack
        v = mv_to_py(case["v"])
        data = msgpack.packb(v, use_bin_type=True, unicode_errors="surrogateescape")
        back = msgpack.unpackb(data, raw=False, unicode_errors="surrogateescape", use_list=False,
                               strict_map_key=False)
        return {"hex": data.hex(), "back": W.py_to_mv(back), "orig": W.py_to_mv(v)}
    if k == "utf8dec":
        bs = bytes.fromhex(case["hex"])
        return {"s": V.enc_str(bs.decode("utf-8", "surrogateescape"))}
    if k == "utf8enc":
        s = V.dec_str(case["s"])
        try:
            return {"hex": s.encode("utf-8", "surrogateescape").hex()}
        except UnicodeEncodeError:
            return {"res": "encode-error"}
    if k == "field":
        from flow.record import RecordPacker
        from flow.record.base import fieldtype
        t = case["type"]
        cls = fieldtype(t)
        with warnings.catch_warnings():
            warnings.simplefilter("ignore")
            raw = V.build(case["value"])
            v = raw if raw is None or isinstance(raw, cls) else cls(raw)
            if v is None:
                return {"before": ["none"], "after": ["none"], "tval": ["U"], "packed": ["N"], "tback": ["U"]}
            packed = v._pack()
            p = RecordPacker()
            wire = p.unpack(p.pack(packed))          # what msgpack hands back (tuples for lists)
            try:
                back = cls._unpack(wire)
                if back is not None and not isinstance(back, cls):
                    back = cls(back)         # Record.__setattr__ (called by the generated __init__) coerces what _unpack returns
                after, tback, err = V.observe(back), tval_of(back, t), None
            except Exception as e:
                after, tback, err = None, None, _errname(e) + ": " + str(e)[:100]
        return {"before": V.observe(v), "after": after, "tval": tval_of(v, t), "packed": W.to_pv(packed), "tback": tback,
                "error": err}
    # ---- stream
    from flow.record import RecordReader, RecordStreamReader, RecordStreamWriter, RecordWriter

    with warnings.catch_warnings():
        warnings.simplefilter("ignore")
        recs, before = [], []
        for s in case["records"]:
            rec = V.build(s)
            recs.append(rec)
            before.append(V.observe(rec))       # observed at creation time, before any later descriptor exists
        spec_sig = [[s[1][0], s[1][1]] if s[0] == "rec" else ["grouped", s[1]] for s in case["records"]]
        pvs = [W.to_pv(r) for r in recs]
        hashes = []
        for r in recs:
            W.all_descs(r, hashes)
        d = None
        import flow.record.base as _B
        _saved_ignore = set(_B.IGNORE_FIELDS_FOR_COMPARISON)
        if case.get("ignore"):
            _B.set_ignored_fields_for_comparison(list(case["ignore"]))
        try:
            if case["via"] == "fileobj":
                buf = io.BytesIO()
                w = RecordStreamWriter(buf)
                _write_all(w, recs, case)
                w.flush()
                data = buf.getvalue()
                w.fp = None  # keep the BytesIO out of __del__'s close()
                if case.get("behind"):
                    # the stream sits BEHIND other data in one file object, which stands at the stream's first byte
                    pre = b"CONTAINER-HEADER" * 4
                    f_ = io.BytesIO(pre + data)
                    f_.seek(len(pre))
                    mk_rd = lambda: RecordReader(fileobj=f_)                 # noqa: E731
                else:
                    mk_rd = lambda: RecordStreamReader(io.BytesIO(data))     # noqa: E731
                try:
                    rd = mk_rd()
                    got = list(rd)
                    err = None
                except Exception as e:
                    got, err = [], _errname(e) + ": " + str(e)[:100]
            else:
                d = tempfile.mkdtemp(prefix="frv-c01-")
                path = os.path.join(d, "out.records" + (".gz" if case["via"] == "gz" else ""))
                w = RecordWriter(path)
                _write_all(w, recs, case)
                w.flush()
                w.close()
                raw = open(path, "rb").read()
                if case["via"] == "gz":
                    import gzip
                    data = gzip.decompress(raw)
                else:
                    data = raw
                rd = RecordReader(path)
                try:
                    got = list(rd)
                    err = None
                except Exception as e:
                    got, err = [], _errname(e) + ": " + str(e)[:100]
                rd.close()
        finally:
            _B.set_ignored_fields_for_comparison(_saved_ignore)
            if d:
                shutil.rmtree(d, ignore_errors=True)
        after = [V.observe(r) for r in got]
        try:
            rvs = [W.to_rv(r) for r in got]
        except Exception as e:
            rvs = ["to_rv failed: " + str(e)[:80]]
        out = {"before": before, "after": after, "error": err, "stream": data.hex(), "pvs": pvs, "rvs": rvs,
               "hashes": hashes, "spec_sig": spec_sig}
        if case.get("regen") and err is None and len(got) == len(recs):
            out["regen"] = _regen(case, got)
        if case.get("rewrite"):
            # the objects that WERE WRITTEN are edited in place afterwards and written to a second stream
            out["rewrite"] = _regen(case, recs, case["rewrite"])
        return out


def _write_all(w, recs, case):
    pf = case.get("prefail")
    for i, r in enumerate(recs):
        if pf and i == pf["at"]:
            # a record of the same type that cannot be serialised: the producer catches the error and carries on
            d = r._desc
            bad = d(s="\ud800", n=1, d=[]) if pf["how"] == "surrogate" else d(s="x", n=1, d=[{"k": {1, 2}}])
            try:
                w.write(bad)
                raise AssertionError("the unserialisable record was written")
            except AssertionError:
                raise
            except Exception:          # noqa: BLE001
                pass
        w.write(r)


def _regen(case, got, mods=None):
    """edit the records that came out of the reader in place, write them again, read them back"""
    from flow.record import RecordStreamReader, RecordStreamWriter
    mods = case["regen"] if mods is None else mods
    try:
        for m in mods:
            if m[0] >= len(got) or not hasattr(got[m[0]], m[2]):
                continue            # (a shrunk case: the record or the field is gone)
            if m[1] == "member_set" and (not hasattr(got[m[0]], "records") or m[3] >= len(got[m[0]].records)):
                continue
            rec = got[m[0]]
            if m[1] == "digest":
                tgt = getattr(rec, m[2])
                if m[3] is not None:
                    if len(tgt) <= m[3]:
                        continue
                    tgt = tgt[m[3]]
                setattr(tgt, m[4], m[5])
            elif m[1] == "member_set":
                # edit a member of a grouped record directly (group.records[k].field = value)
                setattr(rec.records[m[3]], m[2], V.build(m[4]))
            elif m[1] == "set":
                setattr(rec, m[2], V.build(m[3]))
            elif m[1] == "append":
                lst = getattr(rec, m[2])
                x = V.build(m[3])
                if not isinstance(x, lst.__type__):
                    x = lst.__type__(x)       # the element as the field's own type (what the reader hands back)
                lst.append(x)
        before2 = [V.observe(r) for r in got]
        buf = io.BytesIO()
        w = RecordStreamWriter(buf)
        for r in got:
            w.write(r)
        w.flush()
        w.fp = None
        again = list(RecordStreamReader(io.BytesIO(buf.getvalue())))
        return {"before": before2, "after": [V.observe(r) for r in again], "error": None}
    except Exception as e:          # noqa: BLE001
        return {"before": [], "after": [], "error": _errname(e) + ": " + str(e)[:100]}


def first_diff(a, b, path=""):
    if type(a) != type(b):
        return f"{path}: {a!r} != {b!r}"[:300]
    if isinstance(a, list):
        if len(a) != len(b):
            return f"{path}: length {len(a)} != {len(b)}"
        for i, (x, y) in enumerate(zip(a, b)):
            d = first_diff(x, y, f"{path}[{i}]")
            if d:
                return d
        return None
    if a != b:
        return f"{path}: {a!r} != {b!r}"[:300]
    return None


def all_diffs(a, b, path=""):
    """every differing position; observation nodes of atomic kinds (ip, dt, path, ...) are compared as units"""
    if isinstance(a, list) and isinstance(b, list) and a and b and a[0] == b[0] and \
            a[0] in ("rec", "list", "tuple", "grouped", "dict", "command"):
        if len(a) != len(b):
            yield (path, a, b)
            return
        for i, (x, y) in enumerate(zip(a, b)):
            yield from all_diffs(x, y, f"{path}[{i}]")
        return
    if isinstance(a, list) and isinstance(b, list) and not (a and isinstance(a[0], str)):
        if len(a) != len(b):
            yield (path, a, b)
            return
        for i, (x, y) in enumerate(zip(a, b)):
            yield from all_diffs(x, y, f"{path}[{i}]")
        return
    if a != b:
        yield (path, a, b)


def is_ipv6_low(a, b):
    return (isinstance(a, list) and isinstance(b, list) and len(a) == 4 and len(b) == 4 and a[0] == "ip" and b[0] == "ip"
            and a[2] == 6 and b[2] == 4 and a[3] == b[3] and int(a[3]) < 2 ** 32)


def is_digest_case(a, b):
    """two digest observations (or hex texts) that differ only in the letter case of the hex text, the value read back
    being the lower-case form"""
    if isinstance(a, list) and isinstance(b, list) and len(a) == 4 == len(b) and a[0] == "digest" == b[0]:
        return a != b and all(x == y or (isinstance(x, str) and isinstance(y, str) and x.lower() == y) for x, y in zip(a[1:], b[1:]))
    return isinstance(a, str) and isinstance(b, str) and a != b and a.lower() == b and len(a) in (32, 40, 64)


def oracle(case, obs):
    k = case["kind"]
    if k == "mp":
        if obs["back"] != obs["orig"]:
            return "msgpack-python does not round-trip: " + str(first_diff(obs["orig"], obs["back"]))
        return None
    if k == "field":
        if obs.get("error"):
            return f"{case['type']}._unpack of its own _pack() raised {obs['error']}"
        known = None
        for path, a, b in all_diffs([obs["before"]], [obs["after"]], "value"):
            if is_ipv6_low(a, b):
                known = known or f"[ipv6<2^32] {path}: IPv6 address {a[3]} read back as IPv4"
                continue
            if is_digest_case(a, b):
                known = known or f"[digest-case] {path}: digest text {a!r} comes back as {b!r}"
                continue
            return f"{case['type']}: _unpack(_pack(v)) differs from v at {path}: {a!r} != {b!r}"[:400]
        return known
    if k != "stream":
        return None
    if obs["error"]:
        return f"reading back raised {obs['error']}"
    if len(obs["before"]) != len(obs["after"]):
        return f"wrote {len(obs['before'])} records, read {len(obs['after'])}"
    for i, (sig, a) in enumerate(zip(obs["spec_sig"], obs["after"])):
        got = [a[1], a[2]] if a[0] == "rec" else ["grouped", a[1]]
        if got != sig:
            return f"record[{i}] was created as {sig} and read back as {got}"[:400]
    known = None
    for path, a, b in all_diffs(obs["before"], obs["after"], "records"):
        if is_ipv6_low(a, b):
            known = known or f"[ipv6<2^32] {path}: IPv6 address {a[3]} read back as IPv4"
            continue
        return f"record read back differs from record written at {path}: {a!r} != {b!r}"[:400]
    for key, label in (("rewrite", "records written once, edited in place and written again"),):
        g2 = obs.get(key)
        if g2:
            if g2["error"]:
                return f"{label}: raised {g2['error']}"
            if len(g2["before"]) != len(g2["after"]):
                return f"{label}: wrote {len(g2['before'])} records, read {len(g2['after'])}"
            for path, a, b in all_diffs(g2["before"], g2["after"], "records"):
                if is_ipv6_low(a, b):
                    continue
                return f"second stream ({label}) differs at {path}: {a!r} != {b!r}"[:400]
    g = obs.get("regen")
    if g:
        if g["error"]:
            return f"editing the records read back and writing them again raised {g['error']}"
        if len(g["before"]) != len(g["after"]):
            return f"second generation: wrote {len(g['before'])} records, read {len(g['after'])}"
        for path, a, b in all_diffs(g["before"], g["after"], "records"):
            if is_ipv6_low(a, b):
                continue
            return (f"second generation (records read, edited in place, written again) differs at {path}: "
                    f"{a!r} != {b!r}")[:400]
    return known


def model_op(case, obs):
    k = case["kind"]
    if k == "mp":
        return [{"op": "mp_enc", "v": case["v"]}, {"op": "mp_dec", "hex": obs["hex"]}]
    if k == "utf8dec":
        return {"op": "utf8_dec", "hex": case["hex"]}
    if k == "utf8enc":
        return {"op": "utf8_enc", "s": case["s"]}
    if k == "field":
        return {"op": "c01_field", "kind": kind_of(case["type"]), "val": obs["tval"]}
    return [{"op": "wire_write", "objs": obs["pvs"]},
            {"op": "wire_read", "hex": obs["stream"]}]      # identifiers by the model's own SHA-256 (Spec.descriptorHash)


def norm_mv(m):
    """msgpack-python returns tuples and dicts; the model returns flat maps: same JSON shape already."""
    return m


def compare(case, obs, mo):
    k = case["kind"]
    if k == "mp":
        e, d = mo
        if e.get("hex") != obs["hex"]:
            return f"packb bytes differ: model {str(e)[:80]} vs msgpack {obs['hex'][:80]}"
        if d.get("v") != obs["back"]:
            return "unpackb differs: " + str(first_diff(obs["back"], d.get("v")))
        return None
    if k == "utf8dec":
        return None if mo.get("s") == obs["s"] else f"decode differs: model {mo} vs CPython {obs}"
    if k == "utf8enc":
        if "hex" in obs:
            return None if mo.get("hex") == obs["hex"] else f"encode differs: model {mo} vs CPython {obs}"
        return None if mo.get("res") == "encode-error" else f"CPython refuses, model gives {mo}"
    if k == "field":
        if "packed" not in mo:
            return f"model error {mo}"
        if mo["packed"] != obs["packed"]:
            return f"{case['type']}._pack(): model {str(mo['packed'])[:120]} vs implementation {str(obs['packed'])[:120]}"
        if obs.get("error") is None and mo.get("unpacked") != obs["tback"]:
            return f"{case['type']}._unpack(): model {str(mo.get('unpacked'))[:120]} vs implementation {str(obs['tback'])[:120]}"
        return None
    w, rd = mo
    if "stream" not in w:
        return f"model cannot pack what the implementation packed: {w}"
    if w["stream"] != obs["stream"]:
        a, b = bytes.fromhex(w["stream"]), bytes.fromhex(obs["stream"])
        i = next((j for j in range(min(len(a), len(b))) if a[j] != b[j]), min(len(a), len(b)))
        return (f"bytes written differ at offset {i}: model …{a[max(0, i - 4):i + 8].hex()} vs "
                f"implementation …{b[max(0, i - 4):i + 8].hex()} (lengths {len(a)}/{len(b)})")
    if obs["error"] is None:
        if rd.get("end") != "eof":
            return f"model reader ends with {rd.get('end')} on a stream the implementation reads cleanly"
        d = first_diff(obs["rvs"], W.canon_model_rv(rd.get("records")))
        if d:
            return "model reader vs implementation (packed level): " + d
    return None


def nontrivial(case, obs):
    k = case["kind"]
    if k == "stream":
        def nt(spec):
            if spec[0] == "grouped":
                return True
            return any(v[0] not in ("none", "str") for v in spec[2])
        return any(nt(s) for s in case["records"])
    if k == "field":
        return obs.get("tval", ["U"])[0] not in ("U", "T")
    if k == "mp":
        return case["v"][0] in ("a", "m", "x", "f64") or (case["v"][0] == "i" and abs(int(case["v"][1])) > 127)
    if k == "utf8dec":
        return any(b >= 0x80 for b in bytes.fromhex(case["hex"]))
    if k == "utf8enc":
        return any(ord(c) >= 0x80 for c in V.dec_str(case["s"]))
    return False


def classify(case, obs):
    k = case["kind"]
    if k == "field":
        return ["field:" + case["type"]]
    if k != "stream":
        return k
    out = {"stream:" + case["via"]}
    for s in case["records"]:
        if s[0] == "grouped":
            out.add("grouped")
            continue
        for (t, _), v in zip(s[1][1], s[2]):
            out.add("type:" + t + (":none" if v[0] == "none" else ""))
    return sorted(out)


def shrink(case):
    if case["kind"] != "stream":
        return
    recs = case["records"]
    if len(recs) > 1:
        for i in range(len(recs)):
            yield dict(case, records=recs[:i] + recs[i + 1:])
    for i, s in enumerate(recs):
        if s[0] == "rec" and len(s[2]) > 1:
            for j in range(len(s[2])):
                ds = [s[1][0], s[1][1][:j] + s[1][1][j + 1:]]
                ns = ["rec", ds, s[2][:j] + s[2][j + 1:], s[3] if len(s) > 3 else {}]
                yield dict(case, records=recs[:i] + [ns] + recs[i + 1:])
        if s[0] == "rec":
            for j, v in enumerate(s[2]):
                if v[0] == "list" and len(v[1]) > 1:
                    for q in range(len(v[1])):
                        nv = ["list", v[1][:q] + v[1][q + 1:]]
                        ns = ["rec", s[1], s[2][:j] + [nv] + s[2][j + 1:], s[3] if len(s) > 3 else {}]
                        yield dict(case, records=recs[:i] + [ns] + recs[i + 1:])


def _ipv6_low(case, obs, failure):
    """every difference of the case is an IPv6 address below 2^32 read back as IPv4 (the oracle reports any other
    difference first)"""
    return case["kind"] in ("stream", "field") and failure.startswith("[ipv6<2^32]")


def _digest_case(case, obs, failure):
    return case["kind"] == "field" and failure.startswith("[digest-case]")


MATCHERS = {"ipv6_below_2_32": _ipv6_low, "digest_hex_case": _digest_case}
