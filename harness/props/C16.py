"""C16 — rdump output is the specified slice of the filtered input.

The real `flow.record.tools.rdump.main(argv)` is called in-process (stdout captured, output files in a temp dir) on
generated source files (stream plain/gz/bz2/lz4/zst and JSON lines; good, missing, truncated, garbage at every
position) with generated option combinations. Its output is parsed back with the matching reader / parser into a
canonical form and compared with
  * oracle: an independent reference pipeline written here (symbolic records -> filter -> slice -> override / project /
    expand), materialised with the real Record classes and canonicalised the same way;
  * compare: the Lean `Rdump.pipeline` (+ `writerUri`) run by frdriver on the same symbolic sources with the outcome
    table of the real selector engine.
Values are symbolic tokens `#i.f` (field f of input record i) so that neither reference nor model ever computes a
value: rdump must only move them.
"""
import base64
import bz2
import csv
import gzip
import io
import json
import os
import shutil
import struct
import sys
import tempfile

from .. import values as V

ID = "C16"
CLAIM = dict(
    text="Kernel-checked theorems about the executable model `Rdump.pipeline` (record_stream over sources -> islice -> "
         "override/rewrite -> list | expand+write, step order / stop rule / exception handlers / metadata rule taken "
         "from the source by the translator): C16_pipeline_spec (for every option combination, every placement of "
         "failing sources and every selector defined on the readable records, the writer receives exactly "
         "flatMap(project . override)(take COUNT (drop SKIP (filter sel (concat readable prefixes)))), COUNT 0 = no "
         "limit), C16_identity, C16_slice (islice = take/drop), C16_isolation(+_placement) by induction over the source "
         "list, C16_projection / C16_expand (values, order, metadata unchanged), C16_mode_independent, "
         "C16_engine_independent, C16_uri_modes / C16_uri_split decided over the extracted tables. Tie: translator + "
         "correspondence of rdump.main run in-process (stdout and files parsed back per format) with the model + an "
         "independent reference pipeline as oracle.",
    note="partial: argparse, logging and the writers' byte formats are exercised (outputs parsed back), not modelled; "
         "-E/--exec-expression and -f format strings are outside the model; selectors that raise on a record are outside "
         "the property's domain (behaviour stated in C16_raising_selector_truncates_source and checked in a separate "
         "bucket); mode independence is thin as a theorem and carried by the correspondence.",
    technique="Lean 4 theorems over an executable pipeline model + model/implementation correspondence",
    design="8/C16")
RULE = ("one case = 1-4 sources (good | missing | truncated | garbage, formats stream plain/gz/bz2/lz4/zst and jsonl, "
        "multi-descriptor record lists from typed pools) x options (--skip, -c incl. 0, -s from a pool of 24 selectors "
        "with a hand-written reference predicate each, -n, -F, -X, --record-source, --record-classification, "
        "--multi-timestamp, -l) x output (stdout text / -m csv|json|jsonlines|line|line-verbose / -w - / -w file as "
        "stream[.gz|.bz2|.lz4|.zst], jsonfile, csvfile, line, text; --split with suffix length). Bucket `raising`: "
        "selectors that raise on some record, expectation = what record_stream does. Non-trivial = at least one good "
        "record reaches the output and at least one option or failing source is present; distinct by hash of the case.")
TRUSTED = ["the real writers/readers serialise and parse the records faithfully (C01/C14/C20 own that); canonical forms "
           "go through them for file outputs",
           "the outcome table handed to the model is measured on the real selector engines (C07 owns their meaning)",
           "gzip/bz2/lz4/zstandard, csv, json libraries"]
ASSUMPTIONS = ["selectors are defined on every readable record (main bucket); the raising bucket expects exactly "
               "record_stream's behaviour: the source contributes the records yielded before the exception",
               "-F lists distinct field names; -E and -f are not used",
               "for a truncated *compressed* source the intact prefix is whatever the real reader yields from it "
               "(measured by reading the source alone); for uncompressed streams and JSON lines it is computed from "
               "the cut position independently"]
EXPLANATION = ("placements of good/missing/truncated/garbage sources are enumerated completely up to length 3 (quick) / 4 "
               "(thorough); the product with options and outputs is seeded, not exhaustive")

# ------------------------------------------------------------------ pools

DA = ["test/a", [["varint", "k"], ["varint", "n"], ["string", "s"], ["boolean", "b"], ["datetime", "t1"],
                 ["datetime", "t2"], ["string[]", "l"]]]
DB = ["test/b", [["varint", "k"], ["string", "s"], ["float", "f"], ["bytes", "data"], ["uint16", "port"]]]
DC = ["t/c", [["varint", "k"], ["string", "s"], ["datetime", "ts"], ["varint", "n"]]]
# a second definition of test/a (another plugin version: same record type name, other fields and order)
DA2 = ["test/a", [["string", "s"], ["varint", "k"], ["uint16", "port"], ["varint", "n"], ["float", "f"]]]
# two definitions of t/x whose descriptor identifiers (name + 32-bit hash) coincide: the hash input is the unseparated
# concatenation of field names and types (k varint q stringlist w string = k varint q string listw string)
DX1 = ["t/x", [["varint", "k"], ["stringlist", "q"], ["string", "w"]]]
DX2 = ["t/x", [["varint", "k"], ["string", "q"], ["string", "listw"]]]
# field names that are Python keywords (the library generates another constructor for such record types), holding
# values that are falsy but not None
DK = ["t/kw", [["varint", "k"], ["string", "from"], ["varint", "in"], ["boolean", "class"], ["string[]", "is"]]]
DESCS = [DA, DB, DC, DA2, DX1, DX2, DK]
S_POOL = ["abc", "a", "ABC", "b", "x y", "q=1", "é", "a,b", "", "it's", "日本"]
FIELD_POOL = ["k", "n", "s", "b", "t1", "t2", "l", "f", "data", "port", "ts", "zz", "_source", "q", "listw"]
MISSING = object()


class Raise(Exception):
    pass


def _g(f, name):
    return f.get(name, MISSING)


def _eq(v, c):
    return v is not MISSING and v is not None and v == c


def _num(v):
    return v is not MISSING and v is not None


def _lower(v):
    return v.lower() if isinstance(v, str) else v


def _plus_gt(f, eng):
    v = _g(f, "n")
    if v is MISSING:
        if eng == "interp":
            return False
        raise Raise()
    if v is None:
        raise Raise()
    return v + 1 > 3


def _div_gt(f, eng):
    v = _g(f, "n")
    if v is MISSING:
        if eng == "interp":
            return False
        raise Raise()
    if v is None or v == 0:
        raise Raise()
    return f["k"] / v > 1


def _startswith(f, eng):
    if eng == "interp":
        raise Raise()
    v = _g(f, "s")
    if v is MISSING or v is None:
        raise Raise()
    return v.startswith("a")


# (selector text, reference predicate over {field name: value} (+ "__name__"), bucket)
SELECTORS = [
    ("r.n == 3", lambda f, e: _eq(_g(f, "n"), 3), "main"),
    ("r.s == 'abc'", lambda f, e: _eq(_g(f, "s"), "abc"), "main"),
    ("r.n in (1, 2, 3)", lambda f, e: _num(_g(f, "n")) and _g(f, "n") in (1, 2, 3), "main"),
    ("r.b == True", lambda f, e: _num(_g(f, "b")) and bool(_g(f, "b")) is True, "main"),
    ("r.s == 'abc' or r.k == 5", lambda f, e: _eq(_g(f, "s"), "abc") or f["k"] == 5, "main"),
    ("r.s == 'a' and r.k >= 1", lambda f, e: _eq(_g(f, "s"), "a") and f["k"] >= 1, "main"),
    ("not (r.n == 0)", lambda f, e: not _eq(_g(f, "n"), 0), "main"),
    ("name(r) == 'test/a'", lambda f, e: f["__name__"] == "test/a", "main"),
    ("'b' in r.l", lambda f, e: _g(f, "l") is not MISSING and "b" in _g(f, "l"), "main"),
    ("r.k > 2", lambda f, e: f["k"] > 2, "main"),
    ("1 < r.k < 5", lambda f, e: 1 < f["k"] < 5, "main"),
    ("r.n != 3", lambda f, e: _g(f, "n") is not MISSING and _g(f, "n") != 3, "main"),
    ("r._source == 'src'", lambda f, e: f["_source"] == "src", "main"),
    ("lower(r.s) == 'abc'", lambda f, e: _g(f, "s") is not MISSING and _lower(_g(f, "s")) == "abc", "main"),
    ("r.missing == 1", lambda f, e: False, "main"),
    ("r.k >= 2 and r.k <= 4", lambda f, e: 2 <= f["k"] <= 4, "main"),
    ("r.k % 2 == 0", lambda f, e: f["k"] % 2 == 0, "main"),
    ("r.s in ('a', 'abc')", lambda f, e: _g(f, "s") is not MISSING and _g(f, "s") in ("a", "abc"), "main"),
    ("upper(r.s) == 'ABC' or r.n == 1",
     lambda f, e: (isinstance(_g(f, "s"), str) and _g(f, "s").upper() == "ABC") or _eq(_g(f, "n"), 1), "main"),
    ("r.k == 1 or r.k == 3 or r.k == 5", lambda f, e: f["k"] in (1, 3, 5), "main"),
    ("True", lambda f, e: True, "main"),
    ("r.n + 1 > 3", _plus_gt, "raising"),
    ("r.k / r.n > 1", _div_gt, "raising"),
    ("r.s.startswith('a')", _startswith, "raising"),
]
SEL = {t: (fn, b) for t, fn, b in SELECTORS}

# "json.gz": JSON lines behind gzip, addressed as jsonfile://<path> (the only way rdump reads compressed JSON)
FORMATS = ["records", "records", "records", "records.gz", "records.bz2", "records.lz4", "records.zst", "jsonl", "json.gz"]
OUTS = [
    ("stdout", None), ("stdout", None), ("mode", "csv"), ("mode", "json"), ("mode", "jsonlines"), ("mode", "line"),
    ("mode", "line-verbose"), ("wstdout", None),
    ("file", "records"), ("file", "records"), ("file", "records.gz"), ("file", "records.bz2"), ("file", "records.lz4"),
    ("file", "records.zst"), ("file", "jsonl"), ("file", "jsonfile-nodesc"), ("file", "csv"), ("file", "csvfile"),
    ("file", "line"), ("file", "line-verbose"), ("file", "text"),
]


def EXHAUSTIVE(tier):
    return False


# ------------------------------------------------------------------ generation

def _gen_record(r, ds):
    vals = []
    for t, n in ds[1]:
        none = r.chance(15)
        if n == "k":
            v = V.I(r.randint(0, 6))
        elif ds[0] == "t/kw":
            v = {"from": V.S(r.choice(["", "", "x"])), "in": V.I(r.choice([0, 0, 7])), "class": ["bool", r.choice([0, 0, 1])],
                 "is": ["list", [] if r.chance(60) else [V.S("a")]]}[n]
        elif n == "n":
            v = V.NONE if none else V.I(r.choice([0, 1, 2, 3, 3, 5]))
        elif n == "s":
            v = V.NONE if none else V.S(r.choice(S_POOL))
        elif t == "boolean":
            v = V.NONE if none else ["bool", r.below(2)]
        elif t == "datetime":
            v = V.NONE if none else ["dt", [r.randint(1990, 2035), r.randint(1, 12), r.randint(1, 28), r.randint(0, 23),
                                            r.randint(0, 59), r.randint(0, 59), r.choice([0, 0, 1, 999999])], "utc", 0]
        elif t == "string[]":
            v = ["list", [V.S(r.choice(["a", "b", "c", "x y"])) for _ in range(r.randint(0, 3))]]
        elif t == "float":
            v = V.NONE if none else V.F(r.choice([0.0, 0.5, -1.25, 3.0, 1e10, 0.1]))
        elif t == "bytes":
            v = V.NONE if none else V.B(r.bytes(r.randint(0, 6)))
        elif t == "uint16":
            v = V.NONE if none else V.I(r.choice([0, 80, 443, 65535]))
        elif t == "string":
            v = V.NONE if none else V.S(r.choice(S_POOL))
        elif t == "stringlist":
            v = ["list", [V.S(r.choice(["a", "b", "c", "x y"])) for _ in range(r.randint(0, 3))]]
        else:
            raise ValueError(t)
        vals.append(v)
    meta = {"_generated": ["dt", [2020 + r.below(4), r.randint(1, 12), 2, 3, 4, 5, r.choice([0, 7])], "utc", 0]}
    if r.chance(60):
        meta["_source"] = V.S(r.choice(["src", "other"]))
    if r.chance(40):
        meta["_classification"] = V.S("cls")
    return ["rec", ds, vals, meta]


def _gen_source(r, i):
    kind = r.weighted([(6, "good"), (2, "missing"), (2, "truncated"), (2, "garbage")])
    fmt = r.choice(FORMATS)
    s = {"type": kind, "format": fmt, "records": []}
    if fmt.startswith("records.") and r.chance(30):
        s["anon"] = True      # the same bytes under a name that says nothing about the codec: recognised by content
    if kind in ("good", "truncated"):
        n = r.choice([0, 1, 2, 3, 4, 6, 9]) if kind == "good" else r.choice([2, 3, 5, 8])
        descs = r.sample(DESCS, r.randint(1, 3))
        s["records"] = [_gen_record(r, r.choice(descs)) for _ in range(n)]
    if kind == "truncated":
        if fmt in ("records.gz", "records.bz2") and r.chance(40):
            s["damage"] = "trailer"
        s["cut"] = r.randint(1, 999)  # per mille of the file length
        if r.chance(25):
            s["cut"] = ["frame", r.randint(0, 20)]  # exactly at a frame / line boundary
    if kind == "garbage":
        s["garbage"] = r.choice([b"", b"hello world\n", b"<test/a s='x'>\n", b"\x00" * 40, b"{\"a\": 1\n", b"RECORDSTREAM",
                                 r.bytes(r.randint(1, 60))]).hex()
    return s


def _gen_opts(r, bucket):
    o = {"skip": 0, "count": None, "selector": None, "no_compile": False, "fields": None, "exclude": None,
         "source": None, "classification": None, "multits": False, "list": False}
    if r.chance(45):
        o["skip"] = r.choice([0, 1, 2, 3, 5, 100])
    if r.chance(45):
        o["count"] = r.choice([0, 1, 2, 3, 4, 10, 1000])
    if bucket == "raising":
        o["selector"] = r.choice([t for t, _, b in SELECTORS if b == "raising"])
    elif r.chance(60):
        o["selector"] = r.choice([t for t, _, b in SELECTORS if b == "main"])
    o["no_compile"] = r.chance(40)
    if r.chance(35):
        o["fields"] = r.sample(FIELD_POOL, r.randint(1, 4))
    if r.chance(30):
        o["exclude"] = r.sample(FIELD_POOL[:11], r.randint(1, 3))
    if r.chance(25):
        o["source"] = r.choice(["NEW", "", "src", "über"])
    if r.chance(20):
        o["classification"] = r.choice(["TLP:RED", "", "cls"])
    o["multits"] = r.chance(25)
    o["list"] = r.chance(7)
    return o


def _gen_out(r):
    kind, what = r.choice(OUTS)
    out = {"kind": kind, "what": what, "split": None, "suffix": 2, "also_mode": None}
    if kind == "file":
        if r.chance(30):
            out["split"] = r.choice([1, 2, 3, 5])
            out["suffix"] = r.choice([2, 2, 1, 3])
        if r.chance(15):
            out["also_mode"] = r.choice(["csv", "json", "line"])  # -w wins over -m
    return out


def _placements(rng, tier):
    """every placement of good / missing / truncated / garbage sources in lists of length 1..3 (thorough: 1..4)"""
    import itertools
    r = rng.fork("placements")
    out = []
    for L in range(1, {"quick": 3, "thorough": 4, "search": 3}[tier] + 1):
        for combo in itertools.product(["good", "missing", "truncated", "garbage"], repeat=L):
            srcs = []
            for j, kind in enumerate(combo):
                s = {"type": kind, "format": r.choice(FORMATS), "records": []}
                if kind in ("good", "truncated"):
                    s["records"] = [_gen_record(r, r.choice(DESCS)) for _ in range(2 if kind == "good" else 4)]
                if kind == "truncated":
                    s["cut"] = r.randint(300, 900)
                if kind == "garbage":
                    s["garbage"] = r.bytes(r.randint(0, 40)).hex()
                srcs.append(s)
            o = {"skip": r.choice([0, 0, 1]), "count": r.choice([None, None, 3]), "selector": r.choice([None, "r.k % 2 == 0"]),
                 "no_compile": r.chance(50), "fields": None, "exclude": None, "source": None, "classification": None,
                 "multits": False, "list": False}
            out.append({"kind": "run", "bucket": "main", "sources": srcs, "opts": o,
                        "out": {"kind": "file", "what": "records", "split": None, "suffix": 2, "also_mode": None}})
    return out


def gen_cases(rng, tier):
    n = {"quick": 1200, "thorough": 60000, "search": 2500}[tier]
    r = rng.fork("run")
    cases = _placements(rng, tier)
    for i in range(n):
        bucket = "raising" if i % 9 == 8 else "main"
        ns = r.choice([1, 1, 2, 2, 3, 3, 4])
        case = {"kind": "run", "bucket": bucket, "sources": [_gen_source(r, j) for j in range(ns)],
                "opts": _gen_opts(r, bucket), "out": _gen_out(r)}
        if case["out"]["kind"] == "wstdout":
            case["opts"]["list"] = False  # `-l -w -` interleaves the binary stream header with the listing
        if r.chance(12):
            case["prior"] = r.choice([["-s", "r.k >= 4"], ["-s", "False"], ["-F", "k"], ["-X", "s"], ["-c", "1"], ["--skip", "2"],
                                      ["-s", "r.k == 1", "-F", "k,s"]])
        cases.append(case)
    # one very large record (a 17 MiB value) in the middle of an intact source: it and everything after it come out;
    # the projection keeps the observed output small
    if tier != "search":
        DBIG = ["test/big", [["varint", "k"], ["bytes", "blob"]]]
        gen = {"_generated": ["dt", [2022, 3, 4, 5, 6, 7, 0], "utc", 0]}
        big = [["rec", DBIG, [V.I(1), V.B(b"ab")], gen], ["rec", DBIG, [V.I(2), ["zeros", 17 * 2 ** 20]], gen],
               ["rec", DBIG, [V.I(3), V.B(b"")], gen], ["rec", DBIG, [V.I(4), V.B(b"z")], gen]]
        for fmt, outw in (("records", "jsonlines"), ("records.gz", "csv")):
            o = {"skip": 0, "count": None, "selector": None, "no_compile": False, "fields": ["k"], "exclude": None,
                 "source": None, "classification": None, "multits": False, "list": False}
            cases.append({"kind": "run", "bucket": "main", "opts": o,
                          "sources": [{"type": "good", "format": fmt, "records": big},
                                      {"type": "good", "format": "records", "records": big[:1]}],
                          "out": {"kind": "mode", "what": outw, "split": None, "suffix": 2, "also_mode": None}})
    # more parts than --suffix-length digits can number (out.9 -> out.10, out.99 -> out.100): no part may be overwritten
    r2 = rng.fork("manyparts")
    for per, suffix, total in ((1, 1, 12), (2, 1, 23)) + (((1, 2, 103),) if tier == "thorough" else ()):
        src = {"type": "good", "format": "records", "records": [_gen_record(r2, DESCS[0]) for _ in range(total)]}
        o = {"skip": 0, "count": None, "selector": None, "no_compile": False, "fields": None, "exclude": None, "source": None,
             "classification": None, "multits": False, "list": False}
        cases.append({"kind": "run", "bucket": "main", "sources": [src], "opts": o,
                      "out": {"kind": "file", "what": "records", "split": per, "suffix": suffix, "also_mode": None}})
    return cases


# ------------------------------------------------------------------ symbolic records

def _symbolic_sources(case):
    """-> (list of per-source symbolic record lists (all written records), list of built records by global index)"""
    built, srcs, i = [], [], 0
    for s in case["sources"]:
        recs = []
        for rs in s["records"]:
            b = V.build_record(rs)
            built.append(b)
            recs.append({"id": i, "name": rs[1][0],
                         "fields": [[t, n, f"#{i}.{n}"] for t, n in rs[1][1]],
                         "meta": [f"#{i}._source", f"#{i}._classification", f"#{i}._generated"]})
            i += 1
        srcs.append(recs)
    return srcs, built


def _value(tok, built):
    if tok.startswith("const:"):
        return tok[6:]
    if tok.startswith("#"):
        i, _, f = tok[1:].partition(".")
        return getattr(built[int(i)], f)
    raise ValueError(f"unexpected token {tok}")


def _materialise(sym, built):
    from flow.record import RecordDescriptor
    desc = RecordDescriptor(sym["name"], [(t, n) for t, n, _ in sym["fields"]])
    kw = {n: _value(tok, built) for _, n, tok in sym["fields"]}
    return desc.recordType(_source=_value(sym["meta"][0], built), _classification=_value(sym["meta"][1], built),
                           _generated=_value(sym["meta"][2], built), **kw)


# ------------------------------------------------------------------ the independent reference pipeline

def _ref_fields(rec, built):
    b = built[rec["id"]]
    f = {n: getattr(b, n) for _, n, _ in rec["fields"]}
    f["_source"] = b._source
    f["_classification"] = b._classification
    f["__name__"] = rec["name"]
    return f


def reference(case, readable_counts):
    """symbolic output of the specified pipeline; readable_counts[i] = length of the intact prefix of source i"""
    o = case["opts"]
    srcs, built = _symbolic_sources(case)
    eng = "interp" if o["no_compile"] else "compiled"
    stream = []
    for recs, cnt in zip(srcs, readable_counts):
        for rec in recs[:cnt]:
            if o["selector"] is None:
                stream.append(rec)
                continue
            try:
                keep = SEL[o["selector"]][0](_ref_fields(rec, built), eng)
            except Raise:
                break  # record_stream: the exception ends this source, the next one is read
            if keep:
                stream.append(rec)
    stop = (o["count"] + o["skip"]) if o["count"] else None
    sliced = stream[o["skip"]:stop]
    out = []
    for rec in sliced:
        rec = {"id": rec["id"], "name": rec["name"], "fields": [list(f) for f in rec["fields"]], "meta": list(rec["meta"])}
        if o["source"] is not None:
            rec["meta"][0] = "const:" + o["source"]
        if o["classification"] is not None:
            rec["meta"][1] = "const:" + o["classification"]
        F, X = o["fields"] or [], o["exclude"] or []
        if F:
            byname = {f[1]: f for f in rec["fields"]}
            rec["fields"] = [byname[n] for n in F if n not in X and n in byname]
        elif X:
            rec["fields"] = [f for f in rec["fields"] if f[1] not in X]
        out.append(rec)
    if o["list"]:
        seen, listed = set(), []
        for rec in out:
            d = [rec["name"], [[t, n] for t, n, _ in rec["fields"]]]
            if json.dumps(d) not in seen:
                seen.add(json.dumps(d))
                listed.append(d)
        return {"written": [], "listed": listed, "processed": len(out)}
    written = []
    for rec in out:
        dts = [f for f in rec["fields"] if f[0] == "datetime"]
        if not o["multits"] or not dts:
            written.append(rec)
            continue
        for t, n, tok in dts:
            rest = [f for f in rec["fields"] if f[1] not in ("ts", "ts_description")]
            written.append({"id": rec["id"], "name": rec["name"], "meta": list(rec["meta"]),
                            "fields": [["datetime", "ts", tok], ["string", "ts_description", "const:" + n]] + rest})
    return {"written": written, "listed": [], "processed": len(out)}


# ------------------------------------------------------------------ canonical forms of an expected record list

def _cols(rec, o, restricted, as_code=False):
    """columns a text writer shows: all slots, or - for -m csv|line, where rdump also passes -F/-X on to the writer in
    the URI query - the requested ones. `as_code`: exactly what the writer's own `_asdict(fields, exclude)` keeps
    (used when comparing with the model); otherwise the property's view: the writer-side projection must not remove
    what --multi-timestamp added."""
    slots = [n for _, n in rec._desc.get_field_tuples()] + ["_source", "_classification", "_generated", "_version"]
    F, X = (o["fields"] or [], o["exclude"] or []) if restricted else ([], [])
    if F:
        # rdump hands the writer `ts,ts_description,` + -F under --multi-timestamp (since the fix: commit recorded as
        # FX-C16-writer-projection-drops-ts): code and property agree on the columns
        want = (["ts", "ts_description"] if o["multits"] else []) + list(F)
        out = []
        for k in want:
            if k in slots and k not in X and k not in out:
                out.append(k)
        return out
    return [k for k in slots if k not in X]


def _jsonval(v):
    import datetime as _d
    if v is None:
        return None
    if isinstance(v, bool):
        return v
    if isinstance(v, _d.datetime):
        return v.isoformat()
    if isinstance(v, (bytes, bytearray)):
        return base64.b64encode(bytes(v)).decode()
    if isinstance(v, list):
        return [_jsonval(x) for x in v]
    if isinstance(v, float):
        return float(v)
    if isinstance(v, int):
        return int(v)
    return str(v)


def _expect(form, recs, o, restricted, as_code=False):
    """canonical form of what the writer should have received"""
    if form == "records":
        return [V.observe_record(r) for r in recs]
    if form == "text":
        return [repr(r) for r in recs]
    if form == "json":
        out = []
        for r in recs:
            types = dict((n, t) for t, n in r._desc.get_field_tuples())
            d = []
            for k in _cols(r, o, False):
                v = getattr(r, k)
                d.append([k, bool(v) if types.get(k) == "boolean" and v is not None else _jsonval(v)])
            out.append(d)
        return out
    if form == "csv":
        rows, last = [], None
        for r in recs:
            cols = _cols(r, o, restricted, as_code)
            if last is None or last != r._desc:
                rows.append(cols)
                last = r._desc
            rows.append(["" if getattr(r, k) is None else str(getattr(r, k)) for k in cols])
        return rows
    if form in ("line", "line-verbose"):
        out = []
        for i, r in enumerate(recs, 1):
            types = {n: f.typename for n, f in r._desc.get_all_fields().items()}
            out.append([i, [[f"{k} ({types[k]})" if form == "line-verbose" else k, str(getattr(r, k))]
                            for k in _cols(r, o, restricted, as_code)]])
        return out
    raise ValueError(form)


def _chunks(xs, n):
    return [xs[i:i + n] for i in range(0, len(xs), n)] if n else [xs]


def expected_canonical(case, sym_out, obs, as_code=False):
    """sym_out (reference or model) -> the canonical observation rdump should have produced"""
    _, built = _symbolic_sources(case)
    o, out = case["opts"], case["out"]
    if o["list"]:
        from flow.record import RecordDescriptor
        lines = []
        for name, fields in sym_out["listed"]:
            d = RecordDescriptor(name, [(t, n) for t, n in fields])
            lines += [f"# {d}", d.definition(), ""]
        lines.append(f"Processed {sym_out['processed']} records")
        return {"stdout_text": "\n".join(lines) + "\n", "files": _expected_empty_files(out)}
    recs = [_materialise(s, built) for s in sym_out["written"]]
    form, restricted = _form_of(out)
    if out["kind"] == "file":
        return {"stdout_text": "", "files": [_expect(form, c, o, restricted, as_code) for c in _chunks(recs, out["split"])]}
    return {"stdout": _expect(form, recs, o, restricted, as_code)}


def _expected_empty_files(out):
    return [] if out["kind"] == "file" else None


def _form_of(out):
    """(canonical form, does rdump hand -F/-X to the writer)"""
    if out["kind"] == "stdout":
        return "text", False
    if out["kind"] == "wstdout":
        return "records", False
    if out["kind"] == "mode":
        m = out["what"]
        # the json / jsonlines / line-verbose URIs carry a query of their own, so rdump appends only "&" and the
        # writer never sees -F / -X (Gen.rdumpQueryAppendShape); csv and line do get them
        return ({"csv": "csv", "json": "json", "jsonlines": "json", "line": "line", "line-verbose": "line-verbose"}[m],
                m in ("csv", "line"))
    w = out["what"]
    if w.startswith("records") or w == "jsonl":
        return "records", False
    if w == "jsonfile-nodesc":
        return "json", False
    if w in ("csv", "csvfile"):
        return "csv", False
    return w, False  # line, line-verbose, text


# ------------------------------------------------------------------ running the real code

def _compress(fmt, data):
    if fmt.endswith(".gz"):
        return gzip.compress(data)
    if fmt.endswith(".bz2"):
        return bz2.compress(data)
    if fmt.endswith(".lz4"):
        import lz4.frame
        return lz4.frame.compress(data)
    if fmt.endswith(".zst"):
        import zstandard
        return zstandard.ZstdCompressor().compress(data)
    return data


def _write_source(s, path, built_iter):
    """write the source file; -> (expected readable count or None when only the reader can tell, fails kind)"""
    from flow.record import RecordWriter
    from flow.record.stream import RecordStreamWriter

    recs = [next(built_iter) for _ in s["records"]]
    kind, fmt = s["type"], s["format"]
    if kind == "missing":
        return 0, "io"
    if kind == "garbage":
        with open(path, "wb") as f:
            f.write(bytes.fromhex(s["garbage"]))
        return 0, "other"
    if fmt in ("jsonl", "json.gz"):
        tmp = path + ".full"
        w = RecordWriter("jsonfile://" + tmp)
        for r in recs:
            w.write(r)
        w.flush()
        w.close()
        data = open(tmp, "rb").read()
        os.remove(tmp)
        ends, kinds, pos = [], [], 0
        for line in data.split(b"\n")[:-1]:
            pos += len(line) + 1
            ends.append(pos - 1)  # the JSON text ends before the newline
            kinds.append("desc" if b'"_type": "recorddescriptor"' in line else "rec")
    else:
        bio = io.BytesIO()
        w = RecordStreamWriter(bio)
        w.flush()
        for r in recs:
            w.write(r)
        data = bio.getvalue()
        ends, kinds, pos = [], [], 0
        frames = []
        while pos < len(data):
            n = struct.unpack(">I", data[pos:pos + 4])[0]
            pos += 4 + n
            frames.append(pos)
        # classify the frames by content: header, descriptor (ext sub-type 2), record
        p0 = 0
        for end in frames:
            blob = data[p0 + 4:end]
            k = "magic" if blob.endswith(b"RECORDSTREAM\n") and len(blob) < 20 else (
                "desc" if _is_desc_frame(blob) else "rec")
            ends.append(end)
            kinds.append(k)
            p0 = end
    if kind == "good":
        with open(path, "wb") as f:
            f.write(_compress(fmt, data))
        return len(recs), None
    if kind == "truncated" and s.get("damage") == "trailer" and fmt in ("records.gz", "records.bz2"):
        # the complete file with a damaged check value at its end: the codec raises an OSError while the last block is
        # read, i.e. DURING the iteration; how many records come out before that is the reader's business (read alone)
        comp = bytearray(_compress(fmt, data))
        comp[-6 if fmt.endswith(".gz") else -3] ^= 0x5A
        with open(path, "wb") as f:
            f.write(bytes(comp))
        return None, "io"
    # truncated
    cut = s["cut"]
    if isinstance(cut, list):
        cutpos = ([0] + ends)[cut[1] % (len(ends) + 1)]
        if fmt in ("jsonl", "json.gz") and cutpos:
            cutpos += 1
    else:
        cutpos = max(1, len(data) * cut // 1000)
    if fmt in ("records", "jsonl"):
        with open(path, "wb") as f:
            f.write(data[:cutpos])
        cnt = sum(1 for e, k in zip(ends, kinds) if k == "rec" and e <= cutpos)
        if fmt == "records" and cutpos < 19:
            cnt = 0
        return cnt, "other"
    comp = _compress(fmt, data)
    cpos = max(1, len(comp) * (cut if not isinstance(cut, list) else 500) // 1000)
    with open(path, "wb") as f:
        f.write(comp[:cpos])
    if fmt.endswith(".gz"):
        # what a truncated gzip file still holds is decided by an independent inflater (zlib), not by the reader
        import zlib
        try:
            plain = zlib.decompressobj(31).decompress(comp[:cpos])
        except zlib.error:
            plain = b""
        cnt = sum(1 for e, k in zip(ends, kinds) if k == "rec" and e <= len(plain))
        if fmt == "records.gz" and len(plain) < 19:
            cnt = 0
        return cnt, "other"
    return None, "other"


def _is_desc_frame(blob):
    # ext 14 payload: msgpack array [sub-type, data]; sub-type 2 = descriptor
    try:
        import msgpack
        ext = msgpack.unpackb(blob, raw=True)
        return msgpack.unpackb(ext.data, raw=True, ext_hook=lambda c, d: None)[0] == 2
    except Exception:
        return False


class _Out(io.BytesIO):
    pass


def _call_rdump(argv):
    from flow.record.tools import rdump
    uris = []
    real_writer = rdump.RecordWriter

    def spy(uri, *a, **k):
        uris.append(uri)
        return real_writer(uri, *a, **k)

    buf = _Out()
    tw = io.TextIOWrapper(buf, encoding="utf-8", errors="surrogateescape", write_through=True, newline="")
    old = sys.stdout, sys.stderr
    sys.stdout, sys.stderr = tw, io.StringIO()
    rdump.RecordWriter = spy
    status = None
    try:
        try:
            rdump.main(argv)
        except SystemExit as e:
            status = f"exit:{e.code}"
        except Exception as e:
            status = type(e).__name__
    finally:
        rdump.RecordWriter = real_writer
        try:
            tw.flush()
        except Exception:
            pass
        sys.stdout, sys.stderr = old
    return status, buf.getvalue(), uris


def _parse_json_docs(text):
    dec, pos, docs = json.JSONDecoder(), 0, []
    while pos < len(text):
        while pos < len(text) and text[pos] in " \r\n\t":
            pos += 1
        if pos >= len(text):
            break
        obj, pos = dec.raw_decode(text, pos)
        docs.append([[k, v] for k, v in obj.items()])
    return docs


def _parse_line(text):
    out, cur = [], None
    for line in text.split("\n"):
        if line.startswith("--[ RECORD ") and line.endswith(" ]--"):
            cur = [int(line[11:-4]), []]
            out.append(cur)
        elif line and cur is not None:
            k, _, v = line.partition(" = ")
            cur[1].append([k.strip(), v])
    return out


def _read_records(make):
    rd = make()
    try:
        return [V.observe_record(r) for r in rd]
    finally:
        rd.close()


def _parse(form, data, path=None):
    from flow.record import RecordReader
    if form == "records":
        if path is not None:
            return _read_records(lambda: RecordReader(path))
        if not data:
            return []
        return _read_records(lambda: RecordReader(fileobj=io.BytesIO(data)))
    text = data.decode("utf-8", "surrogateescape")
    if form == "text":
        return text.split("\n")[:-1] if text else []
    if form == "json":
        return _parse_json_docs(text)
    if form == "csv":
        return [row for row in csv.reader(io.StringIO(text, newline=""))]
    return _parse_line(text)


def run_real(case):
    from flow.record import RecordReader
    from flow.record.selector import CompiledSelector, Selector

    d = tempfile.mkdtemp(prefix="frv-c16-")
    try:
        srcs, built = _symbolic_sources(case)
        it = iter(built)
        paths, counts, fails = [], [], []
        for i, s in enumerate(case["sources"]):
            path = os.path.join(d, f"s{i}.dat" if s.get("anon") else f"s{i}.{s['format']}")
            cnt, fk = _write_source(s, path, it)
            if cnt is None:  # truncated compressed source: the intact prefix is what the reader yields from it alone
                n = 0
                try:
                    rd = RecordReader(path)
                    for _ in rd:
                        n += 1
                except Exception:
                    pass
                cnt = n
            paths.append("jsonfile://" + path if s["format"] == "json.gz" else path)
            counts.append(cnt)
            fails.append(fk)
        o, out = case["opts"], case["out"]
        argv = list(paths)
        if o["skip"]:
            argv += ["--skip", str(o["skip"])]
        if o["count"] is not None:
            argv += ["-c", str(o["count"])]
        if o["selector"] is not None:
            argv += ["-s", o["selector"]]
        if o["no_compile"]:
            argv += ["-n"]
        if o["fields"]:
            argv += ["-F", ",".join(o["fields"])]
        if o["exclude"]:
            argv += ["-X", ",".join(o["exclude"])]
        if o["source"] is not None:
            argv += ["--record-source", o["source"]]
        if o["classification"] is not None:
            argv += ["--record-classification", o["classification"]]
        if o["multits"]:
            argv += ["--multi-timestamp"]
        if o["list"]:
            argv += ["-l"]
        form, _ = _form_of(out)
        writer = None
        if out["kind"] == "mode":
            argv += ["-m", out["what"]]
        elif out["kind"] == "wstdout":
            writer = "-"
        elif out["kind"] == "file":
            w = out["what"]
            writer = {"jsonl": os.path.join(d, "out.jsonl"),
                      "jsonfile-nodesc": "jsonfile://" + os.path.join(d, "out.json") + "?descriptors=false",
                      "csv": os.path.join(d, "out.csv"), "csvfile": "csvfile://" + os.path.join(d, "out.csv"),
                      "line": "line://" + os.path.join(d, "out.txt"),
                      "line-verbose": "line://" + os.path.join(d, "out.txt") + "?verbose=true",
                      "text": "text://" + os.path.join(d, "out.txt")}.get(w) or os.path.join(d, "out." + w)
            if out["also_mode"]:
                argv += ["-m", out["also_mode"]]
            if out["split"]:
                argv += ["--split", str(out["split"]), "--suffix-length", str(out["suffix"])]
        if writer is not None:
            argv += ["-w", writer]
        if case.get("prior"):
            # the same process ran rdump over the SAME sources before, with other options (output discarded): what this
            # invocation does depends on its own command line only
            pd = tempfile.mkdtemp(prefix="frv-c16p-")
            try:
                _call_rdump(list(paths) + list(case["prior"]) + ["-w", os.path.join(pd, "prior.records")])
            finally:
                shutil.rmtree(pd, ignore_errors=True)
        status, stdout, uris = _call_rdump(argv)
        obs = {"status": status, "counts": counts, "fails": fails, "uris": [u.replace(d, "<D>") for u in uris],
               "argv": [a.replace(d, "<D>") for a in argv[len(paths):]], "writer": writer.replace(d, "<D>") if writer else None}
        try:
            if o["list"]:
                obs["stdout_text"] = stdout.decode("utf-8", "surrogateescape")
                obs["files"] = _read_files(d, form) if out["kind"] == "file" else None
            elif out["kind"] == "file":
                obs["stdout_text"] = stdout.decode("utf-8", "surrogateescape")
                obs["files"] = _read_files(d, form)
            else:
                obs["stdout"] = _parse(form, stdout)
        except Exception as e:
            obs["parse_error"] = f"{type(e).__name__}: {str(e)[:200]}"
        # the outcome table of the real engine, for the model
        outcomes = {}
        if o["selector"] is not None:
            cls = Selector if o["no_compile"] else CompiledSelector
            for recs, cnt in zip(srcs, counts):
                for rec in recs[:cnt]:
                    sel = cls(o["selector"])
                    try:
                        outcomes[rec["meta"][2]] = "t" if sel.match(built[rec["id"]]) else "f"
                    except Exception:
                        outcomes[rec["meta"][2]] = "other"
        obs["outcomes"] = outcomes
        return obs
    finally:
        shutil.rmtree(d, ignore_errors=True)


def _read_files(d, form):
    def order(n):
        # split files are numbered out.<k>.<ext>; the number may outgrow --suffix-length (out.10 after out.9)
        nums = [int(p) for p in n.split(".")[1:] if p.isdigit()]
        return (nums[0] if nums else -1, n)

    names = sorted((n for n in os.listdir(d) if n.startswith("out.")), key=order)
    files = []
    for n in names:
        p = os.path.join(d, n)
        if os.path.getsize(p) == 0:
            continue  # the split writer opens the next file eagerly; an empty trailing file holds no record
        if form == "records":
            files.append(_parse(form, None, path=p))
        else:
            files.append(_parse(form, open(p, "rb").read()))
    return files


# ------------------------------------------------------------------ comparing an observation with an expectation

def _diff(case, obs, exp, who):
    if "parse_error" in obs:
        return f"output of rdump could not be parsed back: {obs['parse_error']}"
    if obs["status"] is not None:
        return f"rdump ended with {obs['status']}"
    if "stdout" in exp:
        got, want = obs.get("stdout"), exp["stdout"]
        if got != want:
            return _first_diff(got, want, "stdout", who)
        return None
    if obs.get("stdout_text") != exp["stdout_text"]:
        return f"stdout differs from {who}: {obs.get('stdout_text')!r:.200} vs {exp['stdout_text']!r:.200}"
    if exp["files"] is not None:
        got = [f for f in (obs.get("files") or []) if f]
        want = [f for f in exp["files"] if f]
        if len(got) != len(want):
            return f"{len(got)} non-empty output files, {who} expects {len(want)}"
        for i, (g, w) in enumerate(zip(got, want)):
            if g != w:
                return _first_diff(g, w, f"output file {i}", who)
    return None


def _first_diff(got, want, where, who):
    got, want = got or [], want or []
    if len(got) != len(want):
        return f"{where}: {len(got)} entries, {who} expects {len(want)}"
    for i, (g, w) in enumerate(zip(got, want)):
        if g != w:
            return f"{where}: entry {i} is {json.dumps(g, default=repr)[:300]} but {who} expects {json.dumps(w, default=repr)[:300]}"
    return f"{where} differs from {who}"


def oracle(case, obs):
    if "harness_exception" in obs:
        return None
    ref = reference(case, obs["counts"])
    exp = expected_canonical(case, ref, obs)
    # strong sources: the computed intact prefix is part of the expectation already (counts come from the writer
    # side for uncompressed/jsonl sources); nothing else is taken from rdump's own observation.
    return _diff(case, obs, exp, "the reference pipeline")


# ------------------------------------------------------------------ model

def model_op(case, obs):
    srcs, _ = _symbolic_sources(case)
    o, out = case["opts"], case["out"]
    sources = []
    for recs, cnt, fk in zip(srcs, obs["counts"], obs["fails"]):
        sources.append({"records": [{"name": r["name"], "fields": r["fields"], "meta": r["meta"]} for r in recs[:cnt]],
                        "fails": fk})
    op = {"op": "c16.pipeline", "sel": o["selector"] is not None, "outcomes": obs["outcomes"], "sources": sources,
          "opts": {"skip": o["skip"], "count": o["count"], "fields": o["fields"] or [], "exclude": o["exclude"] or [],
                   "source": o["source"], "classification": o["classification"], "multits": o["multits"],
                   "list": o["list"]},
          "present": {"writer": obs["writer"], "mode": out["what"] if out["kind"] == "mode" else out["also_mode"],
                      "fields": ",".join(o["fields"]) if o["fields"] else None,
                      "exclude": ",".join(o["exclude"]) if o["exclude"] else None,
                      "split": out["split"] if out["kind"] == "file" else None, "suffix": out["suffix"]}}
    return op


def compare(case, obs, m):
    if "error" in m:
        return f"model error {m['error']}"
    if m.get("crash"):
        return f"model: record_stream re-raises {m['crash']}"
    if obs["uris"] != [m["uri"]]:
        return f"writer URI: model {m['uri']!r} vs implementation {obs['uris']!r}"
    sym = {"written": m["written"], "listed": m["listed"], "processed": m["processed"]}
    try:
        exp = expected_canonical(case, sym, obs, as_code=True)
    except Exception as e:
        return f"model output cannot be materialised: {type(e).__name__}: {e}"
    return _diff(case, obs, exp, "the Lean pipeline")


def nontrivial(case, obs):
    if "counts" not in obs:
        return False
    any_rec = sum(obs["counts"]) > 0
    o = case["opts"]
    opted = any(o[k] for k in ("skip", "count", "selector", "fields", "exclude", "multits", "list")) or \
        o["source"] is not None or o["classification"] is not None or any(s["type"] != "good" for s in case["sources"])
    return any_rec and opted


def classify(case, obs):
    o, out = case["opts"], case["out"]
    b = [f"bucket:{case['bucket']}", f"out:{out['kind']}:{out['what']}" + (":split" if out["split"] else "")]
    for s in case["sources"]:
        b.append(f"source:{s['type']}:{s['format']}" + (":anon-name" if s.get("anon") else ""))
    b.append("placement:" + "".join(s["type"][0] for s in case["sources"]))
    for k in ("skip", "count", "selector", "no_compile", "fields", "exclude", "multits", "list"):
        if o[k]:
            b.append(f"opt:{k}")
    if o["count"] == 0:
        b.append("opt:count=0")
    if o["source"] is not None:
        b.append("opt:record-source")
    if o["classification"] is not None:
        b.append("opt:record-classification")
    if obs.get("status"):
        b.append(f"status:{obs['status']}")
    return b


def shrink(case):
    for i in range(len(case["sources"])):
        if len(case["sources"]) > 1:
            c = json.loads(json.dumps(case))
            del c["sources"][i]
            yield c
    for i, s in enumerate(case["sources"]):
        for j in range(len(s["records"])):
            if s["type"] == "good":
                c = json.loads(json.dumps(case))
                del c["sources"][i]["records"][j]
                yield c
    for k, v in (("skip", 0), ("count", None), ("fields", None), ("exclude", None), ("source", None),
                 ("classification", None), ("multits", False), ("no_compile", False), ("selector", None)):
        if case["opts"][k] != v and not (k == "selector" and case["bucket"] == "raising"):
            c = json.loads(json.dumps(case))
            c["opts"][k] = v
            yield c
    if case["out"]["split"]:
        c = json.loads(json.dumps(case))
        c["out"]["split"] = None
        yield c


def _writer_projection_drops_ts(case, obs, failure):
    o, out = case["opts"], case["out"]
    return out["kind"] == "mode" and out["what"] in ("csv", "line") and bool(o["fields"]) \
        and o["multits"] and not o["list"] and "expects" in (failure or "")


MATCHERS = {"writer_projection_drops_ts": _writer_projection_drops_ts}
