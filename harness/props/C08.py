"""C08 — comparisons on a field the record lacks are false and never raise.

cell   : the finite grammar, enumerated completely on the real engines: 8 operators x position of the missing
         operand x kind of the other operand (literal of each type, field of each whitelisted field type, list, tuple,
         None, another missing field, a list holding a missing field) x boolean context x both engines.
stream : heterogeneous record streams (some records have the field, some do not, some hold None) filtered through
         RecordStreamReader(selector=...), record_stream([...], selector) and `rdump -s` itself (which swallow
         an exception per source): the output must be exactly the records that have the field and satisfy the
         condition, in order.
Oracle is stated on the real observation only; the Lean model (interpMatch / compiledMatch with the concrete Prim)
is compared on every case.
"""
import io
import os
import shutil
import tempfile
import warnings

from harness import selector_ast as SA

ID = "C08"
CLAIM = dict(
    text="Kernel-checked theorems about Python's rich-comparison / membership dispatch with the missing-field "
         "sentinel given by the method table extracted from class NoneObject and the interpreted engine's "
         "operators given by the extracted AST_COMPARATORS: for every class table and every other operand that "
         "leaves the comparison to the sentinel, every operator in both positions is False without error in the "
         "interpreted engine and, in the compiled engine, for the six orderings and `v in r.missing`; under "
         "and/or/not the comparison contributes False; filtering a mixed stream keeps exactly the records that have "
         "the field and satisfy the condition; helpers skip missing fields. Tie: translator (method table, "
         "comparator shapes, structural flags) + exhaustive enumeration of the finite grammar on the real engines + "
         "filtered record streams, all compared with the model.",
    note="partial: the compiled engine's `not in` (True) and `r.missing in <non-sequence>` (TypeError) cells are "
         "false of model and code (counterexample theorems, known findings); operands whose class answers == / != "
         "itself (command, net.ipaddress, net.ipnetwork, records: `!=` is True; net.ipv4.Address raises) are outside "
         "the Foreign hypothesis and recorded as known findings; CPython's dispatch itself is modelled, not verified.",
    technique="Lean 4 theorems over extracted tables + exhaustive model/implementation correspondence",
    design="8/C08")
RULE = ("cell: exhaustive product operator{==,!=,<,>,<=,>=,in,not in} x position{missing left,right} x other operand "
        "{14 literals, one field per whitelisted field type + string[] + record + None-valued field, another missing "
        "field, list/tuple holding a missing field} x context{bare, C and True, True and C, C or False, False or C, "
        "not C, not not C} x engine{interpreted, compiled}; field values drawn per seed. stream: seeded mixed streams "
        "x operator x constant x engine x reader{RecordStreamReader, record_stream, rdump -s}. Every case is non-trivial (each evaluates a comparison with the "
        "sentinel); distinct by hash of the case.")
TRUSTED = ["CPython's rich-comparison and membership dispatch (modelled in PyOps.lean; exercised exhaustively)"]
ASSUMPTIONS = ["other operands are the builtin types and flow.record field types enumerated by the grammar"]
EXPLANATION = ("cell kind enumerates the finite grammar completely in every tier (exhaustive: true refers to it); "
               "stream kind is seeded")

OPS = ["==", "!=", "<", ">", "<=", ">=", "in", "not in"]
CTX = ["bare", "and1", "and2", "or1", "or2", "not", "notnot"]
ENGINES = ["interpreted", "compiled"]
LITERALS = [("int", "1"), ("int0", "0"), ("str", "'abc'"), ("str0", "''"), ("bytes", "b'xy'"), ("float", "1.5"),
            ("true", "True"), ("false", "False"), ("none", "None"), ("list", "[1]"), ("list0", "[]"),
            ("listmix", "['a', 1]"), ("tuple", "(1,)"), ("tuple0", "()")]
SPECIAL = [("missing2", "r.other_missing"), ("list_missing", "[r.other_missing]"), ("tuple_missing", "(r.other_missing, 1)")]

# value pools per field type (JSON-able specs, see build_field)
POOLS = {
    "boolean": [True, False], "command": ["ls -l /tmp", "cmd.exe /c dir"], "dynamic": ["dyn", 7],
    "datetime": ["2020-01-01T00:00:00+00:00", "1999-12-31T23:59:59.5+00:00"], "filesize": [10, 0],
    "uint16": [3, 65535], "uint32": [4, 0], "float": [1.5, 0.0, -2.25], "string": ["abc", "", "Zz"],
    "stringlist": [["a", "b"], []], "dictlist": [[{"a": "b"}], []], "unix_file_mode": [420, 0],
    "varint": [5, 0, -17, 2 ** 70], "wstring": ["w", ""], "net.ipv4.Address": ["1.2.3.4"],
    "net.ipv4.Subnet": ["10.0.0.0/8"], "net.tcp.Port": [80], "net.udp.Port": [53], "uri": ["http://x/y"],
    "digest": [["d41d8cd98f00b204e9800998ecf8427e", None, None]], "bytes": ["7879", ""],
    "net.ipaddress": ["1.2.3.4", "::1"], "net.ipnetwork": ["10.0.0.0/8"], "net.IPAddress": ["::1"],
    "net.IPNetwork": ["fe80::/10"], "path": ["/tmp/x", "rel/y"],
}
ANSWERING = {"command", "net.ipaddress", "net.ipnetwork", "net.IPAddress", "net.IPNetwork", "record"}


def EXHAUSTIVE(tier):
    return True


def WORKERS(tier):
    return 1 if tier == "quick" else 8


def _whitelist():
    from flow.record.whitelist import WHITELIST
    return [t for t in WHITELIST if t != "record"]


def cell_record_spec(rng):
    """[[type, name, value spec]...] — one field per whitelisted type + list, record and None-valued fields."""
    fields = []
    for i, t in enumerate(_whitelist()):
        fields.append([t, "f%d" % i, rng.choice(POOLS[t])])
    fields.append(["string[]", "fl", rng.choice([["a"], [], ["x", "y"]])])
    fields.append(["record", "fr", {"q": rng.choice(["z", ""])}])
    fields.append(["string", "fnone", None])
    return fields


build_record = SA.build_record


def cell_source(op, pos, other_src, ctx):
    c = f"r.missing {op} {other_src}" if pos == "L" else f"{other_src} {op} r.missing"
    return {"bare": c, "and1": f"({c}) and True", "and2": f"True and ({c})", "or1": f"({c}) or False",
            "or2": f"False or ({c})", "not": f"not ({c})", "notnot": f"not (not ({c}))"}[ctx]


def ctx_value(ctx, c):
    """Python's value of the context when the comparison itself is `c`."""
    return {"bare": c, "and1": c and True, "and2": True and c, "or1": c or False, "or2": False or c,
            "not": not c, "notnot": not (not c)}[ctx]


def others(recspec):
    out = [(k, s, None) for k, s in LITERALS + SPECIAL]
    for t, n, _ in recspec:
        out.append(("field:" + t if n not in ("fnone",) else "field:none", "r." + n, t))
    return out


def gen_cases(rng, tier):
    cases = []
    # the finite grammar, completely; thorough repeats it on three records with different field values
    for rep in range({"quick": 1, "thorough": 3, "search": 1}[tier]):
        recspec = cell_record_spec(rng.fork("cellrec%d" % rep if rep else "cellrec"))
        ctxs = CTX if tier != "search" else ["bare"]  # contexts add nothing when hunting for a failing cell
        for eng in ENGINES:
            for op in OPS:
                for pos in ("L", "R"):
                    for kind, src, ft in others(recspec):
                        for ctx in ctxs:
                            cases.append({"kind": "cell", "engine": eng, "op": op, "pos": pos, "other": kind,
                                          "src": cell_source(op, pos, src, ctx), "ctx": ctx, "rec": recspec})
    # helper functions: every helper x field lists mixing present and missing names x engine
    rh = rng.fork("helper")
    for _ in range({"quick": 400, "thorough": 4000, "search": 800}[tier]):
        cases.append(gen_helper(rh))
    n = {"quick": 300, "thorough": 6000, "search": 1000}[tier]
    r = rng.fork("stream")
    for _ in range(n):
        cases.append(gen_stream(r))
    # streams that also hold GROUPED records (a field none of its members has is missing on the group as well), and a
    # compared field whose NAME is that of a method of common containers (keys, items, get, ...): missing is missing
    rg = rng.fork("gstream")
    for _ in range({"quick": 120, "thorough": 1500, "search": 300}[tier]):
        cases.append(gen_gstream(rg))
    return cases


GS_NAMES = ["x", "x", "keys", "items", "values", "get", "index", "count", "update", "copy", "pop", "fields"]   # (not `name` / `records`: public attributes of a GroupedRecord object)


def gen_gstream(r):
    import operator
    fname = r.choice(GS_NAMES)
    ft = r.choice(["varint", "string"])
    op = r.choice(["==", "!=", "<", ">", "<=", ">="])
    const = r.choice([0, 5, 3]) if ft == "varint" else r.choice(["abc", "", "b"])
    pos = r.choice(["L", "L", "R"])
    entries = []
    for i in range(r.randint(2, 9)):
        def member(has):
            if has:
                return ["t/has", [[ft, fname, r.choice([0, 5, 7, -1]) if ft == "varint" else r.choice(["abc", "b", "zz"])],
                                  ["varint", "idx", i]]]
            return ["t/lacks", [["string", "y", r.choice(["abc", "q"])], ["varint", "idx", i]]]
        w = r.below(6)
        if w < 2:
            ms = [member(True)]
        elif w < 4:
            ms = [member(False)]
        elif w == 4:
            ms = [member(False), ["t/other", [["string", "z", "q"]]]]                  # a group none of whose members has it
        else:
            ms = [member(False), ["t/has2", [[ft, fname, 5 if ft == "varint" else "abc"]]]]   # the second member has it
        entries.append({"idx": i, "members": ms})
    lit = repr(const)
    cmp_src = f"r.{fname} {op} {lit}" if pos == "L" else f"{lit} {op} r.{fname}"
    ctx = r.choice(["bare", "bare", "not", "guard"])
    src = {"bare": cmp_src, "not": f"not ({cmp_src})", "guard": f"r.{fname} and ({cmp_src})"}[ctx]
    return {"kind": "gstream", "engine": r.choice(ENGINES), "fname": fname, "op": op, "pos": pos, "const": const, "ctx": ctx,
            "src": src, "entries": entries}


def _gs_expected(case):
    import operator
    ops = {"==": operator.eq, "!=": operator.ne, "<": operator.lt, ">": operator.gt, "<=": operator.le, ">=": operator.ge}
    out = []
    for e in case["entries"]:
        val, has = None, False
        for name, fields in e["members"]:
            for t, n, v in fields:
                if n == case["fname"] and not has:
                    val, has = v, True
        if not has:
            c, g = False, False
        else:
            a, b = (val, case["const"]) if case["pos"] == "L" else (case["const"], val)
            c, g = bool(ops[case["op"]](a, b)), bool(val)
        keep = {"bare": c, "not": not c, "guard": g and c}[case["ctx"]]
        if keep:
            out.append(e["idx"])
    return out


STREAM_CONSTS = {
    "varint": ["0", "5", "3", "[1, 5]", "(5,)", "[]", "'5'", "None", "1.5"],
    "string": ["'abc'", "''", "'b'", "['abc', 'x']", "('b',)", "[]", "5", "None"],
    "bytes": ["b'xy'", "b''", "[b'xy']", "'xy'"],
    "float": ["1.5", "0", "[1.5]", "'a'"],
    "boolean": ["True", "1", "[True]", "None"],
    "string[]": ["['a']", "[]", "'a'", "[['a']]"],
}
STREAM_VALUES = {
    "varint": [0, 5, -3, 1, 2 ** 40, None], "string": ["abc", "", "b", "xabcx", None], "bytes": ["7879", "", "78", None],
    "float": [1.5, 0.0, -1.0, None], "boolean": [True, False, None], "string[]": [["a"], [], ["a", "b"], None],
}


def gen_stream(r):
    ft = r.choice(list(STREAM_CONSTS))
    op = r.choice(OPS)
    pos = r.weighted([(3, "L"), (1, "R")])
    const = r.choice(STREAM_CONSTS[ft])
    engine = r.choice(ENGINES)
    via = r.choice(["reader", "record_stream", "rdump"])
    nsrc = 1 if via == "reader" else r.randint(1, 3)
    sources = []
    idx = 0
    # one record type NAME for all shapes in a third of the streams (schema evolution: same name, different fields)
    same = r.chance(35)
    nm = (lambda shape: "t/evolving") if same else (lambda shape: "t/" + shape)
    for _ in range(nsrc):
        recs = []
        for _ in range(r.randint(1, 12)):
            shape = r.weighted([(4, "has"), (4, "lacks"), (1, "other_type")])
            if shape == "has":
                recs.append([nm("has"), [[ft, "x", r.choice(STREAM_VALUES[ft])], ["varint", "idx", idx]]])
            elif shape == "lacks":
                recs.append([nm("lacks"), [["string", "y", r.choice(["abc", "q"])], ["varint", "idx", idx]]])
            else:
                ot = "string" if ft != "string" else "varint"
                recs.append([nm("other"), [[ot, "x", r.choice(STREAM_VALUES[ot])], ["varint", "idx", idx]]])
            idx += 1
        sources.append(recs)
    cmp_src = f"r.x {op} {const}" if pos == "L" else f"{const} {op} r.x"
    # the comparison inside a boolean context: a record lacking the field makes the COMPARISON false, which may make
    # the selector true (`not (...)`, `... or name(r) == ...`) - such records have to come out
    # ... or inside a generator expression (a nested code object for the compiled engine), alone or next to a
    # condition on a field every record has
    # ... or next to the bare field as a guard (`r.x and r.x >= 3`): for a record lacking the field the selector's VALUE
    # is then the falsy missing-field sentinel rather than a literal False - the record must still be filtered out
    ctx = r.weighted([(5, "bare"), (2, "not"), (2, "or_name"), (1, "and_has"), (1, "any_gen"), (1, "idx_and_any"),
                      (1, "all_gen"), (1, "guard_and"), (1, "or_guard"), (1, "not_and_guard")])
    if op in ("in", "not in"):
        ctx = "bare"      # the recorded compiled-engine findings on membership would surface inverted under `not`
    lacks_name = nm("lacks")
    src = {"bare": cmp_src, "not": f"not ({cmp_src})", "or_name": f"({cmp_src}) or name(r) == '{lacks_name}'",
           "and_has": f"has_field(r, 'x') and ({cmp_src})",
           "any_gen": f"any(({cmp_src}) for i in (1,))",
           "idx_and_any": f"r.idx >= 0 and any(({cmp_src}) for i in (1, 2))",
           "all_gen": f"all(({cmp_src}) for i in (1, 2))",
           "guard_and": f"r.x and ({cmp_src})", "or_guard": f"({cmp_src}) or r.x",
           "not_and_guard": f"not ({cmp_src}) and r.x"}[ctx]
    case = {"kind": "stream", "engine": engine, "op": op, "pos": pos, "src": src, "cmp": cmp_src, "ctx": ctx,
            "lacks_name": lacks_name, "via": via, "sources": sources}
    if via != "reader" and ft != "bytes" and r.chance(30):
        case["fmt"] = "jsonl"         # the sources are JSON-lines files (same mixes of types, same-name evolution included)
    return case


HELPER_PRESENT = ["s", "t", "u"]
HELPER_MISSING = ["nosuch", "gone", "x9"]


def gen_helper(r):
    """`helper(r, [field names], strings | regex)`: names of string fields the record has, mixed with names it lacks,
    in every position; a few records also hold None or a non-text value (then the helper may raise with or without
    the missing names — the expectation is only that the missing names change nothing)."""
    helper = r.choice(["field_contains", "field_equals", "field_regex"])
    rec = [["string", "s", r.choice(["abc", "xabcx", "", "Zz top", "b"])], ["string", "t", r.choice(["abc", "q", "B", "a b"])],
           ["string", "u", r.weighted([(5, "Abc"), (1, None)])], ["varint", "idx", r.randint(0, 9)]]
    k = r.randint(0, 3)
    names = r.sample(HELPER_PRESENT, r.randint(0, 3)) + r.sample(HELPER_MISSING, k)
    order = list(names)
    for i in range(len(order) - 1, 0, -1):       # shuffle
        j = r.below(i + 1)
        order[i], order[j] = order[j], order[i]
    if not any(n in HELPER_MISSING for n in order):
        order.insert(r.below(len(order) + 1), "nosuch")
    seq = r.choice(["list", "tuple"])
    lit = (lambda xs: "[" + ", ".join(repr(x) for x in xs) + "]") if seq == "list" else \
        (lambda xs: "(" + "".join(repr(x) + ", " for x in xs) + ")")
    if helper == "field_regex":
        arg = repr(r.choice(["abc", "b", "Zz", "q", "a b", "top", "nomatch", "x"]))
        kw = ""
    else:
        arg = "[" + ", ".join(repr(x) for x in r.sample(["abc", "B", "q", "zz top", "x", ""], r.randint(1, 2))) + "]"
        kw = r.choice(["", "", ", nocase=False", ", nocase=True"])
    present = [n for n in order if n in HELPER_PRESENT]
    return {"kind": "helper", "engine": r.choice(ENGINES), "helper": helper, "rec": rec,
            "src": f"{helper}(r, {lit(order)}, {arg}{kw})", "src_present": f"{helper}(r, {lit(present)}, {arg}{kw})"}


def _err(e):
    return {"error": type(e).__name__, "msg": str(e)[:160]}


def _selector(engine, src):
    from flow.record.selector import CompiledSelector, Selector
    return Selector(src) if engine == "interpreted" else CompiledSelector(src)


def reference_keep(src, rec, ctx="bare", lacks_name=None):
    """The property's right-hand side for one record: the COMPARISON holds iff the record has the field and plain
    Python says so (evaluated by CPython over a namespace in which `r` is the plain record, no sentinel anywhere);
    the selector's value is the boolean context applied to that."""
    if not hasattr(rec, "x"):
        c = False
    else:
        try:
            c = bool(eval(src, {"__builtins__": {}}, {"r": rec}))
        except Exception:
            return None  # the condition itself is ill-typed on this record's value: no expectation
    if ctx == "not":
        return not c
    if ctx == "or_name":
        return c or rec._desc.name == lacks_name
    if ctx == "and_has":
        return ("x" in rec._desc.fields) and c
    if ctx in ("guard_and", "or_guard", "not_and_guard"):
        if not hasattr(rec, "x"):
            return False              # the guard is the missing field itself: falsy
        g = bool(rec.x)
        return {"guard_and": g and c, "or_guard": c or g, "not_and_guard": (not c) and g}[ctx]
    return c


def run_real(case):
    from flow.record.stream import RecordStreamReader, RecordStreamWriter, record_stream

    if case["kind"] == "cell":
        rec = build_record("t/cell", case["rec"])
        try:
            with warnings.catch_warnings():
                warnings.simplefilter("ignore")
                v = _selector(case["engine"], case["src"]).match(rec)
            return {"value": SA.value_json(v)}
        except Exception as e:
            return _err(e)
    if case["kind"] == "gstream":
        from flow.record import GroupedRecord
        buf = io.BytesIO()
        w = RecordStreamWriter(buf)
        for e in case["entries"]:
            ms = [build_record(n, f) for n, f in e["members"]]
            w.write(ms[0] if len(ms) == 1 else GroupedRecord("grp/c08", ms))
        w.flush()
        got, err = [], None
        try:
            with warnings.catch_warnings():
                warnings.simplefilter("ignore")
                for rec in RecordStreamReader(io.BytesIO(buf.getvalue()), selector=_selector(case["engine"], case["src"])):
                    got.append(int(rec.idx))
        except Exception as e:
            err = _err(e)
        return {"got": got, "expected": _gs_expected(case), "undecided": [], "raised": err}
    if case["kind"] == "helper":
        rec = build_record("t/helper", case["rec"])
        out = {}
        for key in ("src", "src_present"):
            try:
                out[key] = {"value": SA.value_json(_selector(case["engine"], case[key]).match(rec))}
            except Exception as e:
                out[key] = _err(e)
        return out
    # ---- stream
    blobs, expected, undecided = [], [], []
    jdir = tempfile.mkdtemp(prefix="frv-c08j-") if case.get("fmt") == "jsonl" else None
    for recs in case["sources"]:
        buf = io.BytesIO()
        if jdir:
            from flow.record import RecordWriter
            jp = os.path.join(jdir, "src.jsonl")
            w = RecordWriter("jsonfile://" + jp)
        else:
            w = RecordStreamWriter(buf)
        for name, fields in recs:
            rec = build_record(name, fields)
            keep = reference_keep(case.get("cmp", case["src"]), rec, case.get("ctx", "bare"), case.get("lacks_name"))
            if keep is None:
                # the condition is ill-typed on the value this record holds (plain Python raises): not C08's subject,
                # the record is left out of the stream
                undecided.append(int(rec.idx))
                continue
            if keep:
                expected.append(int(rec.idx))
            w.write(rec)
        w.flush()
        if jdir:
            w.close()
            blobs.append(open(jp, "rb").read())
        else:
            blobs.append(buf.getvalue())
    if jdir:
        shutil.rmtree(jdir, ignore_errors=True)
    sel = _selector(case["engine"], case["src"])
    got, err = [], None
    if case["via"] == "reader":
        try:
            for rec in RecordStreamReader(io.BytesIO(blobs[0]), selector=sel):
                got.append(int(rec.idx))
        except Exception as e:
            err = _err(e)
    else:
        d = tempfile.mkdtemp(prefix="frv-c08-")
        try:
            paths = []
            for i, b in enumerate(blobs):
                p = os.path.join(d, ("s%d.jsonl" if case.get("fmt") == "jsonl" else "s%d.records") % i)
                with open(p, "wb") as f:
                    f.write(b)
                paths.append(p)
            import logging
            logging.disable(logging.CRITICAL)
            try:
                if case["via"] == "rdump":
                    # the command line tool: rdump -s <selector> [-n] sources... -w out.records
                    from flow.record.tools import rdump
                    outp = os.path.join(d, "out.records")
                    argv = ["-s", case["src"]] + (["-n"] if case["engine"] == "interpreted" else []) + paths + ["-w", outp]
                    rdump.main(argv)
                    with open(outp, "rb") as f:
                        for rec in RecordStreamReader(f):
                            got.append(int(rec.idx))
                else:
                    for rec in record_stream(paths, sel):
                        got.append(int(rec.idx))
            except (Exception, SystemExit) as e:
                err = _err(e)
            finally:
                logging.disable(logging.NOTSET)
        finally:
            shutil.rmtree(d, ignore_errors=True)
    return {"got": got, "expected": expected, "undecided": undecided, "raised": err}


def oracle(case, obs):
    if case["kind"] == "cell":
        if "error" in obs:
            return f"{case['engine']} engine: `{case['src']}` raises {obs['error']}: {obs.get('msg', '')}"
        want = ["bool", ctx_value(case["ctx"], False)]
        if obs["value"] != want:
            return (f"{case['engine']} engine: `{case['src']}` evaluates to {obs['value']} — the comparison with the "
                    f"missing field is not False (expected {want})")
        return None
    if case["kind"] == "helper":
        full, pres = obs["src"], obs["src_present"]
        a = full.get("value", full.get("error"))
        b = pres.get("value", pres.get("error"))
        if a != b:
            return (f"{case['engine']} engine: `{case['src']}` gives {a} {full.get('msg', '')} but over the fields the "
                    f"record has (`{case['src_present']}`) the helper gives {b}: missing fields are not skipped")
        return None
    case = dict(case, via=case.get("via", "reader"))
    if obs["raised"]:
        return (f"filtering with `{case['src']}` ({case['engine']}, {case['via']}) raised {obs['raised']['error']}: "
                f"{obs['raised']['msg']}")
    und = set(obs["undecided"])
    got = [i for i in obs["got"] if i not in und]
    if got != obs["expected"]:
        missing = [i for i in obs["expected"] if i not in got]
        extra = [i for i in got if i not in obs["expected"]]
        return (f"filtering with `{case['src']}` ({case['engine']}, {case['via']}): output differs from the records "
                f"that have the field and satisfy the condition; dropped {missing[:6]}, extra {extra[:6]}")
    return None


def model_op(case, obs):
    if case["kind"] == "cell":
        rec = build_record("t/cell", case["rec"])
        return {"op": "sel_eval", "engine": case["engine"], "expr": SA.expr_json(case["src"]),
                "record": SA.record_json(rec)}
    if case["kind"] == "helper":
        rec = build_record("t/helper", case["rec"])
        return {"op": "sel_eval", "engine": case["engine"], "expr": SA.expr_json(case["src"]),
                "record": SA.record_json(rec)}
    if case["kind"] == "gstream":
        return None          # grouped records in the stream: real-code oracle only
    und = set(obs["undecided"])
    recs, bounds = [], []
    for srcrecs in case["sources"]:
        for name, fields in srcrecs:
            if int(fields[-1][2]) not in und:
                recs.append(SA.record_json(build_record(name, fields)))
        bounds.append(len(recs))
    return {"op": "sel_filter", "engine": case["engine"], "expr": SA.expr_json(case["src"]), "records": recs,
            "source_ends": bounds}


def compare(case, obs, m):
    if case["kind"] == "helper":
        obs = obs["src"]
    if case["kind"] in ("cell", "helper"):
        if "error" in obs:
            if m.get("error") != obs["error"]:
                return f"implementation raises {obs['error']}, model gives {m}"
            return None
        if "value" not in m:
            return f"implementation gives {obs['value']}, model gives {m}"
        if SA.canon(m["value"]) != SA.canon(obs["value"]):
            return f"value: model {m['value']} vs implementation {obs['value']}"
        return None
    if "kept" not in m:
        return f"model gives {m}"
    und = set(obs["undecided"])
    all_idx = [int(fields[-1][2]) for recs in case["sources"] for _, fields in recs if int(fields[-1][2]) not in und]
    kept = [all_idx[i] for i in m["kept"]]
    if kept != obs["got"]:
        return f"kept records: model {kept[:12]} vs implementation {obs['got'][:12]}"
    if bool(m.get("errors")) != bool(obs["raised"]) and case["via"] == "reader":
        return f"abort: model {m.get('errors')} vs implementation {obs['raised']}"
    return None


def nontrivial(case, obs):
    if case["kind"] in ("cell", "helper"):
        return True
    if case["kind"] == "gstream":
        return True
    has = [fields[0][1] == "x" and len(fields) == 2 for recs in case["sources"] for _, fields in recs]
    return any(has) and not all(has)


def classify(case, obs):
    if case["kind"] == "helper":
        o = obs["src"]
        return [f"helper:{case['helper']}:{case['engine']}:{o.get('error') or o['value'][1]}"]
    if case["kind"] == "cell":
        res = obs.get("error") or str(obs["value"][1])
        return [f"cell:{case['engine']}:{case['op']}:{case['pos']}:{res}", f"ctx:{case['ctx']}"]
    if case["kind"] == "gstream":
        return [f"gstream:{case['engine']}:{case['fname']}", "gstream:" + ("raised" if obs["raised"] else "ok")]
    return [f"stream:{case['via']}:{case['engine']}:{case['op']}",
            "stream:" + ("raised" if obs["raised"] else "kept=%d" % min(len(obs["got"]), 5))]


def shrink(case):
    if case["kind"] == "helper":
        return
    if case["kind"] == "cell":
        if case["ctx"] != "bare":
            c = dict(case)
            c["ctx"] = "bare"
            inner = case["src"]
            for kind, src, _ in others(case["rec"]):
                if kind == case["other"]:
                    c["src"] = cell_source(case["op"], case["pos"], src, "bare")
                    yield c
        return
    if case["kind"] == "gstream":
        for i in range(len(case["entries"])):
            if len(case["entries"]) > 1:
                yield dict(case, entries=case["entries"][:i] + case["entries"][i + 1:])
        return
    for si, recs in enumerate(case["sources"]):
        if len(case["sources"]) > 1:
            c = dict(case)
            c["sources"] = case["sources"][:si] + case["sources"][si + 1:]
            yield c
        for ri in range(len(recs)):
            if len(recs) > 1:
                c = dict(case)
                c["sources"] = [list(s) for s in case["sources"]]
                del c["sources"][si][ri]
                yield c


# ---- known findings: narrow signatures -------------------------------------------------------------------------

SEQ_KINDS = {"list", "list0", "listmix", "tuple", "tuple0", "missing2", "list_missing", "tuple_missing",
             "field:stringlist", "field:dictlist", "field:string[]", "field:net.ipnetwork", "field:net.IPNetwork",
             "field:net.ipv4.Subnet"}


def _cell_value_is(case, obs, c):
    return "error" not in obs and obs.get("value") == ["bool", ctx_value(case["ctx"], c)]


def m_compiled_notin(case, obs, failure):
    if case["engine"] != "compiled" or case["op"] != "not in":
        return False
    if case["kind"] == "cell":
        return _cell_value_is(case, obs, True) and (case["pos"] == "R" or case["other"] in SEQ_KINDS)
    # stream: nothing raised, nothing dropped, only extra records (those lacking the field)
    return not obs["raised"] and all(i in obs["got"] for i in obs["expected"])


def m_compiled_in_left_raises(case, obs, failure):
    if case["engine"] != "compiled" or case["op"] not in ("in", "not in") or case["pos"] != "L":
        return False
    if case["kind"] == "cell":
        return obs.get("error") == "TypeError" and case["other"] not in SEQ_KINDS
    # stream: the reader aborts with TypeError (record_stream swallows it and skips the rest of that source)
    if case["via"] == "reader":
        return bool(obs["raised"]) and obs["raised"]["error"] == "TypeError"
    return not obs["raised"]  # record_stream / rdump: swallowed per source, records after it are missing


def m_ne_answered(case, obs, failure):
    return (case["kind"] == "cell" and case["op"] == "!=" and case["pos"] == "R"
            and case["other"].startswith("field:") and case["other"][6:] in ANSWERING and _cell_value_is(case, obs, True))


def m_ipv4_address(case, obs, failure):
    return (case["kind"] == "cell" and case["op"] in ("==", "!=") and case["pos"] == "R"
            and case["other"] == "field:net.ipv4.Address" and obs.get("error") == "TypeError")


def m_compiled_in_sentinel_element(case, obs, failure):
    return (case["kind"] == "cell" and case["engine"] == "compiled" and case["op"] == "in" and case["pos"] == "L"
            and case["other"] in ("list_missing", "tuple_missing") and _cell_value_is(case, obs, True))


MATCHERS = {
    "compiled_notin": m_compiled_notin,
    "compiled_in_left_raises": m_compiled_in_left_raises,
    "ne_answered_by_other_operand": m_ne_answered,
    "ipv4_address_eq_raises": m_ipv4_address,
    "compiled_in_sentinel_element": m_compiled_in_sentinel_element,
}
