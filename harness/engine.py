"""./check driver: extraction -> Lean obligations -> axiom audit -> corpus + correspondence -> decision -> evidence.

A broken obligation (extraction failure, a theorem that no longer elaborates, a model/implementation
disagreement) is never reported by itself: it triggers a search for a concrete input on which the
property fails on the real code. See DESIGN.md section 3.
"""
import argparse
import hashlib
import importlib
import json
import os
import sys
import time
import traceback

from . import leanio
from .prng import Rng

VERIF = leanio.VERIF
REPO = os.environ.get("VERIF_REPO", "/repo")
ALL = [f"C{n:02d}" for n in range(1, 21)]
TRUSTED_COMMON = [
    "Lean 4.33.0 kernel (thorough tier: re-checked by leanchecker)",
    "axioms accepted per theorem: propext, Classical.choice, Quot.sound only (audited on every run)",
    "harness/extract.py transcribes tables/constants/structural flags from /repo's working tree into Gen/*.lean",
    "correspondence harness + frdriver JSON printer/parser compare model and implementation faithfully",
    "CPython 3.12, msgpack C extension and other runtime libraries are modelled, not verified",
]


def jdump(o):
    return json.dumps(o, sort_keys=True, separators=(",", ":"), default=repr)


def clip(o, maxstr=240, maxlist=16, depth=0):
    """JSON value for the evidence file: long strings and lists are cut (with a marker) so that the file stays small;
    the full case of a violation is in its replay file, never here."""
    if isinstance(o, str):
        return o if len(o) <= maxstr else o[:maxstr] + f"...[{len(o) - maxstr} more chars]"
    if isinstance(o, (list, tuple)):
        xs = [clip(x, maxstr, maxlist, depth + 1) for x in o[:maxlist]]
        if len(o) > maxlist:
            xs.append(f"...[{len(o) - maxlist} more items]")
        return xs
    if isinstance(o, dict):
        items = list(o.items())
        out = {str(k): clip(v, maxstr, maxlist, depth + 1) for k, v in items[:maxlist * 2]}
        if len(items) > maxlist * 2:
            out["..."] = f"[{len(items) - maxlist * 2} more keys]"
        return out
    return o


def case_hash(case):
    return hashlib.sha256(jdump(case).encode()).hexdigest()[:16]


def load_findings(pid):
    path = os.path.join(VERIF, "known_findings.json")
    if not os.path.exists(path):
        return []
    data = json.load(open(path))
    out = [f for f in data.get("findings", []) if f.get("property") == pid]
    # development fragments (merged into known_findings.json by the integrator, then removed)
    frag = os.path.join(VERIF, "known_findings.d", f"{pid}.json")
    if os.path.exists(frag):
        have = {f["id"] for f in out}
        out += [f for f in json.load(open(frag)).get("findings", []) if f.get("property") == pid and f["id"] not in have]
    return out


def load_corpus(pid):
    d = os.path.join(VERIF, "corpus", pid)
    out = []
    if os.path.isdir(d):
        for fn in sorted(os.listdir(d)):
            if fn.endswith(".json"):
                try:
                    j = json.load(open(os.path.join(d, fn)))
                    out.append(j["case"] if isinstance(j, dict) and "case" in j else j)
                except Exception:
                    pass
    return out


def write_replay(pid, payload):
    d = os.path.join(VERIF, "replays")
    os.makedirs(d, exist_ok=True)
    h = hashlib.sha256(jdump(payload).encode()).hexdigest()[:12]
    path = os.path.join(d, f"{pid}-{h}.json")
    payload = dict(payload)
    payload["property"] = pid
    payload["how_to_rerun"] = f"cd /verif && ./check {pid} --replay {os.path.relpath(path, VERIF)}"
    with open(path, "w") as f:
        json.dump(payload, f, indent=1, sort_keys=True, default=repr)
    return os.path.relpath(path, VERIF)


def safe_real(mod, case):
    from . import values as _V
    del _V.DESC_MISMATCH[:]
    try:
        obs = mod.run_real(case)
    except Exception as e:  # harness bug or an exception class the module did not map: keep it visible
        return {"harness_exception": type(e).__name__, "msg": str(e)[:300], "tb": traceback.format_exc()[-800:]}
    if _V.DESC_MISMATCH and getattr(mod, "CHECK_BUILT_DESCRIPTOR", False) and isinstance(obs, dict):
        obs["_desc_mismatch"] = list(_V.DESC_MISMATCH)
    return obs


def oracle_of(mod, case, obs):
    """the module's oracle, preceded (for the round-trip properties that opt in) by the generic check that every
    record the case declared carries the descriptor it was declared with"""
    if isinstance(obs, dict) and obs.get("_desc_mismatch"):
        m = obs["_desc_mismatch"][0]
        return f"a record declared as {m['declared']} carries the descriptor {m['carries']} before it is written"[:400]
    return mod.oracle(case, obs)


def _worker(args):
    modname, cases = args
    mod = importlib.import_module(modname)
    return [safe_real(mod, c) for c in cases]


def run_cases(mod, cases, workers):
    if workers <= 1 or len(cases) < 64:
        return [safe_real(mod, c) for c in cases]
    import multiprocessing as mp

    chunk = max(8, len(cases) // (workers * 4))
    chunks = [cases[i:i + chunk] for i in range(0, len(cases), chunk)]
    with mp.get_context("fork").Pool(workers) as pool:
        parts = pool.map(_worker, [(mod.__name__, c) for c in chunks])
    return [o for p in parts for o in p]


def shrink(mod, case, still_fails, budget=200):
    if not hasattr(mod, "shrink"):
        return case
    improved = True
    while improved and budget > 0:
        improved = False
        try:
            cands = list(mod.shrink(case))
        except Exception:               # noqa: BLE001  (a case kind the module's shrinker does not know: keep the case)
            cands = []
        for cand in cands:
            budget -= 1
            if budget <= 0:
                break
            try:
                if still_fails(cand):
                    case = cand
                    improved = True
                    break
            except Exception:
                continue
    return case


def evaluate(mod, cases, workers, use_model=True):
    """Run real code (+ oracle) and the model on the cases. Returns dict with failures/mismatches/stats."""
    t_real = time.time()
    obs = run_cases(mod, cases, workers)
    t_real = time.time() - t_real
    t_model = 0.0
    failures, mismatches = [], []
    harness_errors = []
    for c, o in zip(cases, obs):
        if isinstance(o, dict) and "harness_exception" in o:
            harness_errors.append((c, o))
            continue
        try:
            f = oracle_of(mod, c, o)
        except Exception as e:
            harness_errors.append((c, {"harness_exception": type(e).__name__, "msg": "oracle: " + str(e)[:300],
                                       "tb": traceback.format_exc()[-800:]}))
            continue
        if f:
            failures.append((c, o, f))
    model_obs = [None] * len(cases)
    mismatches_early = []      # (defined before the guarded block: used in the return value)
    model_error = None
    validated = 0
    if use_model and hasattr(mod, "model_op"):
        idx, ops, spans = [], [], []
        for i, (c, o) in enumerate(zip(cases, obs)):
            if isinstance(o, dict) and "harness_exception" in o:
                continue
            try:
                op = mod.model_op(c, o)
            except Exception as e:          # noqa: BLE001
                # an observation the harness cannot even phrase for the model (e.g. a value of an impossible kind): the
                # case counts as a correspondence mismatch, the real-code oracle above decides about the property
                mismatches_early.append((c, o, None, f"model_op raised {type(e).__name__}: {str(e)[:120]}"))
                op = None
            if op is not None:
                idx.append(i)
                if isinstance(op, list):       # several driver lines for one case
                    spans.append((len(ops), len(op)))
                    ops += op
                else:
                    spans.append((len(ops), None))
                    ops.append(op)
        if ops:
            try:
                t_model = time.time()
                flat = leanio.drive(ops)
                t_model = time.time() - t_model
                outs = [flat[a] if n is None else flat[a:a + n] for a, n in spans]
                for i, mo in zip(idx, outs):
                    model_obs[i] = mo
                    d = mod.compare(cases[i], obs[i], mo)
                    validated += 1
                    if d:
                        mismatches.append((cases[i], obs[i], mo, d))
            except Exception as e:
                model_error = f"{type(e).__name__}: {str(e)[:400]}"
    mismatches = mismatches_early + mismatches if use_model and hasattr(mod, "model_op") else mismatches
    return {"obs": obs, "model_obs": model_obs, "failures": failures, "mismatches": mismatches,
            "harness_errors": harness_errors, "model_error": model_error, "validated": validated,
            "t_real": round(t_real, 2), "t_model": round(t_model, 2)}


def main(argv=None):
    ap = argparse.ArgumentParser()
    ap.add_argument("pid", nargs="?")
    ap.add_argument("--tier", default=os.environ.get("VERIF_TIER", "quick"), choices=["quick", "thorough"])
    ap.add_argument("--replay")
    ap.add_argument("--setup", action="store_true")
    ap.add_argument("--no-lean", action="store_true", help="development only: skip the Lean steps")
    args = ap.parse_args(argv)
    if args.setup:
        return setup()
    pid = args.pid
    seed = int(os.environ.get("VERIF_SEED", "0") or 0)
    try:
        return check(pid, args.tier, seed, args.replay, args.no_lean)
    except SystemExit:
        raise
    except Exception:
        traceback.print_exc()
        print(f"INFRA-ERROR property={pid}")
        return 2


def setup():
    from . import extract

    t0 = time.time()
    try:
        extract.run()
    except Exception as e:
        print("setup: extraction failed:", e)
    ok, log, dt = leanio.build([], timeout=5400)
    print(log[-3000:])
    print(f"setup: lake build ok={ok} in {time.time() - t0:.0f}s")
    return 0 if ok else 2


def check(pid, tier, seed, replay, no_lean=False):
    t0 = time.time()
    sys.path.insert(0, REPO)
    mod = importlib.import_module(f"harness.props.{pid}")
    from . import extract

    workers = 1 if tier == "quick" else min(16, os.cpu_count() or 1)
    if hasattr(mod, "WORKERS"):
        workers = mod.WORKERS(tier)
    broken = []  # obligations that no longer check (never reported by themselves)

    # ---- replay mode: run one stored case through the oracle on the real code ----
    if replay:
        payload = json.load(open(replay if os.path.isabs(replay) else os.path.join(VERIF, replay)))
        case = payload.get("case")
        if case is None:
            print(f"replay {replay}: no concrete input stored (broken obligation: {payload.get('broken')})")
            return 1
        o = safe_real(mod, case)
        f = oracle_of(mod, case, o) if "harness_exception" not in (o if isinstance(o, dict) else {}) else str(o)
        print(json.dumps({"case": case, "observed": o, "failure": f}, indent=1, default=repr)[:6000])
        if f:
            print(f"VIOLATION property={pid} replay={replay}")
            return 1
        print("replay: property holds on this input now")
        return 0

    # ---- 1. translator: regenerate Gen/*.lean from /repo's working tree ----
    gen_changed = []
    try:
        gen_changed = extract.run()
    except Exception as e:
        broken.append({"kind": "extraction", "name": "harness/extract.py", "detail": f"{type(e).__name__}: {e}"[:500]})

    # ---- 2. Lean obligations for this property (+ model driver) ----
    audit = []
    lean_log_tail = ""
    names, props_path = leanio.theorem_names(pid)
    if not no_lean:
        ok, log, dt = leanio.build([f"FlowRecordProofs.Props.{pid}", "frdriver"])
        lean_log_tail = log[-1500:]
        if not ok:
            for e in leanio.first_errors(log):
                broken.append({"kind": "lean", "name": e["theorem"] or e["file"], "detail": e})
            if not any(b["kind"] == "lean" for b in broken):
                broken.append({"kind": "lean", "name": "lake build", "detail": log[-800:]})
        else:
            audit = leanio.audit(pid)
            for a in audit:
                if not a["ok"]:
                    broken.append({"kind": "axioms", "name": a["name"], "detail": a})
        hits = leanio.forbidden_tokens()
        for h in hits:
            broken.append({"kind": "forbidden-token", "name": h, "detail": h})
        if tier == "thorough" and ok:
            lc_ok, lc_out = leanio.leanchecker(pid)
            if not lc_ok:
                broken.append({"kind": "leanchecker", "name": f"FlowRecordProofs.Props.{pid}", "detail": lc_out[-500:]})
    driver_ok = os.path.exists(leanio.driver_path())

    # ---- 3. cases: fixed-finding witnesses + corpus first, then generated ----
    findings = load_findings(pid)
    known = [f for f in findings if f.get("status") == "known"]
    fixed = [f for f in findings if f.get("status") == "fixed"]
    corpus = [f["witness"] for f in fixed if f.get("witness") is not None] + load_corpus(pid)
    rng = Rng(seed)
    gen = list(mod.gen_cases(rng.fork("gen"), tier))
    cases = corpus + gen
    res = evaluate(mod, cases, workers, use_model=driver_ok)

    # ---- 4. statistics ----
    seen, nontrivial, dist = set(), 0, {}
    for c, o in zip(cases, res["obs"]):
        h = case_hash(c)
        try:
            nt = bool(mod.nontrivial(c, o))
            bucket = mod.classify(c, o) if hasattr(mod, "classify") else "all"
        except Exception:
            nt, bucket = False, "unclassified"
        for b in (bucket if isinstance(bucket, (list, tuple, set)) else [bucket]):
            dist[b] = dist.get(b, 0) + 1
        if h not in seen and nt:
            nontrivial += 1
        seen.add(h)

    # ---- 5. known findings: re-confirm each witness, attribute matching failures ----
    matchers = getattr(mod, "MATCHERS", {})
    kf_lines, kf_confirmed = [], []
    for f in known:
        w = f.get("witness")
        o = safe_real(mod, w)
        fail = None
        if not (isinstance(o, dict) and "harness_exception" in o):
            fail = oracle_of(mod, w, o)
        if fail:
            kf_lines.append(f"KNOWN-FINDING: property={pid} {f['what']}")
            kf_confirmed.append(f["id"])
        else:
            print(f"note: known finding {f['id']} no longer reproduces on this tree (witness passes)")

    def attributed(c, o, fail):
        for f in known:
            m = matchers.get(f.get("matcher"))
            try:
                if m and m(c, o, fail):
                    return f["id"]
            except Exception:
                pass
        return None

    new_failures = [(c, o, f) for (c, o, f) in res["failures"] if not attributed(c, o, f)]
    attributed_n = len(res["failures"]) - len(new_failures)

    if res["harness_errors"]:
        c, o = res["harness_errors"][0]
        broken.append({"kind": "harness", "name": "run_real/oracle raised", "detail": {"case": c, "error": o}})
    if res["model_error"]:
        broken.append({"kind": "driver", "name": "frdriver", "detail": res["model_error"]})
    for (c, o, mo, d) in res["mismatches"][:3]:
        broken.append({"kind": "correspondence", "name": f"model != implementation: {d}"[:200],
                       "detail": {"case": c, "implementation": o, "model": mo, "difference": d}})

    # ---- 6. decision ----
    violation_line = None
    searched = 0
    if new_failures:
        c, o, f = new_failures[0]

        def still(cand):
            oo = safe_real(mod, cand)
            if isinstance(oo, dict) and "harness_exception" in oo:
                return False
            ff = oracle_of(mod, cand, oo)
            return bool(ff) and not attributed(cand, oo, ff)

        c2 = shrink(mod, c, still)
        o2 = safe_real(mod, c2)
        f2 = oracle_of(mod, c2, o2) or f
        path = write_replay(pid, {"case": c2, "observed": o2, "failure": f2, "seed": seed, "tier": tier,
                                  "unshrunk_case": c if c2 != c else None,
                                  "broken_obligations": [b["name"] for b in broken]})
        violation_line = f"VIOLATION property={pid} replay={path}"
    elif broken:
        # the property is no longer shown to hold: search for a failing input with the property oracle
        found = None
        for extra in range(1, 4 if tier == "quick" else 9):
            srng = Rng(seed + 7919 * extra)
            scases = list(mod.gen_cases(srng.fork("gen"), "search"))
            searched += len(scases)
            sres = evaluate(mod, scases, min(16, os.cpu_count() or 1), use_model=False)
            cand = [(c, o, f) for (c, o, f) in sres["failures"] if not attributed(c, o, f)]
            if cand:
                found = cand[0]
                break
        if found:
            c, o, f = found
            path = write_replay(pid, {"case": c, "observed": o, "failure": f, "seed": seed, "tier": tier,
                                      "broken_obligations": [b["name"] for b in broken]})
            violation_line = f"VIOLATION property={pid} replay={path}"
        else:
            path = write_replay(pid, {"case": None, "broken": broken, "seed": seed, "tier": tier,
                                      "searched_inputs": searched + len(cases),
                                      "note": "no input violating the property was found on the real code; the "
                                              "property is no longer shown to hold because these obligations "
                                              "do not check"})
            violation_line = f"VIOLATION property={pid} replay={path} no-failing-input-found"

    # ---- 7. evidence ----
    obligations = len(names)
    discharged = sum(1 for a in audit if a["ok"])
    samples = []
    for i in list(range(len(corpus), min(len(cases), len(corpus) + 2))) + ([len(cases) - 1] if cases else []):
        samples.append({"case": cases[i], "implementation": res["obs"][i], "model": res["model_obs"][i]})
    for a in audit[:3]:
        samples.append({"obligation": a["name"], "axioms": a["axioms"]})
    ev = {
        "property_id": pid, "tier": tier, "seed": seed, "level": "proof",
        "coverage": {
            "obligations": obligations, "discharged": discharged,
            "checker_cmd": f"cd lean && lake build FlowRecordProofs.Props.{pid} && lake env lean <#print axioms of "
                           f"each theorem {pid}_*>" + (f" && lake env leanchecker FlowRecordProofs.Props.{pid}"
                                                       if tier == "thorough" else ""),
            "trusted_base": TRUSTED_COMMON + list(getattr(mod, "TRUSTED", [])),
            "theorems": audit,
            "gen_files_rewritten": gen_changed,
            "evaluations": len(cases) + searched,
            "distinct_nontrivial": nontrivial,
            "rule": getattr(mod, "RULE", ""),
            "samples": clip(json.loads(json.dumps(samples, default=repr))),
            "traces_validated_against_impl": res["validated"],
            "disagreements_checked": len(res["mismatches"]),
            "distribution": dist,
            "corpus_cases": len(corpus),
            "oracle_failures_attributed_to_known_findings": attributed_n,
            "known_findings_reconfirmed": kf_confirmed,
            "broken_obligations": clip(json.loads(json.dumps(broken, default=repr))[:10]),
            "exhaustive": bool(getattr(mod, "EXHAUSTIVE", lambda t: False)(tier)),
            "explanation": getattr(mod, "EXPLANATION", ""),
        },
        "assumptions": list(getattr(mod, "ASSUMPTIONS", [])),
        "wall_s": round(time.time() - t0, 2),
        "violations": 1 if violation_line else 0,
    }
    os.makedirs(os.path.join(VERIF, "evidence"), exist_ok=True)
    tmp = os.path.join(VERIF, "evidence", f".{pid}.json.tmp")
    with open(tmp, "w") as f:
        json.dump(ev, f, indent=1, sort_keys=True)
    os.replace(tmp, os.path.join(VERIF, "evidence", f"{pid}.json"))

    for l in kf_lines:
        print(l)
    print(f"{pid} tier={tier} seed={seed}: theorems {discharged}/{obligations} discharged; cases={len(cases)} "
          f"nontrivial={nontrivial} validated-vs-model={res['validated']} mismatches={len(res['mismatches'])} "
          f"oracle-failures={len(res['failures'])} (known: {attributed_n}) broken={len(broken)} "
          f"wall={time.time() - t0:.1f}s (real {res['t_real']}s, model {res['t_model']}s)")
    if violation_line:
        for b in broken[:5]:
            print("  broken obligation:", b["kind"], "-", str(b["name"])[:200])
        print(violation_line)
        return 1
    return 0


if __name__ == "__main__":
    sys.exit(main())
