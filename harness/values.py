"""Shared value layer of the harness: JSON-able value *specs* (so every case replays exactly), builders that turn a
spec into the Python object handed to flow.record, a deep canonical observation (deeper than the library's __eq__),
and type-directed generators with boundary pools.

Spec grammar (lists, so they survive JSON):
  ["none"] | ["bool", 0|1] | ["int", "<decimal>"] | ["float", "<16 hex digits of the IEEE-754 pattern>"]
  ["str", "<utf-32-be hex, surrogates allowed>"] | ["bytes", "<hex>"]
  ["dt", [y,mo,d,h,mi,s,us], tz, fold]   tz = "naive" | "utc" | ["fixed", seconds, microseconds] | ["zone", name]
  ["path", "posix"|"windows", <str spec hex>] | ["cmd", "posix"|"windows"|"auto", <str hex>]
  ["digest", [md5hex|null, sha1hex|null, sha256hex|null]] | ["ip", "<text>"] | ["ipint", "<decimal>"] | ["ipnet", "<text>"]
  ["list", [spec...]] | ["dict", [[keyspec, valspec]...]] | ["rec", descspec, [spec...]] | ["grouped", name, [recspec...]]
descspec = [name, [[type, fname]...]]
"""
import datetime as _dtm
import struct

U32 = "utf-32-be"


def enc_str(s):
    return s.encode(U32, "surrogatepass").hex()


def dec_str(h):
    return bytes.fromhex(h).decode(U32, "surrogatepass")


def S(s):
    return ["str", enc_str(s)]


def I(n):
    return ["int", str(int(n))]


def F(x):
    return ["float", struct.pack(">d", x).hex()]


def B(b):
    return ["bytes", bytes(b).hex()]


NONE = ["none"]


# ------------------------------------------------------------------ build: spec -> Python input object

def tz_of(tz):
    if tz == "naive":
        return None
    if tz == "utc":
        return _dtm.timezone.utc
    if tz[0] == "fixed":
        return _dtm.timezone(_dtm.timedelta(seconds=tz[1], microseconds=tz[2]))
    if tz[0] == "zone":
        from zoneinfo import ZoneInfo
        return ZoneInfo(tz[1])
    raise ValueError(tz)


_desc_cache = {}


def descriptor(descspec):
    from flow.record import RecordDescriptor
    key = repr(descspec)
    if key not in _desc_cache:
        name, fields = descspec
        _desc_cache[key] = RecordDescriptor(name, [(t, n) for t, n in fields])
    return _desc_cache[key]


def build(spec):
    k = spec[0]
    if k == "none":
        return None
    if k == "bool":
        return bool(spec[1])
    if k == "int":
        return int(spec[1])
    if k == "float":
        return struct.unpack(">d", bytes.fromhex(spec[1]))[0]
    if k == "str":
        return dec_str(spec[1])
    if k == "bytes":
        return bytes.fromhex(spec[1])
    if k == "spaces":
        return " " * int(spec[1])             # n blanks, for text too large to spell out in a case
    if k == "zeros":
        return bytes(int(spec[1]))            # n zero bytes, for values too large to spell out in a case
    if k == "dt":
        y, mo, d, h, mi, s, us = spec[1]
        return _dtm.datetime(y, mo, d, h, mi, s, us, tzinfo=tz_of(spec[2]), fold=spec[3] if len(spec) > 3 else 0)
    if k == "path":
        from flow.record import fieldtypes
        text = dec_str(spec[2])
        return fieldtypes.windows_path(text) if spec[1] == "windows" else fieldtypes.posix_path(text)
    if k == "cmd":
        from flow.record import fieldtypes
        text = dec_str(spec[2])
        if spec[1] == "windows":
            return fieldtypes.command.from_windows(text)
        if spec[1] == "posix":
            return fieldtypes.command.from_posix(text)
        return text
    if k == "digest":
        return tuple(spec[1])
    if k == "ip":
        return spec[1]
    if k == "ipint":
        return int(spec[1])
    if k == "ipnet":
        return spec[1]
    if k == "typed":
        # a value that already is an instance of a flow field type (`fieldtypes.boolean(True)`, `uri("http://x")`)
        from flow.record.base import fieldtype
        return fieldtype(spec[1])(build(spec[2]))
    if k == "list":
        return [build(x) for x in spec[1]]
    if k == "tuple":
        return tuple(build(x) for x in spec[1])
    if k == "dict":
        return {build(a): build(b) for a, b in spec[1]}
    if k == "rec":
        return build_record(spec)
    if k == "grouped":
        from flow.record import GroupedRecord
        return GroupedRecord(spec[1], [build(r) for r in spec[2]])
    raise ValueError(f"unknown spec {spec!r}")


def build_record(recspec, **meta):
    """["rec", descspec, [value specs for the declared fields], optional {meta}]"""
    desc = descriptor(recspec[1])
    vals = [build(v) for v in recspec[2]]
    kw = {}
    m = recspec[3] if len(recspec) > 3 and recspec[3] else {}
    if m.get("_clone_of"):
        # the descriptor is made with the COPY constructor RecordDescriptor(new name, other descriptor) from a descriptor
        # of another name whose identifier has been computed already (it was used before)
        from flow.record import RecordDescriptor
        key = "clone:" + repr([recspec[1], m["_clone_of"]])
        if key not in _desc_cache:
            src_ = descriptor([m["_clone_of"], recspec[1][1]])
            src_.identifier        # noqa: B018  (cached on the source before it is copied)
            import warnings
            with warnings.catch_warnings():
                warnings.simplefilter("ignore")
                _desc_cache[key] = RecordDescriptor(recspec[1][0], src_)
        desc = _desc_cache[key]
    for key in ("_source", "_classification", "_generated"):
        if key in m:
            kw[key] = build(m[key])
    kw.update(meta)
    rec = desc.recordType(*vals, **kw)
    # {"_append": {field name: [value specs]}}: elements added to a list field IN PLACE after the record was built
    # (`rec.paths.append("x")`), as plain values - the typed list converts them only when the record is packed
    for fname, extra in (m.get("_append") or {}).items():
        for x in extra:
            getattr(rec, fname).append(build(x))
    # a record carries the descriptor it was created with: checked against the SPEC here, because every later
    # observation goes through rec._desc and would follow a corrupted descriptor silently
    try:
        got = [rec._desc.name, [list(t) for t in rec._desc.get_field_tuples()]]
    except Exception as e:          # noqa: BLE001
        got = ["<%s>" % type(e).__name__, []]
    want = [recspec[1][0], [list(t) for t in recspec[1][1]]]
    if got != want and len(DESC_MISMATCH) < 8:
        DESC_MISMATCH.append({"declared": want, "carries": got})
    return rec


DESC_MISMATCH = []


def merge_append(recspec):
    """the record spec whose list fields hold the `_append`ed elements from the start (the record the in-place edits
    must be equivalent to)"""
    m = recspec[3] if len(recspec) > 3 and recspec[3] else {}
    if not m.get("_append"):
        return recspec
    names = [n for _, n in recspec[1][1]]
    vals = list(recspec[2])
    for fname, extra in m["_append"].items():
        i = names.index(fname)
        vals[i] = ["list", list(vals[i][1]) + list(extra)]
    return ["rec", recspec[1], vals, {k: v for k, v in m.items() if k != "_append"}]


# ------------------------------------------------------------------ observe: Python value -> canonical JSON-able

def _off(dt):
    off = dt.utcoffset()
    if off is None:
        return None
    return (off.days * 86400 + off.seconds) * 1000000 + off.microseconds


def observe(v):
    """Canonical deep observation. Class names are part of it: the *kind* of a value matters (C01)."""
    import ipaddress as _ip
    import pathlib

    from flow.record import GroupedRecord, Record, fieldtypes
    from flow.record.fieldtypes import net as _net

    cls = type(v).__name__
    if v is None:
        return ["none"]
    if isinstance(v, GroupedRecord):
        return ["grouped", v.name, [observe(r) for r in v.records]]
    if isinstance(v, Record):
        return observe_record(v)
    if isinstance(v, bool):
        return ["pybool", int(v)]
    if isinstance(v, fieldtypes.boolean):
        return ["boolean", int(v), ["pybool", int(v.value)] if isinstance(v.value, bool) else repr(v.value)]
    if isinstance(v, _dtm.datetime):
        # fold is observable only through the UTC offset it selects; the offset is what every format stores
        return ["dt", cls, [v.year, v.month, v.day, v.hour, v.minute, v.second, v.microsecond], _off(v)]
    if isinstance(v, (fieldtypes.uint16, fieldtypes.uint32)):
        return [cls, str(int(v)), repr(v.value)]
    if isinstance(v, int):
        return ["int", cls, str(int(v))]
    if isinstance(v, float):
        return ["float", cls, struct.pack(">d", v).hex()]
    if isinstance(v, str):
        return ["str", cls, enc_str(v)]
    if isinstance(v, fieldtypes.bytes):
        return ["bytes", cls, bytes(v).hex(), bytes(v.value).hex() if isinstance(v.value, bytes) else repr(v.value)]
    if isinstance(v, (bytes, bytearray)):
        return ["bytes", cls, bytes(v).hex()]
    if isinstance(v, pathlib.PurePath):
        flavour = "windows" if isinstance(v, pathlib.PureWindowsPath) else "posix"
        return ["path", cls, flavour, enc_str(str(v)), bool(getattr(v, "_empty_path", False))]
    if isinstance(v, fieldtypes.command):
        return ["command", cls, observe(v.executable), observe(v.args)]
    if isinstance(v, fieldtypes.digest):
        return ["digest", v.md5, v.sha1, v.sha256]
    if isinstance(v, _net.ipaddress):
        val = getattr(v, "val", None)
        if not isinstance(val, (_ip.IPv4Address, _ip.IPv6Address)):
            return ["ip", cls, None, "no-address:" + repr(val)[:60]]      # an address object that holds no address
        return ["ip", cls, val.version, str(int(val))]
    if isinstance(v, _net.ipnetwork):
        val = getattr(v, "val", None)
        if not isinstance(val, (_ip.IPv4Network, _ip.IPv6Network)):
            return ["ipnet", cls, None, "no-network:" + repr(val)[:60]]
        return ["ipnet", cls, val.version, str(val)]
    if isinstance(v, (_ip.IPv4Address, _ip.IPv6Address)):
        return ["pyip", v.version, str(int(v))]
    if type(v).__module__.endswith("net.ipv4"):
        if hasattr(v, "val"):
            return ["ipv4.address", str(v.val)]
        return ["ipv4.subnet", str(v.net), str(v.mask)]
    if isinstance(v, list):
        return ["list", cls, [observe(x) for x in v]]
    if isinstance(v, tuple):
        return ["tuple", cls, [observe(x) for x in v]]
    if isinstance(v, dict):
        return ["dict", cls, sorted(([observe(a), observe(b)] for a, b in v.items()), key=repr)]
    return ["other", cls, repr(v)[:200]]


def observe_record(r, meta=True):
    d = r._desc
    fields = [list(t) for t in d.get_field_tuples()]
    names = [n for _, n in d.get_field_tuples()]
    if meta:
        names += ["_source", "_classification", "_generated", "_version"]
    return ["rec", d.name, fields, [observe(getattr(r, n)) for n in names]]


# ------------------------------------------------------------------ generators

INT_EDGES = [0, 1, -1, 127, 128, -128, -129, 255, 256, 32767, 32768, -32768, -32769, 65535, 65536, 2 ** 31 - 1, 2 ** 31,
             -2 ** 31, -2 ** 31 - 1, 2 ** 32 - 1, 2 ** 32, 2 ** 63 - 1, 2 ** 63, -2 ** 63, -2 ** 63 - 1, 2 ** 64 - 1,
             2 ** 64, 2 ** 64 + 1, -2 ** 64, 2 ** 100, -2 ** 100, 2 ** 127, 10 ** 30]
FLOAT_BITS = ["0000000000000000", "8000000000000000", "3ff0000000000000", "bff0000000000000", "7ff0000000000000",
              "fff0000000000000", "7ff8000000000000", "7ff8000000000001", "fff8000000000000", "0000000000000001",
              "7fefffffffffffff", "3fb999999999999a", "400921fb54442d18", "c1e0000000000000", "41dfffffffc00000"]
TEXTS = ["", "a", "abc", "héllo", "日本語", "\U0001f600", "a\x00b", "line\nbreak", "tab\tq\"uote'", " lead", "x" * 31,
         "y" * 32, "z" * 255, "w" * 256, "ab\udcff\udcfecd", "\udc80", "caf\udce9", "\udcc3(", "é" * 20, "\\back\\slash",
         "comma,semi;colon:", "{curly}", "%s %d", "\r\n", "\u2028", "\ufeffbom", "\x7f\x1b[0m", "RECORDSTREAM\n",
         "xxRECORDSTREAM\nyy", "Obj\x01", "\x1f\x8b\x08"]
ZONES = ["Europe/Amsterdam", "America/New_York", "Asia/Kolkata", "Australia/Lord_Howe", "UTC"]


def gen_int(r, lo=None, hi=None):
    w = r.below(10)
    if w < 4:
        v = r.choice(INT_EDGES)
    elif w < 7:
        v = r.randint(-300, 300)
    elif w < 9:
        v = r.randint(-2 ** 40, 2 ** 40)
    else:
        v = (1 if r.chance(50) else -1) * int.from_bytes(r.bytes(r.randint(1, 24)), "big")
    if lo is not None and v < lo:
        v = lo + (abs(v) % (hi - lo + 1))
    if hi is not None and v > hi:
        v = lo + (v % (hi - lo + 1))
    return v


def gen_text(r, ascii_only=False, escapes=True):
    w = r.below(10)
    if w < 4:
        s = r.choice(TEXTS)
    elif w < 8:
        alphabet = "abcXYZ019 _-./" if ascii_only else "abcXYZ019 _-./éß€日\U0001f600\"',;\\\n"
        s = "".join(r.choice(alphabet) for _ in range(r.randint(0, 24)))
    elif w < 9:
        s = "q" * r.choice([0, 31, 32, 255, 256, 300, 65535, 65536])
    else:
        # text as it arises from decoding undecodable bytes (always in the image of decode/surrogateescape)
        s = r.bytes(r.randint(1, 12)).decode("utf-8", "surrogateescape")
    if ascii_only:
        s = "".join(c for c in s if 32 <= ord(c) < 127)
    if not escapes:
        s = "".join(c for c in s if not (0xD800 <= ord(c) <= 0xDFFF))
    return s


def is_text(s):
    """In the image of bytes.decode('utf-8','surrogateescape'): round-trips through encode/decode."""
    try:
        return s.encode("utf-8", "surrogateescape").decode("utf-8", "surrogateescape") == s
    except UnicodeEncodeError:
        return False


def gen_dt_spec(r, tzkinds=("utc", "fixed", "zone", "naive"), fold_ok=True):
    w = r.below(10)
    if w < 3:
        y, mo, d, h, mi, s, us = r.choice([
            (1, 1, 1, 0, 0, 0, 0), (9999, 12, 31, 23, 59, 59, 999999), (1969, 12, 31, 23, 59, 59, 999999),
            (1970, 1, 1, 0, 0, 0, 0), (2000, 2, 29, 12, 0, 0, 1), (2038, 1, 19, 3, 14, 8, 0), (1900, 1, 1, 0, 0, 0, 0),
            (2020, 10, 25, 2, 30, 0, 0), (2021, 3, 28, 2, 30, 0, 0), (1, 1, 2, 0, 0, 0, 0), (9999, 12, 30, 0, 0, 0, 0)])
    else:
        y = r.choice([r.randint(1, 9999), r.randint(1960, 2040), r.randint(1960, 2040)])
        mo = r.randint(1, 12)
        d = r.randint(1, 28)
        h, mi, s = r.randint(0, 23), r.randint(0, 59), r.randint(0, 59)
        us = r.choice([0, 0, 1, 999999, r.randint(0, 999999)])
    kind = r.choice(list(tzkinds))
    fold = 0
    if kind == "utc":
        tz = r.choice(["utc", ["fixed", 0, 0], ["zone", "UTC"]]) if "zone" in tzkinds else "utc"
    elif kind == "fixed":
        secs = r.choice([3600, -3600, 19800, 20700, -16200, 86399, -86399, 5 * 3600 + 30 * 60 + 17, -1, 1, 59,
                         r.randint(-86399, 86399)])
        tz = ["fixed", secs, 0]
    elif kind == "zone":
        tz = ["zone", r.choice(ZONES)]
        if fold_ok and r.chance(30):
            fold = 1
    else:
        tz = "naive"
    # keep the UTC instant inside years 1..9999 (datetime arithmetic on the edge raises OverflowError)
    if (y, mo, d) <= (1, 1, 2) or (y, mo, d) >= (9999, 12, 30):
        if tz not in ("utc", "naive") and not (tz[0] == "zone" and tz[1] == "UTC") and tz != ["fixed", 0, 0]:
            tz = "utc"
            fold = 0
    return ["dt", [y, mo, d, h, mi, s, us], tz, fold]


HEX = "0123456789abcdef"


def gen_value(r, ftype, depth=0, none_chance=12):
    """A valid input spec for a field of type `ftype` (scalar or T[])."""
    if ftype.endswith("[]"):
        if r.chance(8):
            return NONE
        n = r.choice([0, 0, 1, 2, 3, 5, 17])
        return ["list", [gen_value(r, ftype[:-2], depth + 1, none_chance=0) for _ in range(n)]]
    if none_chance and r.chance(none_chance):
        return NONE
    t = ftype
    if t == "boolean":
        return ["bool", r.below(2)]
    if t in ("varint", "filesize", "unix_file_mode"):
        return I(gen_int(r))
    if t in ("uint16", "net.tcp.Port", "net.udp.Port"):
        return I(r.choice([0, 1, 65535, 65534, 80, 443, r.randint(0, 65535)]))
    if t == "uint32":
        return I(r.choice([0, 1, 65535, 65536, 2 ** 31 - 1, 2 ** 31, 2 ** 32 - 1, r.randint(0, 2 ** 32 - 1)]))
    if t == "float":
        if r.chance(50):
            return ["float", r.choice(FLOAT_BITS)]
        return ["float", r.bytes(8).hex()]
    if t in ("string", "wstring", "uri"):
        return S(gen_text(r))
    if t == "bytes":
        if r.chance(6):
            return B(r.choice([b"RECORDSTREAM\n", b"\x00\x00\x00\x0f\xc4\x0dRECORDSTREAM\n", b"\xc4\x0dRECORDSTREAM\nzz",
                               b"\x1f\x8b", b"BZh9", b"Obj\x01"]))
        return B(r.bytes(r.choice([0, 1, 2, 31, 32, 255, 256, r.randint(0, 40)])))
    if t == "datetime":
        return gen_dt_spec(r)
    if t == "digest":
        def hx(n):
            return "".join(r.choice(HEX) for _ in range(2 * n)) if not r.chance(25) else None
        return ["digest", [hx(16), hx(20), hx(32)]]
    if t in ("net.ipaddress", "net.IPAddress"):
        w = r.below(10)
        if w < 4:
            return ["ip", ".".join(str(r.randint(0, 255)) for _ in range(4))]
        if w < 6:
            return ["ip", r.choice(["0.0.0.0", "255.255.255.255", "127.0.0.1", "10.0.0.1"])]
        if w < 9:
            return ["ip", ":".join("%x" % r.randint(0, 65535) for _ in range(8))]
        return ["ip", r.choice(["2001:db8::1", "fe80::1", "ffff:ffff:ffff:ffff:ffff:ffff:ffff:ffff", "1::", "::1:0:0",
                                "::1", "::", "::abcd:1234", "::ffff:ffff", "::ffff:1.2.3.4"])]
    if t in ("net.ipnetwork", "net.IPNetwork"):
        return ["ipnet", r.choice(["10.0.0.0/8", "192.168.1.0/24", "0.0.0.0/0", "1.2.3.4/32", "2001:db8::/32", "::/0",
                                   "fe80::/10", "172.16.0.0/12", "::1/128"])]
    if t == "net.ipv4.Address":
        return ["ip", ".".join(str(r.randint(0, 255)) for _ in range(4))]
    if t == "path":
        fl = r.choice(["posix", "windows"])
        if fl == "posix":
            txt = r.choice(["", "/", "/usr/bin/ls", "relative/dir/file.txt", "/a//b/../c", ".", "..", "/tmp/héllo 日本",
                            "/with space/x", "~", "/" + gen_text(r, escapes=False).replace("\x00", "")[:20]])
        else:
            txt = r.choice(["", "C:\\", "C:\\Windows\\System32\\cmd.exe", "c:/mixed\\seps/x", "\\\\server\\share\\f",
                            "relative\\p", "D:", "C:\\Program Files\\a b\\c.exe", "\\C:\\odd"])
        return ["path", fl, enc_str(txt)]
    if t == "command":
        fl = r.choice(["posix", "windows"])
        if fl == "posix":
            txt = r.choice(["/bin/ls -l /tmp", "ls", "/usr/bin/python3 -c 'print(1)'", "echo \"a b\" c", "/bin/true"])
        else:
            txt = r.choice(["C:\\Windows\\cmd.exe /c dir", "c:\\a.exe", "%WINDIR%\\x.exe -a -b",
                            "\\\\srv\\share\\t.exe arg", "'C:\\Program Files\\x.exe' /s"])
        return ["cmd", fl, enc_str(txt)]
    if t == "stringlist":
        return ["list", [S(gen_text(r)) for _ in range(r.randint(0, 4))]]
    if t == "dictlist":
        return ["list", [["dict", [[S(r.choice(["a", "b", "k", "é"]) + str(i)), r.choice([S(gen_text(r)), I(gen_int(r, -2 ** 63, 2 ** 63 - 1))])]
                                   for i in range(r.randint(0, 3))]] for _ in range(r.randint(0, 3))]]
    if t == "dynamic":
        return r.choice([S(gen_text(r)), I(gen_int(r)), B(r.bytes(r.randint(0, 8))), ["bool", r.below(2)],
                         gen_dt_spec(r, tzkinds=("utc", "fixed")), ["list", [S("a"), S("b")]]])
    if t == "record":
        if depth >= 2:
            return NONE
        return gen_record(r, depth=depth + 1, nfields=r.randint(1, 3))
    raise ValueError(f"no generator for {ftype}")


SERIALISABLE = ["boolean", "command", "dynamic", "datetime", "filesize", "uint16", "uint32", "float", "string",
                "stringlist", "dictlist", "unix_file_mode", "varint", "wstring", "net.ipv4.Address", "net.tcp.Port",
                "net.udp.Port", "uri", "digest", "bytes", "record", "net.ipaddress", "net.ipnetwork", "net.IPAddress",
                "net.IPNetwork", "path"]
LISTABLE = [t for t in SERIALISABLE if t not in ("stringlist", "dictlist", "dynamic")]
FNAMES = ["a", "b", "c", "value", "ts", "name", "data", "n", "x1", "long_field_name", "listb", "s", "class", "from"]
TNAMES = ["test/a", "test/b", "t/x", "filesystem/entry", "a", "deep/er/name", "t/y"]


def gen_descspec(r, nfields=None, types=None, name=None, allow_lists=True):
    types = types or SERIALISABLE
    n = nfields if nfields is not None else r.randint(1, 6)
    names = r.sample(FNAMES, min(n, len(FNAMES)))
    fields = []
    for fn in names:
        t = r.choice(types)
        if allow_lists and t in LISTABLE and r.chance(25):
            t += "[]"
        fields.append([t, fn])
    return [name or r.choice(TNAMES), fields]


def gen_meta(r):
    m = {}
    if r.chance(40):
        m["_source"] = S(gen_text(r))
    if r.chance(30):
        m["_classification"] = S(r.choice(["", "TLP:RED", "secret", "é"]))
    # _generated is always supplied: never compare wall-clock time
    m["_generated"] = gen_dt_spec(r, tzkinds=("utc", "fixed"))
    return m


def gen_record(r, depth=0, nfields=None, descspec=None, types=None):
    ds = descspec or gen_descspec(r, nfields=nfields, types=types)
    vals = [gen_value(r, t, depth=depth) for t, _ in ds[1]]
    return ["rec", ds, vals, gen_meta(r)]
