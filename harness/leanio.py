"""Lean side of the machinery: build under a lock, axiom audit, forbidden-token grep, driver I/O."""
import fcntl
import json
import os
import re
import subprocess
import time

VERIF = os.path.dirname(os.path.dirname(os.path.abspath(__file__)))
LEAN = os.path.join(VERIF, "lean")
WORK = os.path.join(VERIF, ".work")
DRIVER = os.path.join(LEAN, ".lake", "build", "bin", "frdriver")
ALLOWED_AXIOMS = {"propext", "Classical.choice", "Quot.sound"}
FORBIDDEN = re.compile(
    r"\b(sorry|admit|native_decide|bv_decide|implemented_by|unsafe)\b|^\s*axiom\s|maxHeartbeats\s+0\b", re.M
)


class Lock:
    """One lake invocation at a time (checks may be launched concurrently)."""

    def __enter__(self):
        os.makedirs(WORK, exist_ok=True)
        self.f = open(os.path.join(WORK, "lake.lock"), "w")
        fcntl.flock(self.f, fcntl.LOCK_EX)
        return self

    def __exit__(self, *a):
        fcntl.flock(self.f, fcntl.LOCK_UN)
        self.f.close()


def _run(cmd, timeout, cwd=LEAN, inp=None):
    env = dict(os.environ)
    env.pop("LEAN_PATH", None)
    p = subprocess.run(cmd, cwd=cwd, input=inp, capture_output=True, text=True, timeout=timeout, env=env)
    return p.returncode, p.stdout + p.stderr


_SNAPSHOT = None


def build(targets, timeout=3000):
    """lake build of the given targets. Returns (ok, log, seconds). While still holding the lock, the driver binary
    is copied aside so that a concurrent relink by another check cannot pull it away under this run."""
    global _SNAPSHOT
    t0 = time.time()
    with Lock():
        rc, out = _run(["lake", "build"] + list(targets), timeout)
        if os.path.exists(DRIVER):
            import shutil
            snap = os.path.join(WORK, f"frdriver.{os.getpid()}")
            try:
                shutil.copy2(DRIVER, snap)
                _SNAPSHOT = snap
                import atexit
                atexit.register(lambda: os.path.exists(snap) and os.remove(snap))
            except OSError:
                _SNAPSHOT = None
    return rc == 0, out, time.time() - t0


def driver_path():
    return _SNAPSHOT if _SNAPSHOT and os.path.exists(_SNAPSHOT) else DRIVER


def strip_comments(src):
    src = re.sub(r"/-.*?-/", lambda m: "\n" * m.group(0).count("\n"), src, flags=re.S)
    src = re.sub(r"--[^\n]*", "", src)
    return src


def lean_sources():
    out = []
    for root, dirs, files in os.walk(LEAN):
        dirs[:] = [d for d in dirs if d != ".lake"]
        for f in files:
            if f.endswith(".lean"):
                out.append(os.path.join(root, f))
    return sorted(out)


def forbidden_tokens():
    """Hits of sorry/admit/axiom/native_decide/... outside comments in every .lean file of the package."""
    hits = []
    for path in lean_sources():
        src = strip_comments(open(path, encoding="utf-8").read())
        # string literals may legitimately contain the words (e.g. the driver's messages)
        src_nostr = re.sub(r'"(?:\\.|[^"\\])*"', '""', src)
        for m in FORBIDDEN.finditer(src_nostr):
            line = src_nostr.count("\n", 0, m.start()) + 1
            hits.append(f"{os.path.relpath(path, LEAN)}:{line}: {m.group(0).strip()}")
    return hits


def theorem_names(pid):
    """Property theorems of a property = every `theorem Cxx_...` in Props/Cxx.lean (kept apart from lemmas)."""
    path = os.path.join(LEAN, "FlowRecordProofs", "Props", f"{pid}.lean")
    if not os.path.exists(path):
        return [], path
    src = strip_comments(open(path, encoding="utf-8").read())
    return re.findall(rf"^\s*theorem\s+({pid}_\w+)", src, flags=re.M), path


def enclosing_theorem(path, line):
    name = None
    try:
        for i, l in enumerate(open(path, encoding="utf-8"), 1):
            m = re.match(r"\s*(?:theorem|lemma|def|example|instance)\s+(\S+)?", l)
            if m and i <= line:
                name = m.group(1) or "example"
    except OSError:
        pass
    return name


def first_errors(log, limit=5):
    errs = []
    for m in re.finditer(r"^error: (\S+?\.lean):(\d+):(\d+): (.*)$", log, flags=re.M):
        f, line = m.group(1), int(m.group(2))
        full = f if os.path.isabs(f) else os.path.join(LEAN, f)
        errs.append({"file": os.path.relpath(full, LEAN), "line": line, "theorem": enclosing_theorem(full, line),
                     "message": m.group(4)[:300]})
        if len(errs) >= limit:
            break
    if not errs and "error" in log:
        errs.append({"file": None, "line": None, "theorem": None, "message": log[-600:]})
    return errs


def audit(pid, timeout=900):
    """#print axioms for every property theorem. Returns list of {name, axioms, ok}."""
    names, _ = theorem_names(pid)
    if not names:
        return []
    os.makedirs(WORK, exist_ok=True)
    path = os.path.join(WORK, f"Audit_{pid}_{os.getpid()}.lean")
    with open(path, "w") as f:
        f.write(f"import FlowRecordProofs.Props.{pid}\n")
        for n in names:
            f.write(f"#print axioms {n}\n")
    try:
        with Lock():
            rc, out = _run(["lake", "env", "lean", path], timeout)
    finally:
        try:
            os.remove(path)
        except OSError:
            pass
    res = {}
    for m in re.finditer(r"'([^']+)' depends on axioms: \[([^\]]*)\]", out, flags=re.S):
        res[m.group(1)] = [a.strip() for a in m.group(2).replace("\n", " ").split(",") if a.strip()]
    for m in re.finditer(r"'([^']+)' does not depend on any axioms", out):
        res[m.group(1)] = []
    result = []
    for n in names:
        if n in res:
            ax = res[n]
            result.append({"name": n, "axioms": ax, "ok": set(ax) <= ALLOWED_AXIOMS})
        else:
            result.append({"name": n, "axioms": None, "ok": False})
    return result


def leanchecker(pid, timeout=3000):
    with Lock():
        rc, out = _run(["lake", "env", "leanchecker", f"FlowRecordProofs.Props.{pid}"], timeout)
    return rc == 0, out[-2000:]


def drive(ops, timeout=1800):
    """Run the model driver on a list of JSON-able op dicts; returns the list of parsed output lines."""
    if not ops:
        return []
    inp = "".join(json.dumps(o, separators=(",", ":")) + "\n" for o in ops)
    p = subprocess.run([driver_path()], input=inp, capture_output=True, text=True, timeout=timeout)
    if p.returncode != 0:
        raise RuntimeError(f"frdriver exit {p.returncode}: {p.stderr[-500:]}")
    lines = p.stdout.splitlines()
    if len(lines) != len(ops):
        raise RuntimeError(f"frdriver answered {len(lines)} lines for {len(ops)} ops: {p.stderr[-500:]}")
    return [json.loads(l) for l in lines]
