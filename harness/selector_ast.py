"""Selector expressions and values as JSON, mirroring lean/FlowRecord/Model/Selector/Ast.lean and PyOps.lean (PVal).

  expr_json(source)      Python `ast` of a selector expression -> the JSON the driver's `parseExpr` reads
  value_json(obj)        a Python value (constant, field value, engine result) -> the JSON of a `PVal`
  record_json(record)    a flow.record Record -> ["rec", name, [[field, type, value]...]] (declared + reserved fields)

Expr:   ["const",v] ["list",[..]] ["tuple",[..]] ["name",id] ["attr",e,a] ["boolop",op,[..]] ["binop",op,l,r]
        ["unary",op,e] ["compare",l,[[op,e]..]] ["call",f,[args],[[k,e]..]] ["genexp",elt,[[target|null,iter,[ifs]]..]]
        ["other",kind]           operators are named by their ast class ("Add", "NotIn", ...)
Value:  ["none"] ["bool",b] ["int","<dec>"] ["float","<16 hex>"] ["str",s] ["bytes","<hex>"] ["list",[..]]
        ["tuple",[..]] ["strset",[sorted..]] ["missing"] ["rec",name,fields] ["builtin",n] ["tmatch",parts,attrs]
        ["fval",type,payload] ["gen"] ["obj",classname]   (the last one has no counterpart in the model)
"""
import ast
import struct
import types


def _float_hex(x):
    return struct.pack(">d", x).hex()


def const_json(v):
    if v is None:
        return ["none"]
    if v is True or v is False:
        return ["bool", bool(v)]
    if isinstance(v, int):
        return ["int", str(v)]
    if isinstance(v, float):
        return ["float", _float_hex(v)]
    if isinstance(v, str):
        return ["str", v]
    if isinstance(v, bytes):
        return ["bytes", v.hex()]
    if v is Ellipsis:
        return ["ellipsis"]
    return None


def node_json(n):
    """ast node -> JSON mirror of `Expr` (node classes `_eval` has no branch for become ["other", ClassName])."""
    if isinstance(n, ast.Expression):
        return node_json(n.body)
    if isinstance(n, ast.Constant):
        c = const_json(n.value)
        return ["const", c] if c is not None else ["other", "Constant:" + type(n.value).__name__]
    if isinstance(n, ast.List):
        if any(isinstance(e, ast.Starred) for e in n.elts):
            return ["other", "Starred"]
        return ["list", [node_json(e) for e in n.elts]]
    if isinstance(n, ast.Tuple):
        if any(isinstance(e, ast.Starred) for e in n.elts):
            return ["other", "Starred"]
        return ["tuple", [node_json(e) for e in n.elts]]
    if isinstance(n, ast.Name):
        return ["name", n.id]
    if isinstance(n, ast.Attribute):
        return ["attr", node_json(n.value), n.attr]
    if isinstance(n, ast.BoolOp):
        return ["boolop", type(n.op).__name__, [node_json(v) for v in n.values]]
    if isinstance(n, ast.BinOp):
        return ["binop", type(n.op).__name__, node_json(n.left), node_json(n.right)]
    if isinstance(n, ast.UnaryOp):
        return ["unary", type(n.op).__name__, node_json(n.operand)]
    if isinstance(n, ast.Compare):
        return ["compare", node_json(n.left),
                [[type(o).__name__, node_json(c)] for o, c in zip(n.ops, n.comparators)]]
    if isinstance(n, ast.Call):
        # `*x` stays an argument node of class Starred (no branch in _eval); `**x` is a keyword whose name is None
        return ["call", node_json(n.func), [node_json(a) for a in n.args],
                [[k.arg if k.arg is not None else "**", node_json(k.value)] for k in n.keywords]]
    if isinstance(n, ast.GeneratorExp):
        gens = []
        for g in n.generators:
            if g.is_async:
                return ["other", "GeneratorExp:async"]
            tgt = g.target.id if isinstance(g.target, ast.Name) else None
            gens.append([tgt, node_json(g.iter), [node_json(c) for c in g.ifs]])
        return ["genexp", node_json(n.elt), gens]
    return ["other", type(n).__name__]


def expr_json(source):
    return node_json(ast.parse(source, mode="eval"))


def value_json(v, depth=0):
    """Python value -> PVal JSON (canonical: sets sorted, floats as bit patterns, subclasses of builtins flattened)."""
    from flow.record.base import Record
    from flow.record.selector import NoneObject, TypeMatcherInstance

    if depth > 12:
        return ["obj", "too-deep"]
    if v is None:
        return ["none"]
    if v is True or v is False:
        return ["bool", bool(v)]
    if isinstance(v, NoneObject):
        return ["missing"]
    if isinstance(v, Record):
        return record_json(v, depth + 1)
    tn = type(v).__name__
    mod = type(v).__module__ or ""
    if mod.startswith("flow.record.fieldtypes"):
        import datetime as _dt
        import pathlib
        from flow.record import fieldtypes as ft
        if isinstance(v, _dt.datetime):
            epoch = _dt.datetime(1970, 1, 1, tzinfo=_dt.timezone.utc)
            d = v - epoch
            return ["fval", "datetime", ["int", str((d.days * 86400 + d.seconds) * 10 ** 6 + d.microseconds)]]
        if isinstance(v, pathlib.PurePath):
            return ["fval", "path", ["str", str(v)]]
        if isinstance(v, ft.command):
            return ["fval", "command", ["str", repr(v)]]
        if isinstance(v, ft.digest):
            return ["fval", "digest", ["str", repr(v)]]
        if isinstance(v, ft.dictlist):
            return ["list", [["fval", "dict", ["str", repr(x)]] for x in v]]
        if mod.endswith("net.ip") and tn == "ipaddress":
            return ["fval", "net.ipaddress", ["str", str(v)]]
        if mod.endswith("net.ip") and tn == "ipnetwork":
            return ["fval", "net.ipnetwork", ["str", str(v)]]
        if mod.endswith("net.ipv4") and tn == "address":
            return ["fval", "net.ipv4.Address", ["str", str(v)]]
        if mod.endswith("net.ipv4") and tn == "subnet":
            return ["fval", "net.ipv4.Subnet", ["str", str(v)]]
    if isinstance(v, int):
        return ["int", str(int(v))]
    if isinstance(v, float):
        return ["float", _float_hex(float(v))]
    if isinstance(v, str):
        return ["str", str(v)]
    if isinstance(v, bytes):
        return ["bytes", bytes(v).hex()]
    if isinstance(v, list):
        return ["list", [value_json(x, depth + 1) for x in v]]
    if isinstance(v, tuple):
        return ["tuple", [value_json(x, depth + 1) for x in v]]
    if isinstance(v, (set, frozenset)) and all(isinstance(x, str) for x in v):
        return ["strset", sorted(v)]
    if isinstance(v, types.GeneratorType):
        return ["gen"]
    if isinstance(v, TypeMatcherInstance):
        return ["tmatch", list(v._ftypeparts), list(v._attrs)]
    if isinstance(v, (types.FunctionType, types.BuiltinFunctionType, type)) and getattr(v, "__name__", None):
        import flow.record.selector as _sel
        if v in (str, repr, any, all) or any(v is f for f in _sel.FUNCTION_WHITELIST):
            return ["builtin", v.__name__]
    return ["obj", tn]


def record_json(rec, depth=0):
    fields = []
    for fname, fld in rec._desc.get_all_fields().items():
        fields.append([fname, fld.typename, value_json(getattr(rec, fname), depth + 1)])
    return ["rec", rec._desc.name, fields]


def canon(vj):
    """Canonical form for comparing a model value with an observed one (strset order)."""
    if isinstance(vj, list) and vj:
        if vj[0] == "strset":
            return ["strset", sorted(vj[1])]
        if vj[0] in ("list", "tuple"):
            return [vj[0], [canon(x) for x in vj[1]]]
        if vj[0] == "rec":
            return ["rec", vj[1], [[f[0], f[1], canon(f[2])] for f in vj[2]]]
        if vj[0] == "fval":
            return ["fval", vj[1], canon(vj[2])]
    return vj


def has_surrogates(s):
    return any(0xD800 <= ord(c) <= 0xDFFF for c in s)


# ---- record specs shared by the selector properties: [[type, name, value spec]...] ------------------------------

def EPOCH():
    import datetime
    return datetime.datetime(2020, 1, 1, tzinfo=datetime.timezone.utc)


def build_field(t, spec):
    """value spec -> the Python value handed to the record constructor (bytes as hex, datetime as ISO text,
    digest as 3-list, record as {"name":..., "fields": [[type, name, spec]...]}, x[] as list of specs)."""
    import datetime
    if spec is None:
        return None
    if t.endswith("[]"):
        return [build_field(t[:-2], x) for x in spec]
    if t == "bytes":
        return bytes.fromhex(spec)
    if t == "datetime":
        return datetime.datetime.fromisoformat(spec)
    if t == "digest":
        return tuple(spec)
    if t == "float" and isinstance(spec, str):
        import struct
        return struct.unpack(">d", bytes.fromhex(spec))[0]
    if t == "record":
        if "fields" in spec:
            return build_record(spec["name"], spec["fields"])
        return build_record("t/sub", [["string", "q", spec["q"]]])
    return spec


_desc_cache = {}


def build_record(name, fields):
    import warnings

    from flow.record import RecordDescriptor
    key = (name, tuple((t, n) for t, n, _ in fields))
    if key not in _desc_cache:
        _desc_cache[key] = RecordDescriptor(name, [(t, n) for t, n, _ in fields])
    with warnings.catch_warnings():
        warnings.simplefilter("ignore")
        return _desc_cache[key](_generated=EPOCH(), **{n: build_field(t, v) for t, n, v in fields})
