"""Translator: /repo source (parsed with `ast`, never imported here) -> lean/FlowRecord/Gen/*.lean.

Only tables, constants, grammars and small structural facts are translated (DESIGN.md 2.1); behaviour is
modelled by hand and tied by the correspondence harness. A construct that is no longer found raises
ExtractError, which the engine treats as a broken obligation (never silently skipped).
Files are rewritten only when their content changes, so an unchanged tree costs a no-op `lake build`.
"""
import ast
import os
import re

REPO = os.environ.get("VERIF_REPO", "/repo")
VERIF = os.path.dirname(os.path.dirname(os.path.abspath(__file__)))
GEN = os.path.join(VERIF, "lean", "FlowRecord", "Gen")


class ExtractError(Exception):
    pass


# ------------------------------------------------------------------ helpers

def parse(rel):
    path = os.path.join(REPO, rel)
    with open(path, encoding="utf-8") as f:
        return ast.parse(f.read(), filename=path)


def module_assign(tree, name):
    for node in tree.body:
        if isinstance(node, ast.Assign):
            for t in node.targets:
                if isinstance(t, ast.Name) and t.id == name:
                    return node.value
        if isinstance(node, ast.AnnAssign) and isinstance(node.target, ast.Name) and node.target.id == name:
            return node.value
    raise ExtractError(f"module-level assignment {name} not found")


def find_def(tree, name, cls=None):
    body = tree.body
    if cls:
        for node in tree.body:
            if isinstance(node, ast.ClassDef) and node.name == cls:
                body = node.body
                break
        else:
            raise ExtractError(f"class {cls} not found")
    for node in body:
        if isinstance(node, (ast.FunctionDef, ast.ClassDef)) and node.name == name:
            return node
    raise ExtractError(f"definition {cls + '.' if cls else ''}{name} not found")


def const_eval(node, env):
    """Evaluate the small constant expressions the source uses (literals, +, len(), names, OrderedDict([...]))."""
    if isinstance(node, ast.Constant):
        return node.value
    if isinstance(node, ast.Name):
        if node.id in env:
            return env[node.id]
        raise ExtractError(f"unknown name {node.id} in constant expression")
    if isinstance(node, (ast.List, ast.Tuple)):
        return [const_eval(e, env) for e in node.elts]
    if isinstance(node, ast.Dict):
        return [(const_eval(k, env), const_eval(v, env)) for k, v in zip(node.keys, node.values)]
    if isinstance(node, ast.BinOp) and isinstance(node.op, ast.Add):
        return const_eval(node.left, env) + const_eval(node.right, env)
    if isinstance(node, ast.Call) and isinstance(node.func, ast.Name) and node.func.id == "len":
        return len(const_eval(node.args[0], env))
    if isinstance(node, ast.Call) and dotted(node.func) in ("OrderedDict", "collections.OrderedDict", "dict"):
        return [tuple(p) for p in const_eval(node.args[0], env)]
    if isinstance(node, ast.UnaryOp) and isinstance(node.op, ast.USub):
        return -const_eval(node.operand, env)
    raise ExtractError(f"unsupported constant expression: {ast.dump(node)[:120]}")


def dotted(node):
    parts = []
    while isinstance(node, ast.Attribute):
        parts.append(node.attr)
        node = node.value
    if isinstance(node, ast.Name):
        parts.append(node.id)
        return ".".join(reversed(parts))
    return None


def lstr(s):
    out = ['"']
    for ch in s:
        o = ord(ch)
        if ch == '"':
            out.append('\\"')
        elif ch == "\\":
            out.append("\\\\")
        elif ch == "\n":
            out.append("\\n")
        elif ch == "\t":
            out.append("\\t")
        elif ch == "\r":
            out.append("\\r")
        elif 32 <= o < 127:
            out.append(ch)
        else:
            out.append("\\u{%x}" % o)
    out.append('"')
    return "".join(out)


def lbytes(b):
    return "[" + ", ".join(str(x) for x in b) + "]"


def llist(items):
    return "[" + ", ".join(items) + "]"


def lbool(b):
    return "true" if b else "false"


def lpairs(pairs):
    return llist(f"({lstr(a)}, {lstr(b)})" for a, b in pairs)


def calls_in(node):
    return [dotted(n.func) for n in ast.walk(node) if isinstance(n, ast.Call) and dotted(n.func)]


def if_chain(stmt):
    """[(test, body)] of an if/elif chain; a trailing else is (None, body)."""
    out = []
    while True:
        out.append((stmt.test, stmt.body))
        if len(stmt.orelse) == 1 and isinstance(stmt.orelse[0], ast.If):
            stmt = stmt.orelse[0]
        else:
            if stmt.orelse:
                out.append((None, stmt.orelse))
            return out


def src(node):
    return ast.unparse(node)


# ------------------------------------------------------------------ base.py

CODEC_CALLS = [("gzip.GzipFile", "gzip"), ("bz2.BZ2File", "bz2"), ("lz4.open", "lz4"),
               ("zstd.ZstdDecompressor", "zstd"), ("zstd.ZstdCompressor", "zstd")]


def codec_of(body):
    names = []
    for st in body:
        names += calls_in(st)
    for call, codec in CODEC_CALLS:
        if call in names:
            return codec
    raise ExtractError(f"cannot tell the codec opened by: {[src(s) for s in body]}")


def extract_base(errors):
    tree = parse("flow/record/base.py")
    env = {}
    L = ["-- GENERATED by harness/extract.py from flow/record/base.py and whitelist.py. Do not edit.",
         "import FlowRecord.Model.Rx", "namespace FlowRecord.Gen", "open FlowRecord", ""]

    def guard(fn):
        try:
            fn()
        except ExtractError as e:
            errors.append(f"base.py: {e}")
        except Exception as e:  # malformed source shape
            errors.append(f"base.py: {type(e).__name__}: {e}")

    def consts():
        env["RECORD_VERSION"] = const_eval(module_assign(tree, "RECORD_VERSION"), env)
        L.append(f"def RECORD_VERSION : Nat := {env['RECORD_VERSION']}")
        rf = const_eval(module_assign(tree, "RESERVED_FIELDS"), env)
        env["RESERVED_FIELDS"] = rf
        L.append(f"/-- (name, type) in slot order -/\ndef RESERVED_FIELDS : List (String × String) := {lpairs(rf)}")
        for n in ["GZIP_MAGIC", "BZ2_MAGIC", "LZ4_MAGIC", "ZSTD_MAGIC", "AVRO_MAGIC", "RECORDSTREAM_MAGIC"]:
            env[n] = const_eval(module_assign(tree, n), env)
            if not isinstance(env[n], bytes):
                raise ExtractError(f"{n} is not a bytes literal")
            L.append(f"def {n} : List UInt8 := {lbytes(env[n])}")
        env["RECORDSTREAM_MAGIC_DEPTH"] = const_eval(module_assign(tree, "RECORDSTREAM_MAGIC_DEPTH"), env)
        L.append(f"def RECORDSTREAM_MAGIC_DEPTH : Nat := {env['RECORDSTREAM_MAGIC_DEPTH']}")

    guard(consts)

    def regexes():
        for n in ["RE_VALID_FIELD_NAME", "RE_VALID_RECORD_TYPE_NAME"]:
            v = module_assign(tree, n)
            if not (isinstance(v, ast.Call) and dotted(v.func) == "re.compile" and len(v.args) == 1 and not v.keywords):
                raise ExtractError(f"{n} is not re.compile(<literal>)")
            pat = const_eval(v.args[0], env)
            env[n] = pat
            L.append(f"def {n}_SRC : String := {lstr(pat)}")
            L.append(f"def {n} : FlowRecord.Rx := {regex_to_lean(pat)}")

    guard(regexes)

    def open_stream():
        fn = find_def(tree, "open_stream")
        chain = None
        for st in fn.body:
            if isinstance(st, ast.If) and "peek_data" in src(st.test) and "==" in src(st.test):
                chain = if_chain(st)
        if chain is None:
            raise ExtractError("open_stream: magic if-chain not found")
        rows = []
        for test, body in chain:
            if test is None:
                raise ExtractError("open_stream: unexpected else branch")
            flag = ""
            t = test
            if isinstance(t, ast.BoolOp) and isinstance(t.op, ast.And) and len(t.values) == 2 \
                    and isinstance(t.values[0], ast.Name):
                flag, t = t.values[0].id, t.values[1]
            m = re.fullmatch(r"peek_data\[:(\d+)\] == (\w+)", src(t))
            if not m:
                raise ExtractError(f"open_stream: unrecognised test {src(test)}")
            rows.append((flag, int(m.group(1)), m.group(2), codec_of(body)))
        L.append("/-- open_stream's ordered magic tests: (availability flag, prefix length, magic, codec) -/")
        L.append("def openStreamChain : List (String × Nat × List UInt8 × String) := "
                 + llist(f"({lstr(f)}, {n}, {mg}, {lstr(c)})" for f, n, mg, c in rows))
        # peek depth
        peeks = re.findall(r"fp\.peek\((\w+)\)", src(fn))
        if peeks != ["RECORDSTREAM_MAGIC_DEPTH"]:
            raise ExtractError(f"open_stream: peek depth is {peeks}")
        wmode = any(isinstance(st, ast.If) and src(st.test) in ("'w' in mode", '"w" in mode') for st in fn.body)
        L.append(f"def openStreamWriteModePassThrough : Bool := {lbool(wmode)}")

    guard(open_stream)

    def open_path():
        fn = find_def(tree, "open_path")
        chain = None
        for st in ast.walk(fn):
            if isinstance(st, ast.If) and src(st.test).startswith("path.endswith("):
                chain = if_chain(st)
                break
        if chain is None:
            raise ExtractError("open_path: suffix chain not found")
        rows = []
        for test, body in chain:
            if test is None:
                raise ExtractError("open_path: unexpected else in suffix chain")
            if not (isinstance(test, ast.Call) and dotted(test.func) == "path.endswith"):
                raise ExtractError(f"open_path: unrecognised test {src(test)}")
            sfx = const_eval(test.args[0], env)
            sfx = [sfx] if isinstance(sfx, str) else list(sfx)
            rows.append((sfx, codec_of(body)))
        L.append("/-- open_path's ordered suffix tests: (suffixes, codec) -/")
        L.append("def openPathChain : List (List String × String) := "
                 + llist(f"({llist(lstr(s) for s in sf)}, {lstr(c)})" for sf, c in rows))
        falls = "open_stream(fp, mode)" in src(fn) and "not out and binary" in src(fn)
        L.append(f"def openPathSniffsWhenReading : Bool := {lbool(falls)}")

    guard(open_path)

    def find_adapter():
        fn = find_def(tree, "find_adapter_for_stream")
        chain = [st for st in fn.body if isinstance(st, ast.If) and "peek_data" in src(st.test)]
        if len(chain) != 1:
            raise ExtractError("find_adapter_for_stream: if-chain not found")
        rows = []
        for test, body in if_chain(chain[0]):
            if test is None:
                continue
            ret = [s for s in body if isinstance(s, ast.Return)]
            name = const_eval(ret[0].value.elts[1], env)
            s = src(test)
            m1 = re.fullmatch(r"(?:(\w+) and )?peek_data\[:(\d+)\] == (\w+)", s)
            m2 = re.fullmatch(r"(\w+) in peek_data\[:(\w+)\]", s)
            if m1:
                rows.append(("prefix", m1.group(1) or "", int(m1.group(2)), m1.group(3), name))
            elif m2:
                rows.append(("contains", "", env[m2.group(2)] if m2.group(2) in env else int(m2.group(2)),
                             m2.group(1), name))
            else:
                raise ExtractError(f"find_adapter_for_stream: unrecognised test {s}")
        L.append("/-- find_adapter_for_stream: (kind, flag, length, magic, adapter) -/")
        L.append("def containerChain : List (String × String × Nat × List UInt8 × String) := "
                 + llist(f"({lstr(k)}, {lstr(f)}, {n}, {mg}, {lstr(a)})" for k, f, n, mg, a in rows))

    guard(find_adapter)

    def ext_to_adapter():
        fn = find_def(tree, "RecordAdapter")
        for st in fn.body:
            if isinstance(st, ast.Assign) and src(st.targets[0]) == "ext_to_adapter":
                pairs = const_eval(st.value, env)
                L.append(f"def extToAdapter : List (String × String) := {lpairs(pairs)}")
                dflt = re.search(r"ext_to_adapter\.get\(ext, '(\w+)'\)", src(fn))
                if not dflt:
                    raise ExtractError("RecordAdapter: default adapter scheme not found")
                L.append(f"def defaultAdapter : String := {lstr(dflt.group(1))}")
                return
        raise ExtractError("RecordAdapter: ext_to_adapter not found")

    guard(ext_to_adapter)

    def desc_hash():
        fn = find_def(tree, "calc_descriptor_hash", cls="RecordDescriptor")
        s = src(fn)
        m = re.search(r"name \+ ''\.join\(\(f'\{(\w)\}\{(\w)\}' for (\w), (\w) in fields\)\)", s)
        if not m:
            raise ExtractError("calc_descriptor_hash: hash input expression not recognised")
        a, b, t0, t1 = m.groups()
        # fields hold (type, name); which tuple component is interpolated first?
        first_is_name = (a == t1 and b == t0)
        first_is_type = (a == t0 and b == t1)
        if not (first_is_name or first_is_type):
            raise ExtractError("calc_descriptor_hash: interpolation does not use the loop targets")
        L.append(f"/-- hash input = name ++ concat(fieldname ++ fieldtype) when true -/")
        L.append(f"def hashInputNameFirst : Bool := {lbool(first_is_name)}")
        m = re.search(r"\.digest\(\)\[:(\d+)\], byteorder='(\w+)'\)", s)
        if not m or "hashlib.sha256" not in s or ".encode()" not in s:
            raise ExtractError("calc_descriptor_hash: digest slice / byteorder / sha256 not recognised")
        L.append(f"def hashDigestBytes : Nat := {m.group(1)}")
        L.append(f"def hashBigEndian : Bool := {lbool(m.group(2) == 'big')}")

    guard(desc_hash)

    def whitelist():
        wt = parse("flow/record/whitelist.py")
        wl = const_eval(module_assign(wt, "WHITELIST"), {})
        env["WHITELIST"] = wl
        L.append(f"def WHITELIST : List String := {llist(lstr(w) for w in wl)}")

    guard(whitelist)

    def ts_loop():
        fn = find_def(tree, "iter_timestamped_records")
        loop = [st for st in fn.body if isinstance(st, ast.For)]
        if len(loop) != 1:
            raise ExtractError("iter_timestamped_records: loop not found")
        rebinds = any(isinstance(st, ast.Assign) and src(st.targets[0]) == "record" for st in loop[0].body)
        L.append(f"/-- the per-timestamp loop assigns to the variable it reads the original values from -/")
        L.append(f"def tsLoopRebindsRecord : Bool := {lbool(rebinds)}")

    guard(ts_loop)

    L += ["", "end FlowRecord.Gen", ""]
    return "Base", "\n".join(L), env


# ------------------------------------------------------------------ regex -> Lean term



def regex_to_lean(pat):
    pos = 0

    def peek():
        return pat[pos] if pos < len(pat) else None

    def parse_seq(stop):
        nonlocal pos
        items = []
        while pos < len(pat) and pat[pos] not in stop:
            items.append(parse_postfix())
        t = "Rx.eps"
        for it in reversed(items):
            t = it if t == "Rx.eps" else f"(Rx.seq {it} {t})"
        return t

    def parse_postfix():
        nonlocal pos
        a = parse_atom()
        while peek() in ("?", "*"):
            a = f"(Rx.opt {a})" if pat[pos] == "?" else f"(Rx.star {a})"
            pos += 1
        return a

    def parse_atom():
        nonlocal pos
        c = pat[pos]
        if c == "^":
            pos += 1
            return "Rx.bol"
        if c == "$":
            pos += 1
            return "Rx.eol"
        if c == "(":
            pos += 1
            inner = parse_seq(")")
            if peek() != ")":
                raise ExtractError("regex: unbalanced parenthesis")
            pos += 1
            return inner
        if c == "[":
            pos += 1
            ranges = []
            if peek() == "^":
                raise ExtractError("regex: negated class unsupported")
            while peek() != "]":
                if peek() is None:
                    raise ExtractError("regex: unterminated class")
                a = pat[pos]
                if a == "\\":
                    raise ExtractError("regex: escapes in class unsupported")
                if pos + 2 < len(pat) and pat[pos + 1] == "-" and pat[pos + 2] != "]":
                    ranges.append((ord(a), ord(pat[pos + 2])))
                    pos += 3
                else:
                    ranges.append((ord(a), ord(a)))
                    pos += 1
            pos += 1
            return "(Rx.cls " + llist(f"({a}, {b})" for a, b in ranges) + ")"
        if c in "\\.+{|":
            raise ExtractError(f"regex: unsupported construct {c!r} in {pat!r}")
        pos += 1
        return f"(Rx.cls [({ord(c)}, {ord(c)})])"

    t = parse_seq("")
    if pos != len(pat):
        raise ExtractError(f"regex: trailing input at {pos} in {pat!r}")
    return t


# ------------------------------------------------------------------ packer.py / stream.py

def extract_wire(errors):
    L = ["-- GENERATED by harness/extract.py from flow/record/packer.py, jsonpacker.py and stream.py. Do not edit.",
         "namespace FlowRecord.Gen", ""]

    def guard(fn):
        try:
            fn()
        except ExtractError as e:
            errors.append(f"wire: {e}")
        except Exception as e:
            errors.append(f"wire: {type(e).__name__}: {e}")

    tree = parse("flow/record/packer.py")

    def consts():
        for n in ["RECORD_PACK_EXT_TYPE", "RECORD_PACK_TYPE_RECORD", "RECORD_PACK_TYPE_DESCRIPTOR",
                  "RECORD_PACK_TYPE_FIELDTYPE", "RECORD_PACK_TYPE_DATETIME", "RECORD_PACK_TYPE_VARINT",
                  "RECORD_PACK_TYPE_GROUPEDRECORD"]:
            L.append(f"def {n} : Nat := {const_eval(module_assign(tree, n), {})}")
        for n in ["packb", "unpackb"]:
            v = module_assign(tree, n)
            if not (isinstance(v, ast.Call) and dotted(v.func) == "functools.partial"
                    and dotted(v.args[0]) == f"msgpack.{n}"):
                raise ExtractError(f"{n} is not functools.partial(msgpack.{n}, ...)")
            kws = sorted((k.arg, repr(const_eval(k.value, {}))) for k in v.keywords)
            L.append(f"def {n}Options : List (String × String) := {lpairs(kws)}")
        cls = find_def(tree, "RecordPacker")
        up = src(find_def(tree, "unpack", cls="RecordPacker"))
        L.append(f"def unpackUsesTuples : Bool := {lbool('use_list=False' in up)}")
        L.append(f"def unpackHasExtHook : Bool := {lbool('ext_hook=self.unpack_obj' in up)}")

    guard(consts)

    def pack_order():
        fn = find_def(tree, "pack_obj", cls="RecordPacker")
        chain = [st for st in fn.body if isinstance(st, ast.If) and src(st.test).startswith("isinstance(obj")]
        if not chain:
            raise ExtractError("pack_obj: isinstance chain not found")
        order = []
        for test, body in if_chain(chain[0]):
            if test is None:
                continue
            m = re.fullmatch(r"isinstance\(obj, (\w+)\)", src(test))
            if not m:
                raise ExtractError(f"pack_obj: unrecognised test {src(test)}")
            order.append(m.group(1))
        L.append(f"def packObjOrder : List String := {llist(lstr(o) for o in order)}")
        s = src(fn)
        # datetime: 7-tuple when naive or UTC, ISO text otherwise
        L.append("def dtTupleWhenUtc : Bool := "
                 + lbool("obj.tzinfo is None or obj.tzinfo == UTC" in s and "*obj.timetuple()[:6], obj.microsecond" in s))
        L.append(f"def dtIsoOtherwise : Bool := {lbool('(obj.isoformat(),)' in s)}")
        L.append("def varintSignMagnitude : Bool := "
                 + lbool("(neg, v.to_bytes((v.bit_length() + 7) // 8, 'big'))" in s and "neg = obj < 0" in s
                         and "v = abs(obj)" in s))
        # writer guard of the Record branch
        rec = [b for t, b in if_chain(chain[0]) if t is not None and src(t) == "isinstance(obj, Record)"]
        if not rec:
            raise ExtractError("pack_obj: Record branch not found")
        g = [st for st in rec[0] if isinstance(st, ast.If)]
        if not g:
            raise ExtractError("pack_obj: Record branch has no registration guard")
        gs = src(g[0].test)
        kind = "identifier-membership" if gs == "obj._desc.identifier not in self.descriptors" else (
            "descriptor-comparison" if "!=" in gs and "self.descriptors.get(" in gs else "unknown")
        L.append(f"def writerGuardSrc : String := {lstr(gs)}")
        L.append(f"def writerGuardKind : String := {lstr(kind)}")

    guard(pack_order)

    def stream_consts():
        st = parse("flow/record/stream.py")
        w = src(find_def(st, "write", cls="RecordStreamWriter"))
        m = re.search(r"struct\.pack\('([^']+)', len\(blob\)\)", w)
        r = src(find_def(st, "read", cls="RecordStreamReader"))
        m2 = re.search(r"struct\.unpack\('([^']+)', d\)", r)
        m3 = re.search(r"self\.fp\.read\((\d+)\)", r)
        if not (m and m2 and m3):
            raise ExtractError("stream.py: length prefix pack/unpack not recognised")
        L.append(f"def lenFormatWrite : String := {lstr(m.group(1))}")
        L.append(f"def lenFormatRead : String := {lstr(m2.group(1))}")
        L.append(f"def lenPrefixBytes : Nat := {m3.group(1)}")
        short_eof = bool(re.search(r"if len\(d\) != %s:\s+raise EOFError\(\)" % m3.group(1), r))
        L.append(f"def shortLengthIsEof : Bool := {lbool(short_eof)}")
        # `read`, statement by statement: one read for the length prefix, ONE read of exactly `size` bytes for the body
        rdef = find_def(st, "read", cls="RecordStreamReader")
        flat_ = []
        for s_ in rdef.body:
            if isinstance(s_, ast.Expr) and isinstance(s_.value, ast.Constant):
                continue
            if isinstance(s_, ast.If) and not s_.orelse:
                flat_.append("if " + src(s_.test) + ":")
                flat_ += ["  " + src(b_) for b_ in s_.body]
            else:
                flat_.append(src(s_).replace("\n", " ; "))
        L.append("def readerReadBody : List String := " + llist(lstr(x) for x in flat_))
        rh = src(find_def(st, "readheader", cls="RecordStreamReader"))
        L.append("def headerReadLen : String := "
                 + lstr(re.search(r"self\.fp\.read\((.*?)\)\n", rh).group(1)))
        L.append(f"def headerCheckEndswith : Bool := {lbool('header.endswith(RECORDSTREAM_MAGIC)' in rh)}")
        it = src(find_def(st, "__iter__", cls="RecordStreamReader"))
        L.append("def readerFilterPattern : Bool := "
                 + lbool("if not self.selector or self.selector.match(obj):\n" in it))
        L.append(f"def readerSkipsRepeatedHeader : Bool := {lbool('if obj == RECORDSTREAM_MAGIC:' in it)}")

    guard(stream_consts)

    L += ["", "end FlowRecord.Gen", ""]
    return "Wire", "\n".join(L)


# ------------------------------------------------------------------ selector.py

def extract_selector(errors):
    L = ["-- GENERATED by harness/extract.py from flow/record/selector.py. Do not edit.",
         "namespace FlowRecord.Gen", ""]
    tree = parse("flow/record/selector.py")

    def guard(fn):
        try:
            fn()
        except ExtractError as e:
            errors.append(f"selector.py: {e}")
        except Exception as e:
            errors.append(f"selector.py: {type(e).__name__}: {e}")

    def tables():
        for n in ["AST_OPERATORS", "AST_COMPARATORS"]:
            v = module_assign(tree, n)
            rows = []
            for k, val in zip(v.keys, v.values):
                kn = dotted(k)
                if not kn or not kn.startswith("ast."):
                    raise ExtractError(f"{n}: key {src(k)}")
                if isinstance(val, ast.Lambda):
                    body = src(val.body)
                    tgt = "lambda:" + re.sub(r"\s+", " ", body)
                else:
                    tgt = dotted(val) or src(val)
                rows.append((kn[4:], tgt))
            L.append(f"def {n} : List (String × String) := {lpairs(rows)}")

    guard(tables)

    def comparator_shapes():
        # C07/C08: structural reading of the AST_COMPARATORS right-hand sides (the lambdas are analysed, not quoted):
        #   operator.<f>                                                   -> "operator.<f>"
        #   lambda l, r: False if isinstance(l, NoneObject) or isinstance(r, NoneObject) else <E>
        #       with <E> = operator.contains(r, l)                         -> "guarded:contains"
        #            <E> = operator.contains(r, l) is False                -> "guarded:not-contains"
        #   anything else                                                  -> "other:<source>"
        v = module_assign(tree, "AST_COMPARATORS")
        rows = []
        for k, val in zip(v.keys, v.values):
            kn = dotted(k)[4:]
            shape = None
            if isinstance(val, ast.Lambda) and len(val.args.args) == 2 and isinstance(val.body, ast.IfExp):
                a, b = (x.arg for x in val.args.args)
                ife = val.body
                want_test = f"isinstance({a}, NoneObject) or isinstance({b}, NoneObject)"
                if src(ife.test) == want_test and src(ife.body) == "False":
                    e = src(ife.orelse)
                    if e == f"operator.contains({b}, {a})":
                        shape = "guarded:contains"
                    elif e == f"operator.contains({b}, {a}) is False":
                        shape = "guarded:not-contains"
            if shape is None:
                shape = (dotted(val) or "") if not isinstance(val, ast.Lambda) else ""
                if not shape.startswith("operator."):
                    shape = "other:" + re.sub(r"\s+", " ", src(val))[:60]
            rows.append((kn, shape))
        L.append(f"def comparatorShapes : List (String × String) := {lpairs(rows)}")

    guard(comparator_shapes)

    def methods():
        for cname, out in [("NoneObject", "noneObjectMethods"), ("TypeMatcherInstance", "typeMatcherInstanceMethods")]:
            cls = find_def(tree, cname)
            rows = []
            for st in cls.body:
                if isinstance(st, ast.FunctionDef):
                    ret = [x for x in st.body if isinstance(x, ast.Return)]
                    rv = src(ret[0].value) if len(st.body) == 1 and ret and ret[0].value is not None else "<code>"
                    rows.append((st.name, rv))
            L.append(f"def {out} : List (String × String) := {lpairs(rows)}")

    guard(methods)

    def whitelist():
        v = module_assign(tree, "FUNCTION_WHITELIST")
        L.append(f"def FUNCTION_WHITELIST : List String := {llist(lstr(src(e)) for e in v.elts)}")
        fn = find_def(tree, "matches", cls="RecordContextMatcher")
        keys = []
        for st in fn.body:
            if isinstance(st, ast.Assign) and src(st.targets[0]) == "self.data" and isinstance(st.value, ast.Dict):
                keys += [const_eval(k, {}) for k in st.value.keys]
            elif isinstance(st, ast.Assign) and src(st.targets[0]).startswith("self.data["):
                keys.append(const_eval(st.targets[0].slice, {}))
        L.append(f"def matcherNamespaceKeys : List String := {llist(lstr(k) for k in keys)}")
        rebuilds = any(isinstance(st, ast.Assign) and src(st.targets[0]) == "self.data" for st in fn.body)
        L.append(f"def matchesRebuildsNamespace : Bool := {lbool(rebuilds)}")

    guard(whitelist)

    def eval_shape():
        fn = find_def(tree, "_eval", cls="RecordContextMatcher")
        chain = [st for st in fn.body if isinstance(st, ast.If)]
        kinds, bodies = [], {}
        for test, body in if_chain(chain[0]):
            if test is None:
                continue
            m = re.fullmatch(r"isinstance\(node, ast\.(\w+)\)", src(test))
            if not m:
                raise ExtractError(f"_eval: unrecognised test {src(test)}")
            kinds.append(m.group(1))
            bodies[m.group(1)] = body
        L.append(f"def evalNodeKinds : List String := {llist(lstr(k) for k in kinds)}")
        tail_raises = isinstance(fn.body[-1], ast.Raise) and "TypeError" in src(fn.body[-1])
        L.append(f"def evalRejectsOtherNodes : Bool := {lbool(tail_raises)}")
        attr = "\n".join(src(s) for s in bodies.get("Attribute", []))
        m = re.search(r"node\.attr\.startswith\('(_+)'\)", attr)
        L.append(f"def attrRefusedPrefix : String := {lstr(m.group(1) if m else '')}")
        L.append("def attrRefusedBeforeEval : Bool := "
                 + lbool(bool(m) and attr.index("startswith") < attr.index("self.eval(node.value)")))
        cmp_ = "\n".join(src(s) for s in bodies.get("Compare", []))
        L.append(f"def compareIteratesAllOps : Bool := {lbool('zip(node.ops, node.comparators)' in cmp_)}")
        L.append(f"def compareReadsOnlyFirstOp : Bool := {lbool('node.ops[0]' in cmp_ and 'zip(' not in cmp_)}")
        bo = "\n".join(src(s) for s in bodies.get("BoolOp", []))
        L.append(f"def boolOpCoercesToBool : Bool := {lbool('value = bool(value)' in bo)}")
        L.append(f"def boolOpShortCircuits : Bool := {lbool('return value' in bo)}")
        call = "\n".join(src(s) for s in bodies.get("Call", []))
        L.append("def callTargetFromStaticTables : Bool := "
                 + lbool("self.allowed_calls[func_name]" in call and "self.eval(node.func)" not in call
                         and "self.data" not in call))
        L.append("def callRefusalPrecedesArgs : Bool := "
                 + lbool("raise InvalidOperation" in call and "node.args" in call
                         and call.rindex("raise InvalidOperation") < call.index("node.args")))
        L.append(f"def callWhitelistConsultsLiveNamespace : Bool := {lbool('self.data.get(func_name)' in call)}")
        mt = src(find_def(tree, "matches", cls="RecordContextMatcher"))
        L.append("def allowedCallsFixedAtNamespaceConstruction : Bool := "
                 + lbool("self.allowed_calls = {k: v for k, v in self.data.items() if callable(v)}" in mt))
        rap = src(find_def(tree, "resolve_attr_path"))
        L.append("def callTargetMustResolveToName : Bool := "
                 + lbool("else:" in rap or "raise" in rap or "return None" in rap))
        ge = "\n".join(src(s) for s in bodies.get("GeneratorExp", []))
        L.append(f"def genexpVarsScoped : Bool := {lbool('del self.data[' in ge or 'self.data.pop(' in ge or 'finally' in ge)}")
        L.append(f"def genexpRefusesShadowing : Bool := {lbool('overwrites existing variable' in ge)}")

    guard(eval_shape)

    def name_fallback():
        # C09: the Name branch of _eval. A name that is not in self.data falls back to
        # getattr(dynamic_fieldtype, node.id); is a prefix test on node.id raised *before* that getattr?
        fn = find_def(tree, "_eval", cls="RecordContextMatcher")
        chain = [st for st in fn.body if isinstance(st, ast.If)]
        body = None
        for test, b in if_chain(chain[0]):
            if test is not None and src(test) == "isinstance(node, ast.Name)":
                body = b
        if body is None:
            raise ExtractError("_eval: Name branch not found")
        text = "\n".join(src(s) for s in body)
        if "getattr(dynamic_fieldtype, node.id)" not in text:
            raise ExtractError("_eval: Name branch no longer falls back to getattr(dynamic_fieldtype, node.id)")
        m = re.search(r"node\.id\.startswith\('(_+)'\)", text)
        refuses = bool(m) and "raise InvalidOperation" in text and \
            text.index("startswith") < text.index("raise InvalidOperation") < text.index("getattr(dynamic_fieldtype")
        L.append(f"def nameFallbackRefusesDunder : Bool := {lbool(refuses)}")
        L.append(f"def nameRefusedPrefix : String := {lstr(m.group(1) if refuses else '')}")

    guard(name_fallback)

    L += ["", "end FlowRecord.Gen", ""]
    return "Selector", "\n".join(L)


# ------------------------------------------------------------------ adapters, rdump, fieldtypes

def extract_adapters(errors):
    L = ["-- GENERATED by harness/extract.py from flow/record/adapter/*.py, tools/rdump.py, fieldtypes. Do not edit.",
         "namespace FlowRecord.Gen", ""]

    def guard(fn):
        try:
            fn()
        except ExtractError as e:
            errors.append(f"adapters: {e}")
        except Exception as e:
            errors.append(f"adapters: {type(e).__name__}: {e}")

    def avro():
        t = parse("flow/record/adapter/avro.py")
        for n in ["AVRO_TYPE_MAP", "RECORD_TYPE_MAP"]:
            L.append(f"def {n} : List (String × String) := {lpairs(const_eval(module_assign(t, n), {}))}")
        c = src(find_def(t, "close", cls="AvroWriter"))
        # the pending block is flushed UNCONDITIONALLY while the file is open: `self.writer.flush()` is a direct statement of
        # the `if self.fp:` body (not under the stdout test or any other branch) and comes before `self.fp.close()`
        cd = find_def(t, "close", cls="AvroWriter")
        uncond = False
        for st_ in cd.body:
            if isinstance(st_, ast.If) and src(st_.test) == "self.fp":
                direct = [src(x) for x in st_.body]
                if "self.writer.flush()" in direct:
                    after = direct[direct.index("self.writer.flush()") + 1:]
                    before = direct[:direct.index("self.writer.flush()")]
                    uncond = not any("self.fp.close()" in x for x in before) and not any("return" in x for x in before)
                    del after
        L.append(f"def avroCloseFlushes : Bool := {lbool('flush()' in c and uncond)}")
        r = src(find_def(t, "__iter__", cls="AvroReader"))
        L.append("def avroReaderFilterPattern : Bool := "
                 + lbool("if not self.selector or self.selector.match(rec):" in r))
        s2d = src(find_def(t, "schema_to_descriptor"))
        m = re.search(r"doc\.startswith\('(.*?)'\) and doc\.endswith\('(.*?)'\)", s2d)
        if not m:
            raise ExtractError("schema_to_descriptor: doc sniff not recognised")
        L.append(f"def avroDocPrefix : String := {lstr(m.group(1))}")
        L.append(f"def avroDocSuffix : String := {lstr(m.group(2))}")

    guard(avro)

    def sqlite():
        t = parse("flow/record/adapter/sqlite.py")
        for n in ["FIELD_MAP", "SQLITE_FIELD_MAP"]:
            out = "SQLITE_COLUMN_TYPE_MAP" if n == "FIELD_MAP" else n
            L.append(f"def {out} : List (String × String) := {lpairs(const_eval(module_assign(t, n), {}))}")
        w = src(find_def(t, "write", cls="SqliteWriter"))
        L.append(f"def sqliteCommitTest : String := {lstr(re.search(r'if (self.count .*?):', w).group(1))}")
        L.append(f"def sqliteFlushOnNewDescriptor : Bool := {lbool('update_descriptor_columns(self.con, desc)' in w and w.count('self.flush()') >= 2)}")
        c = src(find_def(t, "close", cls="SqliteWriter"))
        L.append(f"def sqliteCloseFlushes : Bool := {lbool('self.flush()' in c)}")
        r = src(find_def(t, "__iter__", cls="SqliteReader"))
        L.append("def sqliteReaderFilterPattern : Bool := "
                 + lbool("if not self.selector or self.selector.match(record):" in r))

    guard(sqlite)

    def others():
        t = parse("flow/record/adapter/jsonfile.py")
        r = src(find_def(t, "__iter__", cls="JsonfileReader"))
        L.append(f"def jsonReaderFilterCount : Nat := {r.count('if not self.selector or self.selector.match(obj):')}")
        t = parse("flow/record/adapter/csvfile.py")
        r = src(find_def(t, "__iter__", cls="CsvfileReader"))
        L.append("def csvReaderFilterPattern : Bool := "
                 + lbool("if not self.selector or self.selector.match(record):" in r))
        t = parse("flow/record/adapter/split.py")
        L.append(f"def splitDefaultCount : Nat := {const_eval(module_assign(t, 'DEFAULT_RECORD_COUNT'), {})}")
        L.append(f"def splitDefaultSuffixLen : Nat := {const_eval(module_assign(t, 'DEFAULT_SUFFIX_LENGTH'), {})}")
        w = src(find_def(t, "write", cls="SplitWriter"))
        L.append(f"def splitRotateTest : String := {lstr(re.search(r'if (self.written .*?):', w).group(1))}")

    guard(others)

    def rdump():
        t = parse("flow/record/tools/rdump.py")
        fn = find_def(t, "main")
        for st in ast.walk(fn):
            if isinstance(st, ast.Assign) and src(st.targets[0]) == "mode_to_uri":
                L.append(f"def modeToUri : List (String × String) := {lpairs(const_eval(st.value, {}))}")
                break
        else:
            raise ExtractError("rdump.main: mode_to_uri not found")
        s = src(fn)
        m = re.search(r"islice_stop = (.*)\n", s)
        m2 = re.search(r"islice\(record_stream\(args\.src, selector\), (.*?)\)\n", s)
        if not (m and m2):
            raise ExtractError("rdump.main: islice expression not found")
        L.append(f"def rdumpSliceStop : String := {lstr(m.group(1))}")
        L.append(f"def rdumpSliceArgs : String := {lstr(m2.group(1))}")

    guard(rdump)

    def fieldtypes():
        t = parse("flow/record/fieldtypes/__init__.py")
        for cname in ["uint16", "uint32", "boolean"]:
            init = src(find_def(t, "__init__", cls=cname))
            m = re.search(r"if value < (\w+) or value > (\w+)( or value != int\(value\))?:", init)
            if not m:
                raise ExtractError(f"{cname}.__init__: range test not recognised")
            L.append(f"def {cname}Min : Int := {int(m.group(1), 0)}")
            L.append(f"def {cname}Max : Int := {int(m.group(2), 0)}")
            L.append(f"def {cname}RejectsFractions : Bool := {lbool(bool(m.group(3)))}")
        for n in ["TYPE_POSIX", "TYPE_WINDOWS"]:
            L.append(f"def {n} : Nat := {const_eval(module_assign(t, n), {})}")
        users = []
        for node in ast.walk(t):
            if isinstance(node, ast.FunctionDef) and any(
                    isinstance(x, ast.Name) and x.id == "DISPLAY_TZINFO" for x in ast.walk(node)):
                users.append(node.name)
        L.append(f"def displayTzReaders : List String := {llist(lstr(u) for u in sorted(users))}")
        dn = src(find_def(t, "__new__", cls="datetime"))
        L.append(f"def datetimeCtorKeepsFold : Bool := {lbool('fold=' in dn or 'arg.fold' in dn)}")
        # typedlist._pack: an element that is not (yet) of the element type - appended in place - is converted by
        # `self.__type__(f)` before it is packed (records excepted: the packer packs those)
        tp = find_def(t, "_pack", cls="typedlist")
        conv = any(isinstance(c, ast.Call) and isinstance(c.func, ast.Attribute) and c.func.attr == "_pack"
                   and isinstance(c.func.value, ast.Call) and src(c.func.value.func) == "self.__type__"
                   for c in ast.walk(tp))
        guarded = "isinstance(f, self.__type__)" in src(tp)
        L.append(f"def typedlistPackConvertsRaw : Bool := {lbool(conv and guarded)}")
        # digest setters: the length check comes before the assignment (a refused value is never stored)
        first = True
        for node in ast.walk(t):
            if isinstance(node, ast.ClassDef) and node.name == "digest":
                for fn in node.body:
                    if isinstance(fn, ast.FunctionDef) and fn.name in ("md5", "sha1", "sha256") and len(fn.args.args) == 2:
                        body = src(fn)
                        i_chk = body.find("Incorrect hash length")
                        i_set = body.find("self.__%s = val" % fn.name)
                        if i_chk < 0 or i_set < 0 or i_set < i_chk:
                            first = False
        L.append(f"def digestSetterChecksFirst : Bool := {lbool(first)}")
        ti = src(find_def(t, "__init__", cls="typedlist"))
        L.append(f"def typedlistInitConverts : Bool := {lbool('self._convert(values)' in ti)}")

    guard(fieldtypes)

    def writers():
        """C17: structural facts of the writer lifecycles (who writes the header, who flushes on close, rotation)."""
        st = parse("flow/record/stream.py")
        ad = parse("flow/record/adapter/stream.py")

        def hdr(s):
            return bool(re.search(r"if not self\.header_written:\s*\n\s*self\.writeheader\(\)", s))

        w = src(find_def(st, "write", cls="RecordStreamWriter"))
        f = src(find_def(st, "flush", cls="RecordStreamWriter"))
        c = src(find_def(st, "close", cls="RecordStreamWriter"))
        swf = src(find_def(ad, "flush", cls="StreamWriter"))
        swc = src(find_def(ad, "close", cls="StreamWriter"))
        L.append(f"def streamWriteWritesHeader : Bool := {lbool(hdr(w))}")
        L.append(f"def streamFlushWritesHeader : Bool := {lbool(hdr(f) and 'self.stream.flush()' in swf)}")
        L.append("def streamCloseWritesHeader : Bool := "
                 + lbool(hdr(c) or "writeheader" in c or "self.flush()" in c or "self.flush()" in swc
                         or "self.stream.flush()" in swc))
        av = parse("flow/record/adapter/avro.py")
        fl = src(find_def(av, "flush", cls="AvroWriter"))
        L.append("def avroFlushCreatesWriter : Bool := "
                 + lbool("if not self.writer:" in fl and "fastavro.write.Writer(" in fl))
        ab = parse("flow/record/adapter/__init__.py")
        ex = find_def(ab, "__exit__", cls="AbstractWriter")
        body = [src(s) for s in ex.body if not (isinstance(s, ast.Expr) and isinstance(s.value, ast.Constant))]
        L.append(f"def exitFlushesThenCloses : Bool := {lbool(body == ['self.flush()', 'self.close()'])}")
        rot = src(find_def(st, "rotate_existing_file", cls="PathTemplateWriter"))
        L.append("def rotateNeverOverwrites : Bool := "
                 + lbool(bool(re.search(r"while os\.path\.exists\(dst\):", rot)) and "seq += 1" in rot))
        m = re.search(r"stamp = '\{now:(.*?)\}'\.format\(now=now\)", rot)
        if not m:
            raise ExtractError("rotate_existing_file: stamp format not recognised")
        L.append(f"def rotateStampFormat : String := {lstr(m.group(1))}")
        rsp = src(find_def(st, "record_stream_for_path", cls="PathTemplateWriter"))
        i_rot, i_new = rsp.find("self.rotate_existing_file(path)"), rsp.find("RecordWriter(path)")
        L.append(f"def templateRotatesBeforeOpen : Bool := {lbool(0 <= i_rot < i_new)}")
        tw = find_def(st, "write", cls="PathTemplateWriter")
        L.append("def templateWriteBody : List String := " + llist(lstr(src(x)) for x in tw.body
                                                                    if not (isinstance(x, ast.Expr) and isinstance(x.value, ast.Constant))))
        sp = parse("flow/record/adapter/split.py")
        nx = src(find_def(sp, "_next_path", cls="SplitWriter"))
        L.append("def splitNextPathShape : Bool := "
                 + lbool("str(self.file_count).rjust(self.suffix_length, '0')" in nx
                         and "path.with_suffix(f'.{suffix}{path.suffix}')" in nx and "self.file_count += 1" in nx))
        sw = src(find_def(sp, "write", cls="SplitWriter"))
        seq = [x for x in re.findall(r"self\.flush\(\)|self\.close\(\)|self\.written = 0|self\.writer = RecordWriter\(",
                                     sw.split("if self.written >= self.count:")[-1])] if "if self.written >=" in sw else []
        L.append("def splitRotateSequence : List String := " + llist(lstr(x) for x in seq))

    guard(writers)

    L += ["", "end FlowRecord.Gen", ""]
    return "Adapters", "\n".join(L)


EXTRA_EXTRACTORS = []   # other sections may append their extract_* function here


# ------------------------------------------------------------------ entry point

def write_if_changed(name, content):
    os.makedirs(GEN, exist_ok=True)
    path = os.path.join(GEN, name + ".lean")
    old = None
    if os.path.exists(path):
        with open(path, encoding="utf-8") as f:
            old = f.read()
    if old == content:
        return False
    tmp = path + f".tmp{os.getpid()}"
    with open(tmp, "w", encoding="utf-8") as f:
        f.write(content)
    os.replace(tmp, path)
    return True


def cross_check(env, errors):
    """The parsed values must equal what the imported module holds (a monkey-patched tree is reported)."""
    try:
        import importlib
        import sys
        if REPO not in sys.path:
            sys.path.insert(0, REPO)
        base = importlib.import_module("flow.record.base")
        for k in ["RECORD_VERSION", "GZIP_MAGIC", "BZ2_MAGIC", "LZ4_MAGIC", "ZSTD_MAGIC", "AVRO_MAGIC",
                  "RECORDSTREAM_MAGIC", "RECORDSTREAM_MAGIC_DEPTH"]:
            if k in env and getattr(base, k) != env[k]:
                errors.append(f"cross-check: {k} parsed {env[k]!r} but module holds {getattr(base, k)!r}")
        if "RESERVED_FIELDS" in env and list(base.RESERVED_FIELDS.items()) != [tuple(p) for p in env["RESERVED_FIELDS"]]:
            errors.append("cross-check: RESERVED_FIELDS differs from imported module")
        if "WHITELIST" in env and list(base.WHITELIST) != env["WHITELIST"]:
            errors.append("cross-check: WHITELIST differs from imported module")
    except Exception as e:
        errors.append(f"cross-check: import failed: {type(e).__name__}: {e}")


def sub_extractors():
    """Per-topic extractors living in their own modules (harness/extract_<topic>.py, each defining
    extract_<topic>(errors) -> (GenFileName, content)). Add new ones HERE (one line), nowhere else."""
    import importlib
    out = []
    for topic in ("pipeline", "record", "textout", "formats"):
        mod = importlib.import_module(f"harness.extract_{topic}" if __package__ in (None, "") else f"{__package__}.extract_{topic}")
        out.append(getattr(mod, f"extract_{topic}"))
    return out + list(EXTRA_EXTRACTORS)


def run():
    """Regenerate Gen/*.lean. Returns the list of files whose content changed; raises ExtractError on failure.
    A Gen file whose section failed to extract is left as it was (so the model still builds and the search for a
    failing input can use it); the failure itself is reported to the caller."""
    errors = []
    changed = []
    n0 = len(errors)
    name, content, env = extract_base(errors)
    if len(errors) == n0 and write_if_changed(name, content):
        changed.append(name)
    seen = []
    for fn in [extract_wire, extract_selector, extract_adapters] + sub_extractors():
        if fn in seen:
            continue
        seen.append(fn)
        n0 = len(errors)
        name, content = fn(errors)
        if len(errors) == n0 and write_if_changed(name, content):
            changed.append(name)
    cross_check(env, errors)
    if errors:
        raise ExtractError("; ".join(errors))
    return changed


if __name__ == "__main__":
    print("changed:", run())
