"""Independent reference ENcoder for the published RecordStream format (C02, direction reference -> implementation).

Written from the format description only (no import of flow.record): msgpack with a free choice of size class
wherever the format allows one, extension type 14 wrapping [sub-type, payload], 4-byte big-endian frame lengths.
`choose(n)` returns an index < n; a deterministic PRNG makes every stream reproducible.
"""
import hashlib
import struct

EXT = 14
SUB_RECORD, SUB_DESC, SUB_DT, SUB_VARINT, SUB_GROUPED = 1, 2, 0x10, 0x11, 0x12
MAGIC = b"RECORDSTREAM\n"


class Enc:
    def __init__(self, choose):
        self.choose = choose          # choose(n) -> 0..n-1 ; 0 means "minimal class"

    def _pick(self, options):
        return options[self.choose(len(options))]

    def nil(self):
        return b"\xc0"

    def boolean(self, b):
        return b"\xc3" if b else b"\xc2"

    def integer(self, i):
        opts = []
        if 0 <= i < 128:
            opts.append(bytes([i]))
        if -32 <= i < 0:
            opts.append(bytes([256 + i]))
        if 0 <= i:
            for code, fmt, lim in ((0xcc, ">B", 2 ** 8), (0xcd, ">H", 2 ** 16), (0xce, ">I", 2 ** 32), (0xcf, ">Q", 2 ** 64)):
                if i < lim:
                    opts.append(bytes([code]) + struct.pack(fmt, i))
        for code, fmt, lo, hi in ((0xd0, ">b", -2 ** 7, 2 ** 7), (0xd1, ">h", -2 ** 15, 2 ** 15),
                                  (0xd2, ">i", -2 ** 31, 2 ** 31), (0xd3, ">q", -2 ** 63, 2 ** 63)):
            if lo <= i < hi:
                opts.append(bytes([code]) + struct.pack(fmt, i))
        if not opts:
            raise OverflowError(i)
        return self._pick(opts)

    def float64(self, bits_hex):
        return b"\xcb" + bytes.fromhex(bits_hex)

    def string(self, raw):
        n = len(raw)
        opts = []
        if n < 32:
            opts.append(bytes([0xa0 + n]))
        if n < 2 ** 8:
            opts.append(b"\xd9" + struct.pack(">B", n))
        if n < 2 ** 16:
            opts.append(b"\xda" + struct.pack(">H", n))
        opts.append(b"\xdb" + struct.pack(">I", n))
        return self._pick(opts) + raw

    def binary(self, raw):
        n = len(raw)
        opts = []
        if n < 2 ** 8:
            opts.append(b"\xc4" + struct.pack(">B", n))
        if n < 2 ** 16:
            opts.append(b"\xc5" + struct.pack(">H", n))
        opts.append(b"\xc6" + struct.pack(">I", n))
        return self._pick(opts) + raw

    def array(self, items):
        n = len(items)
        opts = []
        if n < 16:
            opts.append(bytes([0x90 + n]))
        if n < 2 ** 16:
            opts.append(b"\xdc" + struct.pack(">H", n))
        opts.append(b"\xdd" + struct.pack(">I", n))
        return self._pick(opts) + b"".join(items)

    def mapping(self, pairs):
        n = len(pairs)
        opts = []
        if n < 16:
            opts.append(bytes([0x80 + n]))
        if n < 2 ** 16:
            opts.append(b"\xde" + struct.pack(">H", n))
        opts.append(b"\xdf" + struct.pack(">I", n))
        return self._pick(opts) + b"".join(k + v for k, v in pairs)

    def ext(self, payload):
        n = len(payload)
        opts = []
        fix = {1: 0xd4, 2: 0xd5, 4: 0xd6, 8: 0xd7, 16: 0xd8}
        if n in fix:
            opts.append(bytes([fix[n], EXT]))
        if n < 2 ** 8:
            opts.append(b"\xc7" + struct.pack(">B", n) + bytes([EXT]))
        if n < 2 ** 16:
            opts.append(b"\xc8" + struct.pack(">H", n) + bytes([EXT]))
        opts.append(b"\xc9" + struct.pack(">I", n) + bytes([EXT]))
        return self._pick(opts) + payload

    def envelope(self, sub, payload):
        return self.ext(self.array([self.integer(sub), payload]))

    # ---- values at the packed level: tagged tuples as in harness.wire PV JSON
    def pv(self, v):
        t = v[0]
        if t == "N":
            return self.nil()
        if t == "B":
            return self.boolean(v[1])
        if t == "I":
            i = int(v[1])
            if -2 ** 63 <= i < 2 ** 64 and self.choose(4) != 3:
                return self.integer(i)
            mag = abs(i)
            raw = mag.to_bytes((mag.bit_length() + 7) // 8, "big")
            return self.envelope(SUB_VARINT, self.array([self.boolean(i < 0), self.binary(raw)]))
        if t == "F":
            return self.float64(v[1])
        if t == "S":
            return self.string(bytes.fromhex(v[1]).decode("utf-32-be", "surrogatepass").encode("utf-8", "surrogateescape"))
        if t == "Y":
            return self.binary(bytes.fromhex(v[1]))
        if t == "L":
            return self.array([self.pv(x) for x in v[1]])
        if t == "D":
            flat = v[1]
            return self.mapping([(self.pv(flat[i]), self.pv(flat[i + 1])) for i in range(0, len(flat), 2)])
        if t == "TU":
            return self.envelope(SUB_DT, self.array([self.integer(x) for x in v[1]]))
        if t == "TI":
            return self.envelope(SUB_DT, self.array([self.string(
                bytes.fromhex(v[1]).decode("utf-32-be").encode("utf-8"))]))
        if t == "R":
            return self.envelope(SUB_RECORD, self.record_tuple(v))
        raise ValueError(t)

    def ident(self, name, fields, style="versioned"):
        if style == "name-only":
            return self.string(name.encode())
        if style == "name-bytes":
            return self.binary(name.encode())
        return self.array([self.string(name.encode()), self.integer(ident_hash(name, fields))])

    def record_tuple(self, v, style="versioned"):
        name, fields = v[1]
        return self.array([self.ident(name, fields, style), self.array([self.pv(x) for x in v[2]])])

    def descriptor(self, name, fields):
        return self.envelope(SUB_DESC, self.array([
            self.string(name.encode()),
            self.array([self.array([self.string(t.encode()), self.string(n.encode())]) for t, n in fields])]))


def ident_hash(name, fields):
    data = name + "".join(n + t for t, n in fields)
    return int.from_bytes(hashlib.sha256(data.encode()).digest()[:4], "big")


def frame(body):
    return struct.pack(">I", len(body)) + body


def header(enc=None):
    """the header frame is fixed by the format: length 15, bin8, 13, magic"""
    return frame(b"\xc4\x0d" + MAGIC)
