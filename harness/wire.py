"""Python side of the wire-layer correspondence: Python values <-> the PV / RV / MVal JSON shapes that
lean/FlowRecord/Drive/Wire.lean speaks, an independent reference for descriptor identifiers, frame splitting."""
import datetime as _dtm
import hashlib
import struct

from .values import enc_str

UTC = _dtm.timezone.utc


def desc_json(desc):
    return [enc_str(desc.name), [[enc_str(t), enc_str(n)] for t, n in desc.get_field_tuples()], desc.descriptor_hash]


def ref_hash(name, fields):
    """Independent statement of the published identifier: first 4 bytes (big endian) of SHA-256 over
    name + concat(fieldname + fieldtype), UTF-8."""
    data = name + "".join(n + t for t, n in fields)
    return int.from_bytes(hashlib.sha256(data.encode()).digest()[:4], "big")


def to_pv(v):
    """Packed-level Python value (what Record._pack() holds / what is handed to packb) -> PV JSON."""
    from flow.record import GroupedRecord, Record, RecordDescriptor

    if v is None:
        return ["N"]
    if isinstance(v, bool):
        return ["B", v]
    if isinstance(v, GroupedRecord):
        return ["G", enc_str(v.name), [record_pv(r) for r in v.records]]
    if isinstance(v, Record):
        return record_pv(v)
    if isinstance(v, RecordDescriptor):
        return ["DESC", desc_json(v)]
    if isinstance(v, _dtm.datetime):
        if v.tzinfo is None or v.tzinfo == UTC:
            return ["TU", list(v.timetuple()[:6]) + [v.microsecond]]
        return ["TI", enc_str(v.isoformat())]
    if isinstance(v, int):
        return ["I", str(int(v))]
    if isinstance(v, float):
        return ["F", struct.pack(">d", v).hex()]
    if isinstance(v, str):
        return ["S", enc_str(v)]
    if isinstance(v, (bytes, bytearray)):
        return ["Y", bytes(v).hex()]
    if isinstance(v, (list, tuple)):
        return ["L", [to_pv(x) for x in v]]
    if isinstance(v, dict):
        flat = []
        for k, x in v.items():
            flat += [to_pv(k), to_pv(x)]
        return ["D", flat]
    raise TypeError(f"to_pv: {type(v).__name__}")


def record_pv(rec):
    ident, values = rec._pack()
    return ["R", desc_json(rec._desc), [to_pv(x) for x in values]]


def to_rv(v):
    """A value as it comes out of the real reader, re-packed, in the RV JSON shape of the model's reader."""
    from flow.record import GroupedRecord, Record

    if v is None:
        return ["N"]
    if isinstance(v, bool):
        return ["B", v]
    if isinstance(v, GroupedRecord):
        return ["G", enc_str(v.name), [record_rv(r) for r in v.records]]
    if isinstance(v, Record):
        return record_rv(v)
    if isinstance(v, _dtm.datetime):
        return dt_canon(v)
    if isinstance(v, int):
        return ["I", str(int(v))]
    if isinstance(v, float):
        return ["F", struct.pack(">d", v).hex()]
    if isinstance(v, str):
        return ["S", enc_str(v)]
    if isinstance(v, (bytes, bytearray)):
        return ["Y", bytes(v).hex()]
    if isinstance(v, (list, tuple)):
        return ["T", [to_rv(x) for x in v]]
    if isinstance(v, dict):
        flat = []
        for k, x in v.items():
            flat += [to_rv(k), to_rv(x)]
        return ["D", flat]
    raise TypeError(f"to_rv: {type(v).__name__}")


def dt_canon(v):
    """datetimes are compared as wall fields + UTC offset in microseconds (which branch of the encoding produced
    them is visible in the byte comparison, not here)"""
    off = v.utcoffset()
    offus = None if off is None else (off.days * 86400 + off.seconds) * 1000000 + off.microseconds
    return ["DTC", [v.year, v.month, v.day, v.hour, v.minute, v.second, v.microsecond], offus]


def canon_model_rv(x):
    """Normalise the model reader's output: ["DT", args] -> the same canonical form as dt_canon."""
    from .values import dec_str
    if not isinstance(x, list) or not x:
        return x
    if x[0] == "DT":
        args = x[1]
        try:
            if len(args) == 1 and args[0][0] == "S":
                return dt_canon(_dtm.datetime.fromisoformat(dec_str(args[0][1])))
            if len(args) >= 6 and all(a[0] == "I" for a in args):
                return dt_canon(_dtm.datetime(*[int(a[1]) for a in args], tzinfo=UTC))
        except Exception:
            pass
        return x
    return [canon_model_rv(e) for e in x]


def record_rv(rec):
    ident, values = rec._pack()
    return ["R", desc_json(rec._desc), [to_rv(x) for x in values]]


def all_descs(obj, out=None):
    """Every descriptor reachable from a record (own, grouped members, nested), as desc_json, de-duplicated."""
    from flow.record import GroupedRecord, Record

    out = out if out is not None else []
    if isinstance(obj, GroupedRecord):
        for r in obj.records:
            all_descs(r, out)
    elif isinstance(obj, Record):
        dj = desc_json(obj._desc)
        if dj not in out:
            out.append(dj)
        for k in obj.__slots__:
            all_descs(getattr(obj, k), out)
    elif isinstance(obj, (list, tuple)):
        for x in obj:
            all_descs(x, out)
    return out


def split_frames(stream):
    """Independent frame splitter: [(offset, body)] and whether the stream ends exactly on a frame boundary."""
    out = []
    pos = 0
    while pos + 4 <= len(stream):
        size = struct.unpack(">I", stream[pos:pos + 4])[0]
        body = stream[pos + 4:pos + 4 + size]
        if len(body) < size:
            return out, False
        out.append((pos, body))
        pos += 4 + size
    return out, pos == len(stream)


def py_to_mv(v):
    """Python value -> MVal JSON (for the msgpack-level correspondence against msgpack-python itself)."""
    import msgpack

    if v is None:
        return ["nil"]
    if isinstance(v, bool):
        return ["b", v]
    if isinstance(v, int):
        return ["i", str(v)]
    if isinstance(v, float):
        return ["f64", struct.pack(">d", v).hex()]
    if isinstance(v, str):
        return ["s", v.encode("utf-8", "surrogateescape").hex()]
    if isinstance(v, (bytes, bytearray)):
        return ["y", bytes(v).hex()]
    if isinstance(v, msgpack.ExtType):
        return ["x", v.code % 256, bytes(v.data).hex()]
    if isinstance(v, (list, tuple)):
        return ["a", [py_to_mv(x) for x in v]]
    if isinstance(v, dict):
        flat = []
        for k, x in v.items():
            flat += [py_to_mv(k), py_to_mv(x)]
        return ["m", flat]
    raise TypeError(type(v).__name__)
