"""SplitMix64: every random choice of a run derives from one 64-bit state (VERIF_SEED)."""
M64 = (1 << 64) - 1


class Rng:
    def __init__(self, seed):
        self.s = (int(seed) * 0x9E3779B97F4A7C15 + 0x1234567) & M64

    def next(self):
        self.s = (self.s + 0x9E3779B97F4A7C15) & M64
        z = self.s
        z = ((z ^ (z >> 30)) * 0xBF58476D1CE4E5B9) & M64
        z = ((z ^ (z >> 27)) * 0x94D049BB133111EB) & M64
        return z ^ (z >> 31)

    def fork(self, tag):
        """Independent child stream (so adding draws in one generator does not shift another)."""
        h = 0
        for ch in str(tag).encode():
            h = (h * 131 + ch) & M64
        return Rng(self.next() ^ h)

    def below(self, n):
        assert n > 0
        return self.next() % n

    def randint(self, a, b):
        return a + self.below(b - a + 1)

    def chance(self, num, den=100):
        return self.below(den) < num

    def choice(self, seq):
        return seq[self.below(len(seq))]

    def weighted(self, pairs):
        tot = sum(w for w, _ in pairs)
        x = self.below(tot)
        for w, v in pairs:
            if x < w:
                return v
            x -= w
        return pairs[-1][1]

    def bytes(self, n):
        out = bytearray()
        while len(out) < n:
            out += self.next().to_bytes(8, "little")
        return bytes(out[:n])

    def shuffle(self, lst):
        for i in range(len(lst) - 1, 0, -1):
            j = self.below(i + 1)
            lst[i], lst[j] = lst[j], lst[i]
        return lst

    def sample(self, seq, k):
        lst = list(seq)
        self.shuffle(lst)
        return lst[:k]
