import Lean.Data.Json
import FlowRecord.Model.Detect
/-!
Line protocol of the model driver: one JSON object per input line (`{"op": ..., ...}`), one JSON object per
output line. Byte strings travel as lowercase hex, big integers as decimal strings.
-/
open Lean

namespace FlowRecord.Driver

def hexVal (c : Char) : Option Nat :=
  if '0' ≤ c ∧ c ≤ '9' then some (c.toNat - '0'.toNat)
  else if 'a' ≤ c ∧ c ≤ 'f' then some (c.toNat - 'a'.toNat + 10)
  else if 'A' ≤ c ∧ c ≤ 'F' then some (c.toNat - 'A'.toNat + 10)
  else none

def unhexList : List Char → Option (List UInt8)
  | [] => some []
  | [_] => none
  | a :: b :: rest => do
    let x ← hexVal a
    let y ← hexVal b
    let r ← unhexList rest
    pure (UInt8.ofNat (x * 16 + y) :: r)

def unhex (s : String) : Option (List UInt8) := unhexList s.toList

def hexDigit (n : Nat) : Char := if n < 10 then Char.ofNat (48 + n) else Char.ofNat (87 + n)

def hex (bs : List UInt8) : String :=
  String.ofList (bs.foldr (fun b acc => hexDigit (b.toNat / 16) :: hexDigit (b.toNat % 16) :: acc) [])

def err (msg : String) : Json := Json.mkObj [("error", Json.str msg)]

def getStr (j : Json) (k : String) : Except String String := j.getObjValAs? String k
def getHex (j : Json) (k : String) : Except String (List UInt8) := do
  let s ← getStr j k
  match unhex s with
  | some b => pure b
  | none => throw s!"bad hex in {k}"

def handleDetect (op : String) (j : Json) : Option (Except String Json) :=
  match op with
  | "sniff" => some do
      let bs ← getHex j "hex"
      let codec := Detect.sniffCodec (fun _ => true) bs
      let container := Detect.sniffContainer (fun _ => true) bs
      pure (Json.mkObj [("codec", Json.str codec), ("container", Json.str container)])
  | "pathcodec" => some do
      let p ← getStr j "path"
      pure (Json.mkObj [("codec", Json.str (Detect.pathCodec p.toList))])
  | _ => none

def handlers : List (String → Json → Option (Except String Json)) := [handleDetect]

def handle (j : Json) : Json :=
  match j.getObjValAs? String "op" with
  | .ok "ping" => Json.mkObj [("ok", Json.bool true)]
  | .ok op =>
    match handlers.findSome? (fun h => h op j) with
    | some (Except.ok r) => r
    | some (Except.error e) => err e
    | none => err "bad-op"
  | .error _ => err "bad-op"

partial def loop (h : IO.FS.Stream) (out : IO.FS.Stream) : IO Unit := do
  let line ← h.getLine
  if line.isEmpty then return ()
  let res := match Json.parse line with
    | .ok j => handle j
    | .error e => err ("parse: " ++ e)
  out.putStrLn res.compress
  loop h out

end FlowRecord.Driver
