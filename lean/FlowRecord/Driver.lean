import FlowRecord.Drive.Util
import FlowRecord.Drive.C13
import FlowRecord.Drive.C14
import FlowRecord.Drive.C11
import FlowRecord.Drive.Selector
import FlowRecord.Drive.C06
import FlowRecord.Drive.C15
import FlowRecord.Drive.C12
import FlowRecord.Drive.C05
import FlowRecord.Drive.Wire
import FlowRecord.Drive.C10
import FlowRecord.Drive.C16
import FlowRecord.Drive.C20
import FlowRecord.Drive.C18
import FlowRecord.Drive.C19
import FlowRecord.Drive.C17
import FlowRecord.Drive.FieldPack
/-!
Line protocol of the model driver: one JSON object per input line (`{"op": ..., ...}`), one JSON object per
output line. Handlers live in `FlowRecord/Drive/*.lean`; register each one in `handlers` below.
-/
open Lean

namespace FlowRecord.Driver
open FlowRecord.Drive

def handlers : List Handler := [
  handleC17,
  handleC13,
  handleC14,
  handleC18,
  handleC11,
  handleSelector,
  handleC06,
  handleC15,
  handleC12,
  handleC05,
  handleWire,
  handleC10,
  handleC16,
  handleC20,
  handleC19,
  handleFieldPack
]

def handle (j : Json) : Json :=
  match j.getObjValAs? String "op" with
  | .ok "ping" => Json.mkObj [("ok", Json.bool true)]
  | .ok op =>
    match handlers.findSome? (fun h => h op j) with
    | some (Except.ok r) => r
    | some (Except.error e) => err e
    | none => err "bad-op"
  | .error _ => err "bad-op"

partial def loop (h : IO.FS.Stream) (out : IO.FS.Stream) : IO Unit := do
  let line ← h.getLine
  if line.isEmpty then return ()
  let res := match Json.parse line with
    | .ok j => handle j
    | .error e => err ("parse: " ++ e)
  out.putStrLn res.compress
  loop h out

end FlowRecord.Driver
