import FlowRecord.Drive.Util
import FlowRecord.Model.Selector.Interp
import FlowRecord.Model.Selector.Ref
import FlowRecord.Model.Selector.Concrete
/-!
Driver handler for the selector model (C07, C08, C09).

  {"op":"sel_eval","engine":"interpreted"|"compiled"|"reference","expr":<expr>,"record":<value>,"fuel":n}
    -> {"value":<value>} | {"error":<exception class>}  (+ "calls","getattrs","fallbacks","ns_restored" for the
       interpreted engine: the effect trace of the instrumented model)

Values:  ["none"] ["bool",b] ["int","<dec>"] ["float","<16 hex>"] ["str",s] ["bytes","<hex>"] ["list",[..]]
         ["tuple",[..]] ["strset",[..]] ["missing"] ["rec",name,[[field,type,value]..]] ["builtin",n] ["ftype",p]
         ["typeroot"] ["tmatch",[parts],[attrs]] ["foreign",k] ["fval",type,value] ["gen"]
Exprs:   ["const",v] ["list",[..]] ["tuple",[..]] ["name",id] ["attr",e,a] ["boolop",op,[..]] ["binop",op,l,r]
         ["unary",op,e] ["compare",l,[[op,e]..]] ["call",f,[args],[[k,e]..]] ["genexp",elt,[[target|null,iter,[ifs]]..]]
         ["other",kind]
-/
open Lean
namespace FlowRecord.Drive
open FlowRecord.Selector

namespace Sel

def hexNat (s : String) : Except String Nat :=
  s.toList.foldlM (fun acc c => match hexVal c with
    | some d => pure (acc * 16 + d)
    | none => throw s!"bad hex {s}") 0

def natHex16 (n : Nat) : String :=
  let rec go (k : Nat) (n : Nat) (acc : List Char) : List Char :=
    match k with
    | 0 => acc
    | k + 1 => go k (n / 16) (hexDigit (n % 16) :: acc)
  String.ofList (go 16 n [])

def jArr (j : Json) : Except String (Array Json) :=
  match j with
  | .arr a => pure a
  | _ => throw "array expected"

def jStr (j : Json) : Except String String :=
  match j with
  | .str s => pure s
  | _ => throw "string expected"

def jStrList (j : Json) : Except String (List String) := do
  (← jArr j).toList.mapM jStr

partial def parseVal (j : Json) : Except String PVal := do
  let a ← jArr j
  let tag ← jStr (a.getD 0 Json.null)
  let arg (i : Nat) : Json := a.getD i Json.null
  match tag with
  | "none" => pure .none
  | "bool" => (match arg 1 with | .bool b => pure (.bool b) | _ => throw "bool")
  | "int" => do pure (.int (← intOfString (← jStr (arg 1))))
  | "float" => do pure (.float (← hexNat (← jStr (arg 1))))
  | "str" => do pure (.str (← jStr (arg 1)))
  | "bytes" => do
    match unhex (← jStr (arg 1)) with
    | some b => pure (.bytes (b.map (·.toNat)))
    | none => throw "bad hex"
  | "list" => do pure (.list (← (← jArr (arg 1)).toList.mapM parseVal))
  | "tuple" => do pure (.tuple (← (← jArr (arg 1)).toList.mapM parseVal))
  | "strset" => do pure (.strset (← jStrList (arg 1)))
  | "missing" => pure .missing
  | "rec" => do
    let fs ← (← jArr (arg 2)).toList.mapM (fun f => do
      let fa ← jArr f
      pure ((← jStr (fa.getD 0 Json.null)), (← jStr (fa.getD 1 Json.null)), (← parseVal (fa.getD 2 Json.null))))
    pure (.recv (← jStr (arg 1)) fs)
  | "builtin" => do pure (.builtin (← jStr (arg 1)))
  | "ftype" => do pure (.ftype (← jStr (arg 1)))
  | "typeroot" => pure .typeRoot
  | "tmatch" => do pure (.tmatch (← jStrList (arg 1)) (← jStrList (arg 2)))
  | "foreign" => (match (arg 1).getNat? with | .ok n => pure (.foreign n) | .error _ => throw "foreign")
  | "fval" => do pure (.fval (← jStr (arg 1)) (← parseVal (arg 2)))
  | "gen" => pure .gen
  | t => throw s!"unknown value tag {t}"

partial def valJson : PVal → Json
  | .none => Json.arr #["none"]
  | .bool b => Json.arr #["bool", Json.bool b]
  | .int i => Json.arr #["int", Json.str (toString i)]
  | .float b => Json.arr #["float", Json.str (natHex16 b)]
  | .str s => Json.arr #["str", Json.str s]
  | .bytes b => Json.arr #["bytes", Json.str (hex (b.map UInt8.ofNat))]
  | .list xs => Json.arr #["list", Json.arr (xs.map valJson).toArray]
  | .tuple xs => Json.arr #["tuple", Json.arr (xs.map valJson).toArray]
  | .strset xs => Json.arr #["strset", Json.arr (xs.map Json.str).toArray]
  | .missing => Json.arr #["missing"]
  | .recv n fs => Json.arr #["rec", Json.str n,
      Json.arr (fs.map (fun f => Json.arr #[Json.str f.1, Json.str f.2.1, valJson f.2.2])).toArray]
  | .builtin n => Json.arr #["builtin", Json.str n]
  | .ftype p => Json.arr #["ftype", Json.str p]
  | .typeRoot => Json.arr #["typeroot"]
  | .tmatch p a => Json.arr #["tmatch", Json.arr (p.map Json.str).toArray, Json.arr (a.map Json.str).toArray]
  | .foreign k => Json.arr #["foreign", Json.num k]
  | .fval t v => Json.arr #["fval", Json.str t, valJson v]
  | .gen => Json.arr #["gen"]

def parseConst (j : Json) : Except String Const := do
  let a ← jArr j
  let tag ← jStr (a.getD 0 Json.null)
  let arg (i : Nat) : Json := a.getD i Json.null
  match tag with
  | "none" => pure .none
  | "bool" => (match arg 1 with | .bool b => pure (.bool b) | _ => throw "bool")
  | "int" => do pure (.int (← intOfString (← jStr (arg 1))))
  | "float" => do pure (.float (← hexNat (← jStr (arg 1))))
  | "str" => do pure (.str (← jStr (arg 1)))
  | "bytes" => do
    match unhex (← jStr (arg 1)) with
    | some b => pure (.bytes (b.map (·.toNat)))
    | none => throw "bad hex"
  | "ellipsis" => pure .ellipsis
  | t => throw s!"unknown constant tag {t}"

partial def parseExpr (j : Json) : Except String Expr := do
  let a ← jArr j
  let tag ← jStr (a.getD 0 Json.null)
  let arg (i : Nat) : Json := a.getD i Json.null
  let exprs (j : Json) : Except String (List Expr) := do (← jArr j).toList.mapM parseExpr
  match tag with
  | "const" => do pure (.const (← parseConst (arg 1)))
  | "list" => do pure (.list (← exprs (arg 1)))
  | "tuple" => do pure (.tuple (← exprs (arg 1)))
  | "name" => do pure (.name (← jStr (arg 1)))
  | "attr" => do pure (.attr (← parseExpr (arg 1)) (← jStr (arg 2)))
  | "boolop" => do pure (.boolop (← jStr (arg 1)) (← exprs (arg 2)))
  | "binop" => do pure (.binop (← jStr (arg 1)) (← parseExpr (arg 2)) (← parseExpr (arg 3)))
  | "unary" => do pure (.unary (← jStr (arg 1)) (← parseExpr (arg 2)))
  | "compare" => do
    let rest ← (← jArr (arg 2)).toList.mapM (fun p => do
      let pa ← jArr p
      pure ((← jStr (pa.getD 0 Json.null)), (← parseExpr (pa.getD 1 Json.null))))
    pure (.compare (← parseExpr (arg 1)) rest)
  | "call" => do
    let kws ← (← jArr (arg 3)).toList.mapM (fun p => do
      let pa ← jArr p
      pure ((← jStr (pa.getD 0 Json.null)), (← parseExpr (pa.getD 1 Json.null))))
    pure (.call (← parseExpr (arg 1)) (← exprs (arg 2)) kws)
  | "genexp" => do
    let gens ← (← jArr (arg 2)).toList.mapM (fun g => do
      let ga ← jArr g
      let tgt : Option String := match ga.getD 0 Json.null with | .str s => some s | _ => none
      pure (tgt, (← parseExpr (ga.getD 1 Json.null)), (← exprs (ga.getD 2 Json.null))))
    pure (.genexp (← parseExpr (arg 1)) gens)
  | "other" => do pure (.other (← jStr (arg 1)))
  | t => throw s!"unknown expr tag {t}"

def resultJson (r : Except Err PVal) : List (String × Json) :=
  match r with
  | .ok v => [("value", valJson v)]
  | .error e => [("error", Json.str e.name)]

end Sel
open Sel

def handleSelector : Handler := fun op j =>
  match op with
  | "sel_eval" => some do
    let engine ← getStr j "engine"
    let e ← parseExpr (← getObj j "expr")
    let rec_ ← parseVal (← getObj j "record")
    let fuel := (getNat j "fuel").toOption.getD 64
    let P := concretePrim rec_
    match engine with
    | "interpreted" =>
      let (st, r) := interpMatch P fuel rec_ e
      let calls := st.trace.filterMap (fun ev => match ev with | .call c => some (valJson c) | _ => none)
      let gets := st.trace.filterMap (fun ev => match ev with | .getattr _ n => some (Json.str n) | _ => none)
      let mods := st.trace.filterMap (fun ev => match ev with | .modattr _ n => some (Json.str n) | _ => none)
      let fbs := st.trace.filterMap (fun ev => match ev with | .fallback n => some (Json.str n) | _ => none)
      pure (Json.mkObj (resultJson r ++ [("calls", Json.arr calls.toArray), ("getattrs", Json.arr gets.toArray),
        ("modattrs", Json.arr mods.toArray), ("fallbacks", Json.arr fbs.toArray),
        ("ns_restored", Json.bool st.ns.isEmpty)]))
    | "compiled" => pure (Json.mkObj (resultJson (compiledMatch P fuel rec_ e)))
    | "reference" => pure (Json.mkObj (resultJson (refMatch P fuel rec_ e)))
    | _ => throw "bad engine"
  | "sel_eval_many" => some do
    -- one expression on several records, by each engine model: {"interpreted":[..],"compiled":[..],"reference":[..]}
    let e ← parseExpr (← getObj j "expr")
    let recs ← (← getArr j "records").toList.mapM parseVal
    let fuel := (getNat j "fuel").toOption.getD 64
    let run (eng : String) : Json := Json.arr (recs.map (fun r =>
      let P := concretePrim r
      let res := match eng with
        | "compiled" => compiledMatch P fuel r e
        | "reference" => refMatch P fuel r e
        | _ => (interpMatch P fuel r e).2
      Json.mkObj (resultJson res))).toArray
    pure (Json.mkObj [("interpreted", run "interpreted"), ("compiled", run "compiled"), ("reference", run "reference")])
  | "sel_filter" => some do
    -- the reader loop: `if not selector or selector.match(obj): yield obj`; an exception ends the source
    let engine ← getStr j "engine"
    let e ← parseExpr (← getObj j "expr")
    let recs ← (← getArr j "records").toList.mapM parseVal
    let ends ← (← getArr j "source_ends").toList.mapM (fun x => match x.getNat? with
      | .ok n => pure n | .error _ => throw "source_ends")
    let fuel := (getNat j "fuel").toOption.getD 64
    let matchOne (r : PVal) : Except Err Bool :=
      let P := concretePrim r
      let res := match engine with
        | "compiled" => compiledMatch P fuel r e
        | "reference" => refMatch P fuel r e
        | _ => (interpMatch P fuel r e).2
      res.map P.truthy
    let rec go (i : Nat) (rs : List PVal) (skipUntil : Nat) (kept errs : List Nat) : List Nat × List Nat :=
      match rs with
      | [] => (kept.reverse, errs.reverse)
      | r :: rest =>
        if i < skipUntil then go (i + 1) rest skipUntil kept errs
        else
          match matchOne r with
          | .ok true => go (i + 1) rest skipUntil (i :: kept) errs
          | .ok false => go (i + 1) rest skipUntil kept errs
          | .error _ => go (i + 1) rest ((ends.find? (fun b => i < b)).getD (i + 1)) kept (i :: errs)
    let (kept, errs) := go 0 recs 0 [] []
    pure (Json.mkObj [("kept", Json.arr (kept.map (fun (n : Nat) => toJson n)).toArray),
                      ("errors", Json.arr (errs.map (fun (n : Nat) => toJson n)).toArray)])
  | _ => none

end FlowRecord.Drive
