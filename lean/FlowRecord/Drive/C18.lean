import FlowRecord.Drive.Util
import FlowRecord.Model.Sqlite
/-!
Driver for C18: `{"op":"sqlite","batches":[n…],"hist":[{"k":"w","name":…,"fields":[[fname,ftype]…],"vals":[VAL…]} | {"k":"f"} | {"k":"c"} | {"k":"r"}]}`
(`r` = the writer is closed and a new `SqliteWriter` is opened on the same file: `reopen`)
VAL = ["none"] | ["bool",0|1] | ["int",dec] | ["float",hex16] | ["bytes",hex] | ["str",utf32hex] | ["dt",utf32hex of the ISO text]
      | ["other",utf32hex of str(value)]
Answer: per call the outcome and the committed tables (what a second connection sees), whether the history is still
inside the modelled domain, and what SqliteReader returns at the end.
-/
open Lean
namespace FlowRecord.Drive
open FlowRecord.Sqlite

def nameOfString (s : String) : Text := s.toList.map Char.toNat
def stringOfName (n : Text) : String := String.ofList (n.map Char.ofNat)

def bitsOfBytes (bs : List UInt8) : Nat := bs.foldl (fun acc b => acc * 256 + b.toNat) 0
def bytesOfBits (n : Nat) : List UInt8 := (List.range 8).reverse.map (fun i => UInt8.ofNat (n / 256 ^ i % 256))

def parsePyVal (j : Json) : Except String (PyVal Text) := do
  let a ← j.getArr?
  let k ← (a[0]?.getD Json.null).getStr?
  let arg := a[1]?.getD Json.null
  let hexArg : Except String (List UInt8) := do
    let s ← arg.getStr?
    match unhex s with
    | some b => pure b
    | none => throw "bad hex"
  let textArg : Except String Text := do
    let b ← hexArg
    match codePointsOfBytes b with
    | some t => pure t
    | none => throw "bad utf-32"
  match k with
  | "none" => pure .none
  | "bool" => do let n ← arg.getNat?; pure (.bool (n != 0))
  | "int" => do let s ← arg.getStr?; let i ← intOfString s; pure (.int i)
  | "float" => do let b ← hexArg; pure (.float (bitsOfBytes b))
  | "bytes" => do let b ← hexArg; pure (.bytes b)
  | "str" => do let t ← textArg; pure (.str t)
  | "dt" => do let t ← textArg; pure (.datetime t)
  | "other" => do let t ← textArg; pure (.other t)
  | _ => throw s!"bad value kind {k}"

def parseSqlOp (j : Json) : Except String (Option (Op Text)) := do
  let k ← getStr j "k"
  match k with
  | "f" => pure (some .flush)
  | "c" => pure (some .close)
  | "r" => pure none
  | "w" => do
    let name ← getStr j "name"
    let fs ← getArr j "fields"
    let fields ← fs.toList.mapM (fun f => do
      let a ← f.getArr?
      let n ← (a[0]?.getD Json.null).getStr?
      let t ← (a[1]?.getD Json.null).getStr?
      pure (nameOfString n, t))
    let vs ← getArr j "vals"
    let vals ← vs.toList.mapM parsePyVal
    pure (some (.write { name := nameOfString name, fields := fields } vals))
  | _ => throw s!"bad op kind {k}"

def dbValJson : DbVal → Json
  | .null => Json.arr #[Json.str "n"]
  | .integer i => Json.arr #[Json.str "i", intJson i]
  | .real b => Json.arr #[Json.str "r", hexJson (bytesOfBits b)]
  | .text s => Json.arr #[Json.str "t", textJson s]
  | .blob b => Json.arr #[Json.str "b", hexJson b]

def pyValJson : PyVal Text → Json
  | .none => Json.arr #[Json.str "none"]
  | .bool b => Json.arr #[Json.str "bool", Json.num (if b then 1 else 0)]
  | .int i => Json.arr #[Json.str "int", intJson i]
  | .float b => Json.arr #[Json.str "float", hexJson (bytesOfBits b)]
  | .bytes b => Json.arr #[Json.str "bytes", hexJson b]
  | .str s => Json.arr #[Json.str "str", textJson s]
  | .datetime s => Json.arr #[Json.str "dt", textJson s]
  | .other s => Json.arr #[Json.str "other", textJson s]

def tableJson (t : Table) : Json :=
  Json.arr #[Json.str (stringOfName t.name),
    Json.arr (t.cols.map (fun c => Json.arr #[Json.str (stringOfName c.1), Json.str c.2])).toArray,
    Json.arr ((renderRows t).map (fun r => Json.arr (r.map dbValJson).toArray)).toArray]

def outcomeJson : Outcome → Json
  | .ok => Json.str "ok"
  | .refused .overflow => Json.str "OverflowError"
  | .refused .unicode => Json.str "UnicodeEncodeError"
  | .refused .closed => Json.str "AttributeError"
  | .refused .ddl => Json.str "OperationalError"
  | .refused .arity => Json.str "arity"

def sqlEnv : Env Text := { iso := id, store := affinityStore }

/-- is this call inside the modelled domain, given the state before it? -/
def callModelled (s : St) : Op Text → Bool
  | .write d vals =>
    if !s.isOpen then true
    else
      let s1 := (step sqlEnv s (.ensure d)).1
      (s.seen.contains d || ddlOk s.work d) &&
      (match cellsOf sqlEnv d vals with
       | none => true
       | some cells =>
         match s1.work.find? (fun t => sameIdent t.name d.name) with
         | none => false
         | some t => cells.all (fun c => storeModelled (declType t c.1) c.2))
  | _ => true

def readTableJson (t : Table) : Json :=
  let fields := t.cols.filter (fun c => !isReserved c.1)
  let cells := (renderRows t).map (fun row =>
    (t.cols.zip row).map (fun (c, v) =>
      match readCell (DT := Text) some (readerType c.2) v with
      | some pv => pyValJson pv
      | none => Json.arr #[Json.str "unmodelled"]))
  Json.arr #[Json.str (stringOfName t.name),
    Json.arr (fields.map (fun c => Json.arr #[Json.str (readerType c.2), Json.str (stringOfName c.1)])).toArray,
    Json.arr (t.cols.map (fun c => Json.str (stringOfName c.1))).toArray,
    Json.arr (cells.map (fun r => Json.arr r.toArray)).toArray]

def sqlLoop : St → Bool → List (Option (Op Text)) → List Json → St × List Json
  | s, _, [], acc => (s, acc.reverse)
  | s, ok, none :: ops, acc =>
    -- a new writer session: `close` of the old writer, then `SqliteWriter(path)` again
    let s' := reopen (apply sqlEnv s .close).1
    let j := Json.mkObj [("outcome", outcomeJson .ok), ("modelled", Json.bool ok),
      ("tables", Json.arr (s'.committed.map tableJson).toArray),
      ("count", Json.num s'.count)]
    sqlLoop s' ok ops (j :: acc)
  | s, ok, some op :: ops, acc =>
    let ok' := ok && callModelled s op
    let r := apply sqlEnv s op
    let j := Json.mkObj [("outcome", outcomeJson r.2), ("modelled", Json.bool ok'),
      ("tables", Json.arr (r.1.committed.map tableJson).toArray),
      ("count", Json.num r.1.count)]
    sqlLoop r.1 ok' ops (j :: acc)

def handleC18 : Handler := fun op j =>
  match op with
  | "sqlite" => some do
      let bs ← getArr j "batches"
      let batches ← bs.toList.mapM (fun b => b.getNat?)
      let hs ← getArr j "hist"
      let ops ← hs.toList.mapM parseSqlOp
      let runs := batches.map (fun batch =>
        let (s, steps) := sqlLoop (init batch) true ops []
        Json.mkObj [("batch", Json.num batch), ("steps", Json.arr steps.toArray),
          ("read", Json.arr (s.committed.map readTableJson).toArray)])
      pure (Json.mkObj [("runs", Json.arr runs.toArray)])
  | "sqlquote" => some do
      let n ← getText j "name"
      let rest ← getText j "rest"
      let q := quoteIdent n
      pure (Json.mkObj [("quoted", textJson q),
        ("lexed", match lexQuotedIdent (q ++ rest) with
          | some (a, b) => Json.arr #[textJson a, textJson b]
          | none => Json.null),
        ("namechars", Json.bool (n.all nameChar))])
  | _ => none

end FlowRecord.Drive
