import FlowRecord.Drive.Util
import FlowRecord.Model.Writers
/-!
Driver for C17.
* `{"op":"c17.life","adapter":a,"hist":"wwfcx"}`  (w = write of the next record index, f = flush, c = close, x = with-exit,
  e / E = a write the adapter refuses, without / with the commit a new record type causes first)
* `{"op":"c17.split","adapter":a,"limit":n,"hist":"www…c","base":name,"suffixLen":k}`
* `{"op":"c17.rotname","name":n,"stamp":s,"seq":k}`
* `{"op":"c17.tmpl","fs":[[name,[r…]]…],"writes":[[path,stamp,r]…]}`
* `{"op":"c17.tmplc","fs":…,"ops":[[path,stamp,r] | []…]}` (`[]` = `close()`): files + which calls returned
* `{"op":"c17.frames","parts":[[[d,r]…]…]}`
-/
open Lean
namespace FlowRecord.Drive
open FlowRecord.Writers

def opsOfHist (h : String) : Except String (List (Op Nat)) :=
  let rec go (cs : List Char) (k : Nat) : Except String (List (Op Nat)) :=
    match cs with
    | [] => pure []
    | 'w' :: rest => do let r ← go rest (k + 1); pure (Op.write k :: r)
    | 'f' :: rest => do let r ← go rest k; pure (Op.flush :: r)
    | 'c' :: rest => do let r ← go rest k; pure (Op.close :: r)
    | 'x' :: rest => do let r ← go rest k; pure (Op.exit :: r)
    | 'X' :: rest => do let r ← go rest k; pure (Op.exit :: r)      -- a with-block left by an exception: the same `__exit__`
    | 'e' :: rest => do let r ← go rest (k + 1); pure (Op.bad false :: r)    -- a refused write (consumes a record index)
    | 'E' :: rest => do let r ← go rest (k + 1); pure (Op.bad true :: r)     -- ... of a record type that was new
    | c :: _ => throw s!"bad history character {c}"
  go h.toList 0

def storedJson : Stored Nat → Json
  | .full r => Json.num r
  | .hollow => Json.str "hollow"

def outcomeJson17 : Outcome → Json
  | .ok => Json.str "ok"
  | .raised => Json.str "raised"

def lifeJson (F : Flags) (s : Life Nat) : Json :=
  Json.mkObj [("disk", Json.arr (s.disk.map storedJson).toArray), ("buffer", Json.arr (s.buffer.map storedJson).toArray),
    ("header", Json.bool s.headerOnDisk), ("valid", Json.bool (s.valid F)), ("open", Json.bool s.isOpen)]

def splitOutcomes (F : Flags) : Split Nat → List (Op Nat) → List Outcome
  | _, [] => []
  | s, op :: ops => (splitStep F s op).2 :: splitOutcomes F (splitStep F s op).1 ops

def getFlags (j : Json) : Except String Flags := do
  let a ← getStr j "adapter"
  match flagsOf a with
  | some F => pure F
  | none => throw s!"unknown adapter {a}"

def natArr (j : Json) : Except String (List Nat) := do
  let a ← j.getArr?
  a.toList.mapM (fun x => x.getNat?)

def handleC17 : Handler := fun op j =>
  match op with
  | "c17.life" => some do
      let F ← getFlags j
      let h ← getStr j "hist"
      let ops ← opsOfHist h
      let s := run F Life.init ops
      pure (Json.mkObj [("outcomes", Json.arr ((outcomes F Life.init ops).map outcomeJson17).toArray),
        ("final", lifeJson F s)])
  | "c17.split" => some do
      let F ← getFlags j
      let h ← getStr j "hist"
      let limit ← getNat j "limit"
      let base ← getStr j "base"
      let k ← getNat j "suffixLen"
      let ops ← opsOfHist h
      let s := splitRun F (Split.init limit) ops
      pure (Json.mkObj [("outcomes", Json.arr ((splitOutcomes F (Split.init limit) ops).map outcomeJson17).toArray),
        ("open", Json.bool s.cur.isSome),
        ("parts", Json.arr (s.parts.map (fun p => Json.mkObj [("index", Json.num p.1),
            ("name", Json.str (String.ofList (partName base.toList k p.1))), ("life", lifeJson F p.2)])).toArray)])
  | "c17.partname" => some do
      let base ← getStr j "base"
      let k ← getNat j "suffixLen"
      let i ← getNat j "index"
      pure (Json.mkObj [("name", Json.str (String.ofList (partName base.toList k i)))])
  | "c17.rotname" => some do
      let n ← getStr j "name"
      let st ← getStr j "stamp"
      let k ← getNat j "seq"
      pure (Json.mkObj [("name", Json.str (String.ofList (rotCandidate n.toList st.toList k)))])
  | "c17.tmpl" => some do
      let fsj ← getArr j "fs"
      let fs ← fsj.toList.mapM (fun f => do
        let a ← f.getArr?
        let n ← (a[0]?.getD Json.null).getStr?
        let c ← natArr (a[1]?.getD Json.null)
        pure ({ name := n.toList, origin := none, content := c } : File Nat))
      let wsj ← getArr j "writes"
      let ws ← wsj.toList.mapM (fun w => do
        let a ← w.getArr?
        let p ← (a[0]?.getD Json.null).getStr?
        let st ← (a[1]?.getD Json.null).getStr?
        let r ← (a[2]?.getD Json.null).getNat?
        pure (p.toList, st.toList, r))
      match tmplRun ({ currentPath := none, fs := fs } : Tmpl Nat) ws with
      | none => pure (Json.mkObj [("error", Json.str "no-free-name")])
      | some s =>
        pure (Json.mkObj [("files", Json.arr (s.fs.map (fun f => Json.arr #[Json.str (String.ofList f.name),
          (match f.origin with | some o => Json.str (String.ofList o) | none => Json.null),
          Json.arr (f.content.map (fun (r : Nat) => Json.num r)).toArray])).toArray)])
  | "c17.tmplc" => some do
      let fsj ← getArr j "fs"
      let fs ← fsj.toList.mapM (fun f => do
        let a ← f.getArr?
        let n ← (a[0]?.getD Json.null).getStr?
        let c ← natArr (a[1]?.getD Json.null)
        pure ({ name := n.toList, origin := none, content := c } : File Nat))
      let opsj ← getArr j "ops"
      let ops ← opsj.toList.mapM (fun w => do
        let a ← w.getArr?
        if a.size == 0 then pure (TOp.close : TOp Nat) else do
          let p ← (a[0]?.getD Json.null).getStr?
          let st ← (a[1]?.getD Json.null).getStr?
          let r ← (a[2]?.getD Json.null).getNat?
          pure (TOp.write p.toList st.toList r))
      match tmplRunC ({ t := { currentPath := none, fs := fs }, closed := false } : TmplC Nat) ops with
      | none => pure (Json.mkObj [("error", Json.str "no-free-name")])
      | some (s, oks) =>
        pure (Json.mkObj [("files", Json.arr (s.t.fs.map (fun f => Json.arr #[Json.str (String.ofList f.name),
          (match f.origin with | some o => Json.str (String.ofList o) | none => Json.null),
          Json.arr (f.content.map (fun (r : Nat) => Json.num r)).toArray])).toArray),
          ("returned", Json.arr (oks.map Json.bool).toArray)])
  | "c17.frames" => some do
      let pj ← getArr j "parts"
      let parts ← pj.toList.mapM (fun p => do
        let a ← p.getArr?
        a.toList.mapM (fun x => do
          let y ← natArr x
          match y with
          | [d, r] => pure (d, r)
          | _ => throw "bad record"))
      match readStream (parts.flatMap emitPart) with
      | some out => pure (Json.mkObj [("records", Json.arr (out.map (fun (d, r) => Json.arr #[Json.num d, Json.num r])).toArray),
          ("frames", Json.num (parts.flatMap emitPart).length)])
      | none => pure (Json.mkObj [("records", Json.null)])
  | _ => none

end FlowRecord.Drive
