import FlowRecord.Drive.Util
import FlowRecord.Model.Descriptor
import FlowRecord.Model.Render
open Lean
namespace FlowRecord.Drive

/-- regex term from JSON: ["eps"] ["bol"] ["eol"] ["cls",[[lo,hi],..]] ["seq",a,b] ["opt",a] ["star",a] -/
partial def c06RxOfJson (j : Json) : Except String Rx := do
  let a ← j.getArr?
  let tag ← (a[0]?.getD Json.null).getStr?
  match tag with
  | "eps" => pure .eps
  | "bol" => pure .bol
  | "eol" => pure .eol
  | "cls" =>
    let rs ← (a[1]?.getD Json.null).getArr?
    let ranges ← rs.toList.mapM fun r => do
      let p ← r.getArr?
      let lo ← (p[0]?.getD Json.null).getNat?
      let hi ← (p[1]?.getD Json.null).getNat?
      pure (lo, hi)
    pure (.cls ranges)
  | "seq" => do pure (.seq (← c06RxOfJson (a[1]?.getD Json.null)) (← c06RxOfJson (a[2]?.getD Json.null)))
  | "opt" => do pure (.opt (← c06RxOfJson (a[1]?.getD Json.null)))
  | "star" => do pure (.star (← c06RxOfJson (a[1]?.getD Json.null)))
  | t => throw s!"bad rx tag {t}"

def c06ErrName : Descriptor.DescErr → String
  | .nameRequired => "nameRequired"
  | .invalidFieldName => "invalidFieldName"
  | .invalidFieldType => "invalidFieldType"
  | .invalidTypeName => "invalidTypeName"
  | .execFails => "execFails"

def c06ImportsOf (effs : List Descriptor.Effect) : Json :=
  Json.arr (effs.filterMap fun e => match e with
    | .importModule p => some (textJson p)
    | .getattr _ => none).toArray

def c06TextOfJson (j : Json) : Except String Str := do
  let s ← j.getStr?
  match unhex s with
  | some b => match codePointsOfBytes b with
    | some cps => pure cps
    | none => throw "bad utf-32"
  | none => throw "bad hex"

def handleC06 : Handler := fun op j =>
  match op with
  | "c06_rx" => some do
      let r ← c06RxOfJson (← getObj j "rx")
      let s ← getText j "text"
      pure (Json.mkObj [("match", Json.bool (Rx.pyMatch r s))])
  | "c06_name" => some do
      let s ← getText j "text"
      pure (Json.mkObj [
        ("field_rx", Json.bool (Rx.pyMatch Gen.RE_VALID_FIELD_NAME s)),
        ("type_rx", Json.bool (Rx.pyMatch Gen.RE_VALID_RECORD_TYPE_NAME s)),
        ("field_valid", Json.bool (Descriptor.isValidFieldName s true)),
        ("field_valid_unreserved", Json.bool (Descriptor.isValidFieldName s false)),
        ("ident", Json.bool (Descriptor.isIdent s)),
        ("identL", Json.bool (Descriptor.isIdentL s)),
        ("slash_idents", Json.bool (Descriptor.isSlashIdents s))])
  | "c06_fieldtype" => some do
      let s ← getText j "text"
      let (eff, r) := Descriptor.fieldtype s
      pure (Json.mkObj [
        ("ok", Json.bool (match r with | .ok _ => true | .error _ => false)),
        ("base", match r with | .ok ft => textJson ft.base | .error _ => Json.null),
        ("list", match r with | .ok ft => Json.bool ft.isList | .error _ => Json.null),
        ("imports", c06ImportsOf eff)])
  | "c06_construct" => some do
      let name ← getText j "name"
      let fs ← getArr j "fields"
      let fields ← fs.toList.mapM fun f => do
        let p ← f.getArr?
        let t ← c06TextOfJson (p[0]?.getD Json.null)
        let n ← c06TextOfJson (p[1]?.getD Json.null)
        pure (t, n)
      let (eff, r) := Descriptor.construct ⟨name, fields⟩
      pure (Json.mkObj [
        ("ok", Json.bool (match r with | .ok _ => true | .error _ => false)),
        ("error", match r with | .ok _ => Json.null | .error e => Json.str (c06ErrName e)),
        ("slots", match r with | .ok sl => Json.arr (sl.map textJson).toArray | .error _ => Json.null),
        ("imports", c06ImportsOf eff),
        -- the text handed to `exec` (the generation step is reached iff validation passed)
        ("source", match r with
          | .ok _ | .error .execFails => textJson (Render.render ⟨name, fields⟩)
          | .error _ => Json.null)])
  | _ => none

end FlowRecord.Drive
