import FlowRecord.Drive.Util
import FlowRecord.Model.Csv
import FlowRecord.Model.TextOut
open Lean
namespace FlowRecord.Drive
namespace C20

/-- text travels as utf-32-be hex -/
def textOf (j : Json) : Except String (List Nat) := do
  let s ← j.getStr?
  match unhex s with
  | some b =>
    match codePointsOfBytes b with
    | some cps => pure cps
    | none => throw "bad utf-32"
  | none => throw "bad hex"

def textsOf (j : Json) : Except String (List (List Nat)) := do
  let a ← j.getArr?
  a.toList.mapM textOf

def optText (j : Json) (k : String) : Except String (Option (List Nat)) :=
  match j.getObjVal? k with
  | .ok Json.null => pure none
  | .ok v => do pure (some (← textOf v))
  | .error _ => pure none

def optTexts (j : Json) (k : String) : Except String (Option (List (List Nat))) :=
  match j.getObjVal? k with
  | .ok Json.null => pure none
  | .ok v => do pure (some (← textsOf v))
  | .error _ => pure none

def pairOf (j : Json) : Except String (List Nat × List Nat) := do
  let a ← j.getArr?
  match a.toList with
  | [x, y] => do pure (← textOf x, ← textOf y)
  | _ => throw "pair expected"

def pairsOf (j : Json) : Except String (List (List Nat × List Nat)) := do
  let a ← j.getArr?
  a.toList.mapM pairOf

def recOf (j : Json) : Except String Csv.Rec := do
  let name ← textOf (← j.getObjVal? "name")
  let fields ← pairsOf (← j.getObjVal? "fields")
  let slots ← pairsOf (← j.getObjVal? "slots")
  pure ⟨name, fields, slots⟩

def recsOf (j : Json) : Except String (List Csv.Rec) := do
  let a ← getArr j "recs"
  a.toList.mapM recOf

def selOf (j : Json) : Except String Csv.Sel := do
  let fields ← optTexts j "fields"
  let exclude ← optTexts j "exclude"
  pure ⟨fields, exclude.getD []⟩

def rowsJson (rows : List Csv.Row) : Json :=
  Json.arr (rows.map fun r => Json.arr (r.map textJson).toArray).toArray

def parseJson (r : List Csv.Row × Bool) : Json :=
  Json.mkObj [("rows", rowsJson r.1), ("err", Json.bool r.2)]

end C20

open C20 in
def handleC20 : Handler := fun op j =>
  match op with
  | "csv_write" => some do
      let rowsJ ← getArr j "rows"
      let rows ← rowsJ.toList.mapM textsOf
      let lt ← getText j "lt"
      let d ← getNat j "d"
      let text := Csv.writeRows d lt rows
      pure (Json.mkObj [("text", textJson text), ("parsed", parseJson (Csv.parse d text))])
  | "csv_parse" => some do
      let t ← getText j "text"
      let d ← getNat j "d"
      pure (parseJson (Csv.parse d t))
  | "csv_chunks" => some do
      let chunks ← textsOf (← getObj j "chunks")
      let d ← getNat j "d"
      pure (parseJson (Csv.parseChunks d chunks))
  | "csv_file" => some do
      let recs ← recsOf j
      let sel ← selOf j
      let lt ← optText j "lt"
      let text := Csv.csvFile sel lt recs
      pure (Json.mkObj [("text", textJson text), ("rows", rowsJson (Csv.csvRows sel none recs)),
        ("lt", textJson (Csv.lineTerminator lt)), ("parsed", parseJson (Csv.parse Csv.COMMA text))])
  | "csv_read" => some do
      let t ← getText j "text"
      let d ← getNat j "d"
      match Csv.csvRead d t with
      | none => pure (Json.mkObj [("empty", Json.bool true)])
      | some (fields, rows) =>
        pure (Json.mkObj [("fields", Json.arr (fields.map textJson).toArray),
          ("rows", Json.arr (rows.map fun r => Json.arr (r.map fun c =>
              match c with
              | some v => textJson v
              | none => Json.null).toArray).toArray)])
  | "line_out" => some do
      let recs ← recsOf j
      let sel ← selOf j
      let verbose ← getBool j "verbose"
      pure (Json.mkObj [("text", textJson (TextOut.lineOut sel verbose 0 recs))])
  | "text_out" => some do
      let spec ← optText j "spec"
      let recsJ ← getArr j "recs"
      let mut outs : Array Json := #[]
      for rj in recsJ do
        let name ← textOf (← rj.getObjVal? "name")
        let items ← pairsOf (← rj.getObjVal? "items")
        let lookup ← pairsOf (← rj.getObjVal? "lookup")
        let lk : Csv.Name → Option Csv.Cell := fun k => Csv.lookup lookup k
        match TextOut.textRecord spec lk (TextOut.reprRecord name items) with
        | .ok t => outs := outs.push (Json.mkObj [("text", textJson t)])
        | .error .valueError => outs := outs.push (Json.mkObj [("error", Json.str "ValueError")])
        | .error .unmodelled => outs := outs.push (Json.mkObj [("unmodelled", Json.bool true)])
      pure (Json.mkObj [("outs", Json.arr outs)])
  | _ => none

end FlowRecord.Drive
