import FlowRecord.Drive.Wire
import FlowRecord.Model.FieldPack
/-! Driver handler for the field-type layer (`_pack` / `_unpack`): op `c01_field`. -/
open Lean
namespace FlowRecord.Drive
open FlowRecord FlowRecord.Wire FlowRecord.FieldPack

partial def kindOfJson (j : Json) : Except String Kind := do
  match j with
  | .str "text" => pure .text
  | .str "int" => pure .int
  | .str "bool" => pure .bool
  | .str "float" => pure .float
  | .str "bytes" => pure .bytes
  | .str "digest" => pure .digest
  | .str "path" => pure .path
  | .str "command" => pure .command
  | .str "ip" => pure .ip
  | .str "ipnet" => pure .ipnet
  | .arr #[.str "list", k] => pure (.list (← kindOfJson k))
  | _ => throw "kind: unknown"

def optText (j : Json) : Except String (Option (List Nat)) :=
  match j with
  | .null => pure none
  | .str s => (wireTextOfHex s).map some
  | _ => throw "expected text or null"

partial def tvalOfJson (j : Json) : Except String TVal := do
  let a ← wireJArr j
  if a.size == 0 then throw "tval: empty"
  match (← wireJStr a[0]!) with
  | "U" => pure .unset
  | "T" => pure (.text (← wireTextOfHex (← wireJStr a[1]!)))
  | "I" => pure (.int (← intOfString (← wireJStr a[1]!)))
  | "B" => pure (.bool (← a[1]!.getBool?))
  | "F" => pure (.float (← wireHexNat (← wireJStr a[1]!)))
  | "Y" => pure (.bytes (← wireBytesOfHex (← wireJStr a[1]!)))
  | "DG" => pure (.digest (← optText a[1]!) (← optText a[2]!) (← optText a[3]!))
  | "P" => pure (.path (← a[1]!.getNat?) (← wireTextOfHex (← wireJStr a[2]!)))
  | "C" => pure (.command (← a[1]!.getNat?) (← optText a[2]!)
      (← (← wireJArr a[3]!).toList.mapM fun x => do wireTextOfHex (← wireJStr x)))
  | "IP" => pure (.ip (← a[1]!.getNat?) (← intOfString (← wireJStr a[2]!)).toNat)
  | "NET" => pure (.ipnet (← wireTextOfHex (← wireJStr a[1]!)))
  | "L" => pure (.list (← (← wireJArr a[1]!).toList.mapM tvalOfJson))
  | t => throw s!"tval: unknown tag {t}"

def optTextJson : Option (List Nat) → Json
  | none => Json.null
  | some s => textJson s

partial def tvalToJson : TVal → Json
  | .unset => Json.arr #["U"]
  | .text s => Json.arr #["T", textJson s]
  | .int i => Json.arr #["I", intJson i]
  | .bool b => Json.arr #["B", Json.bool b]
  | .float x => Json.arr #["F", wireNatHex 8 x]
  | .bytes b => Json.arr #["Y", hexJson b]
  | .digest m s1 s2 => Json.arr #["DG", optTextJson m, optTextJson s1, optTextJson s2]
  | .path fl t => Json.arr #["P", Json.num fl, textJson t]
  | .command fl exe args => Json.arr #["C", Json.num fl, optTextJson exe, Json.arr (args.map textJson).toArray]
  | .ip ver v => Json.arr #["IP", Json.num ver, Json.str (toString v)]
  | .ipnet t => Json.arr #["NET", textJson t]
  | .list xs => Json.arr #["L", Json.arr (xs.map tvalToJson).toArray]

partial def pvToJson : PV → Json
  | .none => Json.arr #["N"]
  | .bool b => Json.arr #["B", Json.bool b]
  | .int i => Json.arr #["I", intJson i]
  | .float x => Json.arr #["F", wireNatHex 8 x]
  | .str s => Json.arr #["S", textJson s]
  | .bytes b => Json.arr #["Y", hexJson b]
  | .seq xs => Json.arr #["L", Json.arr (xs.map pvToJson).toArray]
  | .dict xs => Json.arr #["D", Json.arr (xs.map pvToJson).toArray]
  | .dtUtc fs => Json.arr #["TU", Json.arr (fs.map fun (n : Nat) => (Json.num (n : Int))).toArray]
  | .dtIso t => Json.arr #["TI", textJson t]
  | .record d vals => Json.arr #["R", descToJson d, Json.arr (vals.map pvToJson).toArray]
  | .grouped n ms => Json.arr #["G", textJson n, Json.arr (ms.map pvToJson).toArray]
  | .desc d => Json.arr #["DESC", descToJson d]

/-- `c01_field`: the model's `_pack` of a typed value, and its `_unpack` of what the packer layer hands back for it
    (`rvOf`). Path texts arrive in pathlib's normal form, so `norm` is the identity here; that the real `_unpack`
    agrees is the idempotence hypothesis, exercised by the harness. -/
def handleFieldPack : Handler := fun op j =>
  match op with
  | "c01_field" => some do
      let k ← kindOfJson (← getObj j "kind")
      let v ← tvalOfJson (← getObj j "val")
      match packT k v with
      | none => pure (Json.mkObj [("packed", Json.null)])
      | some pv =>
        let back := unpackT (fun _ t => t) k (rvOf pv)
        pure (Json.mkObj [("packed", pvToJson pv),
                          ("unpacked", match back with | some t => tvalToJson t | none => Json.null)])
  | _ => none

end FlowRecord.Drive
