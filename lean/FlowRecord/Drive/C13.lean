import FlowRecord.Drive.Util
import FlowRecord.Model.DateTime
/-!
Driver handler for C13. One op:
  {"op":"c13","input":{"form":"obj","f":[y,mo,d,h,mi,s,us],"tz":TZ} | {"form":"iso","text":<utf-32-be hex>} |
                      {"form":"epoch","secs":"<decimal>"}, "disp": <offset µs> | null}
  TZ = "naive" | "utc" | ["fixed", offUs] | ["zone", off0Us, off1Us, fold(0|1)]
Answer: what the constructor returns and what every storage format gives back for it.
-/
open Lean
namespace FlowRecord.Drive
open FlowRecord.DateTime

def c13Tz (j : Json) : Except String Tz :=
  match j with
  | .str "naive" => pure .naive
  | .str "utc" => pure .utc
  | .arr a =>
    match a.toList with
    | [.str "fixed", o] => do pure (.fixed (← o.getInt?))
    | [.str "zone", o0, o1, f] => do pure (.zone (← o0.getInt?) (← o1.getInt?) ((← f.getNat?) != 0))
    | _ => throw "bad tz"
  | _ => throw "bad tz"

def c13Fields (j : Json) : Except String (List Nat) := do
  let a ← getArr j "f"
  a.toList.mapM (fun x => x.getNat?)

def c13Input (j : Json) : Except String Input := do
  let form ← getStr j "form"
  match form with
  | "obj" =>
    match (← c13Fields j) with
    | [y, mo, d, h, mi, s, us] => do
      let tz ← c13Tz (← getObj j "tz")
      pure (.obj ⟨y, mo, d, h, mi, s, us, tz⟩)
    | _ => throw "bad fields"
  | "iso" => do pure (.iso (← getText j "text"))
  | "epoch" => do pure (.epoch (← getBigInt j "secs"))
  | "fields" =>
    match (← c13Fields j) with
    | [y, mo, d, h, mi, s, us] => pure (.fields y mo d h mi s us)
    | _ => throw "bad fields"
  | _ => throw "bad form"

def c13Kind : Tz → String
  | .naive => "naive"
  | .utc => "utc"
  | .fixed _ => "fixed"
  | .zone _ _ _ => "zone"

def c13Obs (t : DT) : Json :=
  Json.mkObj [
    ("f", Json.arr #[t.y, t.mo, t.d, t.h, t.mi, t.s, t.us]),
    ("off", match t.tz with | .naive => Json.null | tz => toJson tz.off),
    ("kind", Json.str (c13Kind t.tz))]

def c13Opt (o : Option DT) : Json :=
  match o with
  | some t => c13Obs t
  | none => Json.null

def c13Packed : Packed → Json
  | .tuple y mo d h mi s us => Json.mkObj [("tuple", Json.arr #[y, mo, d, h, mi, s, us])]
  | .text t => Json.mkObj [("text", textJson t)]

def handleC13 : Handler := fun op j =>
  match op with
  | "c13" => some do
      let inp ← c13Input (← getObj j "input")
      let disp : Option Int := match j.getObjVal? "disp" with
        | .ok (.num n) => if n.exponent == 0 then some n.mantissa else none
        | _ => none
      match construct inp with
      | none => pure (Json.mkObj [("constructed", Json.null)])
      | some t =>
        pure (Json.mkObj [
          ("constructed", c13Obs t),
          ("iso", textJson (toIso t)),
          ("packed", c13Packed (packDt t)),
          ("binary", c13Opt (viaBinary t)),
          ("json", c13Opt (viaJson t)),
          ("sqlite", c13Opt (viaSqlite t)),
          ("avro", c13Opt (viaAvro t)),
          ("micros", intJson (toMicros t)),
          ("str", match render disp t with | some x => textJson x | none => Json.null)])
  | _ => none

end FlowRecord.Drive
