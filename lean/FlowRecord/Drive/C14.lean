import FlowRecord.Drive.Util
import FlowRecord.Spec.Wire
import FlowRecord.Drive.C13
import FlowRecord.Model.Json
/-!
Driver handler for C14. One op:
  {"op":"c14","descriptors":bool,"records":[REC...],"hashes":[[namehex,[[typehex,fieldhex]...],hash]...]}
  REC = {"name":hex,"fields":[[typehex,fieldhex]...],"vals":[FV...]}     (vals: declared slots then the 4 reserved)
  FV  = null | {"t":"list","v":[SV...]} | SV
  SV  = {"t":"str"|"ip"|"net"|"path","v":hex} | {"t":"int","v":"dec"} | {"t":"float","v":"<16 hex>"} |
        {"t":"bool","v":bool} | {"t":"bytes","v":hex} | {"t":"digest","v":[hex|null,hex|null,hex|null]} |
        {"t":"dt","f":[7 nat],"tz":TZ}                                    (TZ as in op c13)
Text travels as utf-32-be hex. Answer: the lines the model writes (canonical JSON form: null / bool /
{"i":dec} / {"f":bits} / {"s":hex} / {"a":[...]} / {"o":[[keyhex,val]...]}), what the model reads back from them,
and the plain-JSON fallback of every line.
-/
open Lean
namespace FlowRecord.Drive
open FlowRecord.Json
open FlowRecord.DateTime (DT Text)

def c14Laws : LibLaws where
  ipNorm := some
  netNorm := some
  pathNorm := some
  ip_idem := by intro s t h; cases h; rfl
  net_idem := by intro s t h; cases h; rfl
  path_idem := by intro s t h; cases h; rfl

def c14Hex (j : Json) : Except String Text := do
  let s ← j.getStr?
  match unhex s with
  | some b => match codePointsOfBytes b with
    | some c => pure c
    | none => throw "bad utf-32"
  | none => throw "bad hex"

def c14OptHex (j : Json) : Except String (Option Text) :=
  match j with
  | .null => pure none
  | _ => do pure (some (← c14Hex j))

def c14HexNat (s : String) : Except String Nat :=
  s.toList.foldlM (fun acc c => match hexVal c with | some v => pure (acc * 16 + v) | none => throw "bad hex number") 0

def c14SV (j : Json) : Except String SV := do
  let t ← getStr j "t"
  match t with
  | "str" => do pure (.str (← c14Hex (← getObj j "v")))
  | "ip" => do pure (.ip (← c14Hex (← getObj j "v")))
  | "net" => do pure (.net (← c14Hex (← getObj j "v")))
  | "path" => do pure (.path (← c14Hex (← getObj j "v")))
  | "int" => do pure (.int (← getBigInt j "v"))
  | "float" => do pure (.float (← c14HexNat (← getStr j "v")))
  | "bool" => do pure (.bool (← getBool j "v"))
  | "bytes" => do pure (.bytes (← getHex j "v"))
  | "digest" =>
    match (← getArr j "v").toList with
    | [a, b, c] => do pure (.digest (← c14OptHex a) (← c14OptHex b) (← c14OptHex c))
    | _ => throw "bad digest"
  | "dt" =>
    match (← c13Fields j) with
    | [y, mo, d, h, mi, s, us] => do pure (.dt ⟨y, mo, d, h, mi, s, us, ← c13Tz (← getObj j "tz")⟩)
    | _ => throw "bad dt"
  | _ => throw s!"bad value kind {t}"

def c14FV (j : Json) : Except String FV :=
  match j with
  | .null => pure .none
  | _ => do
    let t ← getStr j "t"
    if t == "list" then do
      let xs ← (← getArr j "v").toList.mapM c14SV
      pure (.list xs)
    else do pure (.one (← c14SV j))

def c14Fields (j : Json) : Except String (List (Text × Text)) := do
  let a ← j.getArr?
  a.toList.mapM fun p => do
    match (← p.getArr?).toList with
    | [t, n] => do pure (← c14Hex t, ← c14Hex n)
    | _ => throw "bad field"

def c14Rec (j : Json) : Except String Rec := do
  let name ← c14Hex (← getObj j "name")
  let fields ← c14Fields (← getObj j "fields")
  let vals ← (← getArr j "vals").toList.mapM c14FV
  pure ⟨⟨name, fields⟩, vals⟩

def c14Hashes (j : Json) : Except String (List (Desc × Nat)) := do
  (← j.getArr?).toList.mapM fun row => do
    match (← row.getArr?).toList with
    | [n, fs, h] => do pure (⟨← c14Hex n, ← c14Fields fs⟩, ← h.getNat?)
    | _ => throw "bad hash row"

def c14HashFn (tbl : List (Desc × Nat)) : HashFn := fun d =>
  match tbl.find? (fun p => p.1 == d) with
  | some p => p.2
  | none => 0

def c14HexOfNat16 (n : Nat) : String :=
  String.ofList ((List.range 16).reverse.map fun i => hexDigit (n / 16 ^ i % 16))

partial def c14J : JVal → Json
  | .null => Json.null
  | .bool b => Json.bool b
  | .int i => Json.mkObj [("i", intJson i)]
  | .float b => Json.mkObj [("f", Json.str (c14HexOfNat16 b))]
  | .str s => Json.mkObj [("s", textJson s)]
  | .arr xs => Json.mkObj [("a", Json.arr (xs.map c14J).toArray)]
  | .obj kvs => Json.mkObj [("o", Json.arr (kvs.map fun p => Json.arr #[textJson p.1, c14J p.2]).toArray)]

def c14OptText : Option Text → Json
  | none => Json.null
  | some t => textJson t

def c14SVJ : SV → Json
  | .str s => Json.mkObj [("t", "str"), ("v", textJson s)]
  | .ip s => Json.mkObj [("t", "ip"), ("v", textJson s)]
  | .net s => Json.mkObj [("t", "net"), ("v", textJson s)]
  | .path s => Json.mkObj [("t", "path"), ("v", textJson s)]
  | .int i => Json.mkObj [("t", "int"), ("v", intJson i)]
  | .float b => Json.mkObj [("t", "float"), ("v", Json.str (c14HexOfNat16 b))]
  | .bool b => Json.mkObj [("t", "bool"), ("v", Json.bool b)]
  | .bytes b => Json.mkObj [("t", "bytes"), ("v", hexJson b)]
  | .digest a b c => Json.mkObj [("t", "digest"), ("v", Json.arr #[c14OptText a, c14OptText b, c14OptText c])]
  | .dt t => Json.mkObj [("t", "dt"), ("obs", c13Obs t)]

def c14FVJ : FV → Json
  | .none => Json.null
  | .one v => c14SVJ v
  | .list xs => Json.mkObj [("t", "list"), ("v", Json.arr (xs.map c14SVJ).toArray)]

def c14FieldsJ (fs : List (Text × Text)) : Json :=
  Json.arr (fs.map fun f => Json.arr #[textJson f.1, textJson f.2]).toArray

def c14RecJ (r : Rec) : Json :=
  Json.mkObj [("name", textJson r.desc.name), ("fields", c14FieldsJ r.desc.fields),
    ("vals", Json.arr (r.vals.map c14FVJ).toArray)]

def c14PVJ : PV → Json
  | .none => Json.null
  | .str s => Json.mkObj [("t", "str"), ("v", textJson s)]
  | .int i => Json.mkObj [("t", "int"), ("v", intJson i)]
  | .float b => Json.mkObj [("t", "float"), ("v", Json.str (c14HexOfNat16 b))]
  | .bool b => Json.mkObj [("t", "bool"), ("v", Json.bool b)]
  | .opaque => Json.mkObj [("t", "opaque")]

def c14Err (e : Err) : Json := Json.mkObj [("error", Json.str (reprStr e))]

def c14Plain (j : JVal) : Json :=
  match j with
  | .obj kvs =>
    match lookupT kType kvs with
    | some _ => Json.null
    | none =>
      match fromJsonPlain kvs with
      | .ok p => Json.mkObj [("type", textJson p.typeName), ("fields", c14FieldsJ p.fields),
          ("vals", Json.arr (p.vals.map c14PVJ).toArray), ("source", c14PVJ p.source),
          ("classification", c14PVJ p.classification), ("generated", c14OptText p.generatedIso)]
      | .error e => c14Err e
  | _ => Json.null

def handleC14 : Handler := fun op j =>
  match op with
  | "c14" => some do
      let descriptors ← getBool j "descriptors"
      let recs ← (← getArr j "records").toList.mapM c14Rec
      -- the descriptor hash in `_recorddescriptor`: from the caller's table, or - when there is none - by the published
      -- rule itself (Spec.descriptorHash, the model's own SHA-256)
      let H : HashFn ← match j.getObjVal? "hashes" with
        | .ok h => do pure (c14HashFn (← c14Hashes h))
        | .error _ => pure (fun d => (Spec.descriptorHash d.name d.fields).getD 0)
      -- optional "fails": per record `true` when that write raises after the packer registered the descriptor
      let fails : List Bool := match j.getObjVal? "fails" with
        | .ok (Json.arr a) => a.toList.map (fun x => match x.getBool? with | .ok b => b | .error _ => false)
        | _ => recs.map (fun _ => false)
      let lines := writeHist H descriptors [] (recs.zip (fails.map (!·)))
      let read : Json := match readAll c14Laws H [] lines with
        | .ok rs => Json.mkObj [("ok", Json.arr (rs.map c14RecJ).toArray)]
        | .error e => c14Err e
      pure (Json.mkObj [("lines", Json.arr (lines.map c14J).toArray), ("read", read),
        ("plain", Json.arr (lines.map c14Plain).toArray)])
  | "b64" => some do
      let b ← getHex j "hex"
      let e := Base64.b64enc b
      pure (Json.mkObj [("enc", textJson e), ("dec", match Base64.b64dec e with | some x => hexJson x | none => Json.null)])
  | "b64dec" => some do
      let t ← getText j "text"
      pure (Json.mkObj [("dec", match Base64.b64dec t with | some x => hexJson x | none => Json.null)])
  | _ => none

end FlowRecord.Drive
