import FlowRecord.Drive.Util
import FlowRecord.Model.Equality
open Lean
namespace FlowRecord.Drive
open FlowRecord.Equality FlowRecord.Descriptor

def c12Text (j : Json) : Except String Str := do
  let s ← j.getStr?
  match unhex s with
  | some b => match codePointsOfBytes b with
    | some cps => pure cps
    | none => throw "bad utf-32"
  | none => throw "bad hex"

def c12Names (j : Json) : Except String (List Str) := do
  let a ← j.getArr?
  a.toList.mapM c12Text

def c12Desc (j : Json) : Except String (Desc × Nat) := do
  let name ← c12Text (← j.getObjVal? "name")
  let fs ← (← j.getObjVal? "fields").getArr?
  let fields ← fs.toList.mapM fun f => do
    let p ← f.getArr?
    let t ← c12Text (p[0]?.getD Json.null)
    let n ← c12Text (p[1]?.getD Json.null)
    pure (t, n)
  let hash ← (← j.getObjVal? "hash").getNat?
  pure (⟨name, fields⟩, hash)

/-- ["p", id] | ["l", [..]] | ["t", [..]] | ["d", [key ids], [vals]] | ["r", desc index, [vals]] | ["g", name, [members]] -/
partial def c12Val (descs : Array Desc) (j : Json) : Except String (Val Nat) := do
  let a ← j.getArr?
  let tag ← (a[0]?.getD Json.null).getStr?
  match tag with
  | "p" => pure (.prim (← (a[1]?.getD Json.null).getNat?))
  | "l" => do
    let xs ← (← (a[1]?.getD Json.null).getArr?).toList.mapM (c12Val descs)
    pure (.seq false xs)
  | "t" => do
    let xs ← (← (a[1]?.getD Json.null).getArr?).toList.mapM (c12Val descs)
    pure (.seq true xs)
  | "d" => do
    let ks ← (← (a[1]?.getD Json.null).getArr?).toList.mapM fun k => k.getNat?
    let vs ← (← (a[2]?.getD Json.null).getArr?).toList.mapM (c12Val descs)
    pure (.dict ks vs)
  | "r" => do
    let i ← (a[1]?.getD Json.null).getNat?
    let vs ← (← (a[2]?.getD Json.null).getArr?).toList.mapM (c12Val descs)
    match descs[i]? with
    | some d => pure (.record d vs)
    | none => throw "bad descriptor index"
  | "g" => do
    let n ← c12Text (a[1]?.getD Json.null)
    let ms ← (← (a[2]?.getD Json.null).getArr?).toList.mapM (c12Val descs)
    pure (.grouped n ms)
  | t => throw s!"bad value tag {t}"

/-- 64-bit mixing (splitmix-style finaliser) so that the concrete combiners below do not collide on small inputs;
    which combiner CPython uses is irrelevant to the theorems (they hold for every `Combine`). -/
def c12Mix (a b : Nat) : Nat :=
  let m := 18446744073709551616
  let x := (a ^^^ (b + 0x9e3779b97f4a7c15 + (a <<< 6) % m + (a >>> 2))) % m
  let x := ((x ^^^ (x >>> 30)) * 0xbf58476d1ce4e5b9) % m
  let x := ((x ^^^ (x >>> 27)) * 0x94d049bb133111eb) % m
  x ^^^ (x >>> 31)

def c12Comb : Combine :=
  ⟨fun l => l.foldl c12Mix 3430008,
   fun l => l.foldl (fun a b => (a + c12Mix 1927868237 b) % 18446744073709551616) 0,
   fun s => s.foldl c12Mix 5381,
   fun n => c12Mix 11 n⟩

partial def c12Cmd (j : Json) : Except String Cmd := do
  let a ← j.getArr?
  let tag ← (a[0]?.getD Json.null).getStr?
  match tag with
  | "set" => pure (.set (← c12Names (a[1]?.getD Json.null)))
  | "raise" => pure .raise
  | "observe" => pure .observe
  | "scope" => do
    let s ← c12Names (a[1]?.getD Json.null)
    let body ← (← (a[2]?.getD Json.null).getArr?).toList.mapM c12Cmd
    pure (.scope s body)
  | t => throw s!"bad command {t}"

def c12NamesJson (l : List Str) : Json := Json.arr (l.map textJson).toArray

def handleC12 : Handler := fun op j =>
  match op with
  | "c12_cmp" => some do
      let ds ← (← getArr j "descs").toList.mapM c12Desc
      let descs := (ds.map (·.1)).toArray
      let table := ds.map fun p => (hashInput p.1, p.2)
      let conflict := table.any fun p => table.any fun q => p.1 == q.1 && p.2 != q.2
      let h : Str → Nat := fun s => ((table.find? (·.1 == s)).map (·.2)).getD 0
      let ig ← c12Names (← getObj j "ig")
      let a ← c12Val descs (← getObj j "a")
      let b ← c12Val descs (← getObj j "b")
      let unh ← (← getArr j "unhashable").toList.mapM fun x => x.getNat?
      let E : Nat → Nat → Bool := fun x y => x == y
      let H : Nat → Option Nat := fun x => if unh.contains x then none else some x
      let ha := hashRec H c12Comb h ig a
      let hb := hashRec H c12Comb h ig b
      pure (Json.mkObj [
        ("eq_ab", Json.bool (recEq E h ig a b)), ("eq_ba", Json.bool (recEq E h ig b a)),
        ("eq_aa", Json.bool (recEq E h ig a a)),
        ("hash_a_ok", Json.bool ha.isSome), ("hash_b_ok", Json.bool hb.isSome),
        ("hash_equal", Json.bool (ha.isSome && ha == hb)),
        ("hash_inputs", Json.arr (ds.map fun p => textJson (hashInput p.1)).toArray),
        ("conflict", Json.bool conflict)])
  | "c12_scope" => some do
      let glob ← c12Names (← getObj j "glob")
      let prog ← (← getArr j "prog").toList.mapM c12Cmd
      let (st, ex) := execs ⟨glob, []⟩ prog
      pure (Json.mkObj [("glob", c12NamesJson st.glob), ("trace", Json.arr (st.trace.map c12NamesJson).toArray),
        ("exit", Json.str (match ex with | .normal => "normal" | .raised => "raised"))])
  | _ => none

end FlowRecord.Drive
