import FlowRecord.Drive.Util
import FlowRecord.Model.Avro
open Lean
namespace FlowRecord.Drive
namespace C19
open FlowRecord.Avro

def descOf (j : Json) : Except String Desc := do
  let name ← getStr j "name"
  let fs ← getArr j "fields"
  let fields ← fs.toList.mapM fun f => do
    let a ← f.getArr?
    match a.toList with
    | [t, n] => do pure (← t.getStr?, ← n.getStr?)
    | _ => throw "field pair expected"
  pure ⟨name, fields⟩

def descJson (d : Desc) : Json :=
  Json.mkObj [("name", Json.str d.name),
    ("fields", Json.arr (d.fields.map fun f => Json.arr #[Json.str f.1, Json.str f.2]).toArray)]

/-- the driver's JSON text layer: names are plain ASCII (no escapes), `loads` knows the one document it produced -/
def jFor (d : Desc) : JsonTextLaws :=
  let J0 : JsonTextLaws := { esc := String.toList, loads := fun _ => none }
  { esc := String.toList, loads := fun t => if t = dumps J0 d then some d else none }

def errJson : Err → Json
  | .unsupportedType t => Json.mkObj [("error", Json.str "unsupportedType"), ("type", Json.str t)]
  | .mixed => Json.mkObj [("error", Json.str "mixed")]
  | .noWriter => Json.mkObj [("error", Json.str "noWriter")]
  | .refused i => Json.mkObj [("error", Json.str "refused"), ("field", Json.num i)]
  | .typeError => Json.mkObj [("error", Json.str "typeError")]
  | .badDoc => Json.mkObj [("error", Json.str "badDoc")]

def atypeJson : AType → Json
  | .prim t => Json.str t
  | .tsMicros => Json.str "timestamp-micros"

def backJson : Except Err Desc → Json
  | .ok d => descJson d
  | .error e => errJson e

def valOf (j : Json) : Except String Val := do
  let a ← j.getArr?
  match a.toList with
  | [Json.str "null"] => pure .null
  | [Json.str "bool", b] => do pure (.bool (← b.getBool?))
  | [Json.str "int", s] => do pure (.int (← intOfString (← s.getStr?)))
  | [Json.str "dt", s] => do pure (.dt (← intOfString (← s.getStr?)))
  | [Json.str "float", s] => do
      match unhex (← s.getStr?) with
      | some bs => pure (.float (bs.foldl (fun acc b => acc * 256 + b.toUInt64) 0))
      | none => throw "bad float bits"
  | [Json.str "str", s] => do
      match unhex (← s.getStr?) with
      | some b =>
        match codePointsOfBytes b with
        | some cps => pure (.str cps)
        | none => throw "bad utf-32"
      | none => throw "bad hex"
  | [Json.str "bytes", s] => do
      match unhex (← s.getStr?) with
      | some b => pure (.bytes b)
      | none => throw "bad hex"
  | [Json.str "tuple"] => pure .tuple
  | _ => throw "bad value"

def u64hex (x : UInt64) : String :=
  hex ((List.range 8).reverse.map fun k => UInt8.ofNat ((x.toNat / 256 ^ k) % 256))

def valJson : Val → Json
  | .null => Json.arr #[Json.str "null"]
  | .bool b => Json.arr #[Json.str "bool", Json.bool b]
  | .int i => Json.arr #[Json.str "int", intJson i]
  | .dt m => Json.arr #[Json.str "dt", intJson m]
  | .float b => Json.arr #[Json.str "float", Json.str (u64hex b)]
  | .str s => Json.arr #[Json.str "str", textJson s]
  | .bytes b => Json.arr #[Json.str "bytes", hexJson b]
  | .tuple => Json.arr #[Json.str "tuple"]
  | .junk => Json.arr #[Json.str "junk"]

partial def jtypeOf (j : Json) : Except String JType :=
  match j with
  | Json.str s => pure (.name s)
  | Json.arr a => do pure (.union (← a.toList.mapM jtypeOf))
  | Json.obj _ => do
    let t ← (j.getObjValAs? String "type")
    if t == "array" then
      pure (.array (← jtypeOf (← j.getObjVal? "items")))
    else
      match j.getObjValAs? String "logicalType" with
      | .ok l => pure (.obj t (some l))
      | .error _ => pure (.obj t none)
  | _ => throw "bad jtype"

end C19

open C19 FlowRecord.Avro in
def handleC19 : Handler := fun op j =>
  match op with
  | "avro_schema" => some do
      let d ← descOf j
      let J := jFor d
      match descriptorToSchema J d with
      | .error e => pure (errJson e)
      | .ok s =>
        let n := fastavroNorm s
        pure (Json.mkObj [
          ("ns", Json.str (String.ofList (s.ns.getD []))), ("name", Json.str (String.ofList s.name)),
          ("doc", Json.str (String.ofList (s.doc.getD []))),
          ("fields", Json.arr (s.fields.map fun f => Json.arr #[Json.str f.1, atypeJson f.2]).toArray),
          ("sniff", Json.bool (docSniff (s.doc.getD []))),
          ("norm_name", Json.str (String.ofList n.name)),
          ("back_raw", backJson (schemaToDescriptor J s)),
          ("back_norm", backJson (schemaToDescriptor J n)),
          ("back_nodoc", backJson (schemaToDescriptor J { n with doc := none }))])
  | "avro_seq" => some do
      let descsJ ← getArr j "descs"
      let descs ← descsJ.toList.mapM descOf
      let recsJ ← getArr j "recs"
      let recs ← recsJ.toList.mapM fun rj => do
        let i ← getNat rj "desc"
        let vs ← getArr rj "values"
        let vals ← vs.toList.mapM valOf
        match descs[i]? with
        | some d => pure (⟨d, vals⟩ : Rec)
        | none => throw "bad desc index"
      let stop ← getBool j "stop"
      let J : JsonTextLaws := { esc := String.toList, loads := fun _ => none }
      let F : FloatLaws := ⟨id⟩
      -- policy "stop": the caller gives up at the first exception
      let mut st := WState.init
      let mut errs : Array Json := #[]
      for r in recs do
        let (st', e) := write J fastavro F st r
        st := st'
        match e with
        | none => errs := errs.push Json.null
        | some e =>
          errs := errs.push (errJson e)
          if stop then break
      let rows := match fileRows fastavro st with
        | some rows => Json.arr (rows.map fun r => Json.arr (r.map valJson).toArray).toArray
        | none => Json.null
      pure (Json.mkObj [("errs", Json.arr errs), ("rows", rows), ("count", Json.num st.count)])
  | "avro_jtype" => some do
      let t ← jtypeOf (← getObj j "type")
      match avroTypeToFlowType t with
      | .ok s => pure (Json.mkObj [("ok", Json.str s)])
      | .error _ => pure (Json.mkObj [("error", Json.str "TypeError")])
  | _ => none

end FlowRecord.Drive
